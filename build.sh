#!/bin/sh
# Builds the checker binary offline from files on disk only, and warms the Go build cache with the export data of
# /repo's dependencies (the checker loads dependencies from export data; without a warm cache the first check pays
# for compiling them).
set -e
cd "$(dirname "$0")/checker"
export GOFLAGS=-mod=mod GOPROXY=off GOSUMDB=off GOTOOLCHAIN=local
unset GOWORK
mkdir -p ../bin
go build -o ../bin/verifcheck ./cmd/verifcheck
(cd "${VERIF_REPO:-/repo}" && go list -export -deps ./... >/dev/null 2>&1 || true)
(cd "${VERIF_REPO:-/repo}/cmd/arcaflow-codegen" && go list -export -deps ./... >/dev/null 2>&1 || true)
