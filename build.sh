#!/bin/sh
# Builds the checker binary offline from files on disk only.
set -e
cd "$(dirname "$0")/checker"
export GOFLAGS=-mod=mod GOPROXY=off GOSUMDB=off GOTOOLCHAIN=local
unset GOWORK
mkdir -p ../bin
go build -o ../bin/verifcheck ./cmd/verifcheck
