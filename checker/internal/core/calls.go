package core

import (
	"go/types"
	"sort"

	"golang.org/x/tools/go/ssa"
)

// chaIndex resolves interface / type-parameter method calls to the source methods of repository types
// (class-hierarchy analysis restricted to the repository: the SDK is a library, so flow-based graphs
// such as VTA miss the types only users instantiate).
type chaIndex struct {
	// for each concrete named repo type R (and *R): method name -> declared (origin) function
	types []chaType
}

type chaType struct {
	name    string
	named   *types.Named
	methods map[string]*types.Func // full method set of *R incl. promoted, origin funcs
}

func buildCHA(m *Module) *chaIndex {
	idx := &chaIndex{}
	for _, p := range m.Pkgs {
		scope := p.Types.Scope()
		for _, name := range scope.Names() {
			tn, ok := scope.Lookup(name).(*types.TypeName)
			if !ok || tn.IsAlias() {
				continue
			}
			named, ok := tn.Type().(*types.Named)
			if !ok {
				continue
			}
			if _, isIface := named.Underlying().(*types.Interface); isIface {
				continue
			}
			ct := chaType{name: p.Name + "." + name, named: named, methods: map[string]*types.Func{}}
			ms := types.NewMethodSet(types.NewPointer(named))
			for i := 0; i < ms.Len(); i++ {
				if f, ok := ms.At(i).Obj().(*types.Func); ok {
					ct.methods[f.Name()] = f.Origin()
				}
			}
			idx.types = append(idx.types, ct)
		}
	}
	return idx
}

// ifaceMethodNames returns the method names of an interface or of a type parameter's constraint.
func ifaceMethodNames(t types.Type) []string {
	var it *types.Interface
	switch u := t.(type) {
	case *types.TypeParam:
		it, _ = u.Constraint().Underlying().(*types.Interface)
	default:
		it, _ = t.Underlying().(*types.Interface)
	}
	if it == nil {
		return nil
	}
	var names []string
	for i := 0; i < it.NumMethods(); i++ {
		names = append(names, it.Method(i).Name())
	}
	sort.Strings(names)
	return names
}

// Implementers returns the repo types whose (pointer) method set contains all method names of iface.
func (m *Module) Implementers(iface types.Type) []*types.Named {
	names := ifaceMethodNames(iface)
	if len(names) == 0 {
		return nil
	}
	var out []*types.Named
	for _, ct := range m.cha.types {
		ok := true
		for _, n := range names {
			if ct.methods[n] == nil {
				ok = false
				break
			}
		}
		if ok {
			out = append(out, ct.named)
		}
	}
	return out
}

// Callees returns the source-level repo functions a call may invoke. Calls into dependencies, the
// standard library and user callbacks (function-typed fields / parameters) have no callees here.
func (m *Module) Callees(call *ssa.CallCommon) []*ssa.Function {
	if call.IsInvoke() {
		recvT := call.Value.Type()
		names := ifaceMethodNames(recvT)
		if len(names) == 0 {
			return nil
		}
		seen := map[*ssa.Function]bool{}
		var out []*ssa.Function
		for _, ct := range m.cha.types {
			ok := true
			for _, n := range names {
				if ct.methods[n] == nil {
					ok = false
					break
				}
			}
			if !ok {
				continue
			}
			f := ct.methods[call.Method.Name()]
			if f == nil {
				continue
			}
			fn := m.Prog.FuncValue(f)
			if fn == nil {
				continue
			}
			fn = m.Source(fn)
			if _, isSrc := m.keyOf[fn]; isSrc && !seen[fn] {
				seen[fn] = true
				out = append(out, fn)
			}
		}
		sort.Slice(out, func(i, j int) bool { return m.keyOf[out[i]] < m.keyOf[out[j]] })
		return out
	}
	switch v := call.Value.(type) {
	case *ssa.Function:
		fn := m.Source(v)
		if _, ok := m.keyOf[fn]; ok {
			return []*ssa.Function{fn}
		}
	case *ssa.MakeClosure:
		if fn, ok := v.Fn.(*ssa.Function); ok {
			if _, ok := m.keyOf[fn]; ok {
				return []*ssa.Function{fn}
			}
		}
	}
	return nil
}

// StaticCalleeName returns "pkgpath.Name" or "(pkgpath.Type).Name" for statically resolved calls to any function
// (including dependencies and the standard library), or "" for dynamic calls.
func StaticCalleeName(call *ssa.CallCommon) string {
	if call.IsInvoke() {
		return ""
	}
	var fn *ssa.Function
	switch v := call.Value.(type) {
	case *ssa.Function:
		fn = v
	case *ssa.MakeClosure:
		fn, _ = v.Fn.(*ssa.Function)
	}
	if fn == nil {
		return ""
	}
	if o := fn.Origin(); o != nil {
		fn = o
	}
	if obj, ok := fn.Object().(*types.Func); ok && obj != nil {
		return obj.FullName()
	}
	return fn.String()
}

// InvokeName returns "(iface).Method" style name for invoke-mode calls: the method name and receiver static type.
func InvokeName(call *ssa.CallCommon) (recv types.Type, method string) {
	if !call.IsInvoke() {
		return nil, ""
	}
	return call.Value.Type(), call.Method.Name()
}

// CallGraph edge kinds.
const (
	EdgeCall  = "call"
	EdgeGo    = "go"
	EdgeDefer = "defer"
)

type Edge struct {
	From, To *ssa.Function
	Site     ssa.CallInstruction
	Kind     string
}

// Edges computes (and caches nothing; cheap) all call edges out of fn, including closure creation edges
// (a closure that is created but invoked elsewhere is linked from its creator with kind "closure").
func (m *Module) Edges(fn *ssa.Function) []Edge {
	var out []Edge
	for _, b := range fn.Blocks {
		for _, in := range b.Instrs {
			if ci, ok := in.(ssa.CallInstruction); ok {
				kind := EdgeCall
				switch in.(type) {
				case *ssa.Go:
					kind = EdgeGo
				case *ssa.Defer:
					kind = EdgeDefer
				}
				for _, c := range m.Callees(ci.Common()) {
					out = append(out, Edge{fn, c, ci, kind})
				}
			}
			if mc, ok := in.(*ssa.MakeClosure); ok {
				if cf, ok := mc.Fn.(*ssa.Function); ok {
					if _, ok := m.keyOf[cf]; ok {
						out = append(out, Edge{fn, cf, nil, "closure"})
					}
				}
			}
		}
	}
	return out
}

// Reachable returns the set of source functions reachable from roots through Edges.
// stop, if non-nil, prunes traversal below functions for which it returns true (the function itself is included).
func (m *Module) Reachable(roots []*ssa.Function, stop func(*ssa.Function) bool) map[*ssa.Function]bool {
	seen := map[*ssa.Function]bool{}
	var work []*ssa.Function
	for _, r := range roots {
		if r != nil && !seen[r] {
			seen[r] = true
			work = append(work, r)
		}
	}
	for len(work) > 0 {
		f := work[len(work)-1]
		work = work[:len(work)-1]
		if stop != nil && stop(f) {
			continue
		}
		for _, e := range m.Edges(f) {
			if !seen[e.To] {
				seen[e.To] = true
				work = append(work, e.To)
			}
		}
	}
	return seen
}

// SortedFuncs returns the functions of a set sorted by key.
func (m *Module) SortedFuncs(set map[*ssa.Function]bool) []*ssa.Function {
	var out []*ssa.Function
	for f := range set {
		out = append(out, f)
	}
	sort.Slice(out, func(i, j int) bool { return m.Key(out[i]) < m.Key(out[j]) })
	return out
}
