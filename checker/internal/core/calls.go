package core

import (
	"go/token"
	"go/types"
	"sort"

	"golang.org/x/tools/go/ssa"
)

// chaIndex resolves interface / type-parameter method calls to the source methods of repository types
// (class-hierarchy analysis restricted to the repository: the SDK is a library, so flow-based graphs
// such as VTA miss the types only users instantiate).
type chaIndex struct {
	// for each concrete named repo type R (and *R): method name -> declared (origin) function
	types []chaType
}

type chaType struct {
	name    string
	named   *types.Named
	methods map[string]*types.Func // full method set of *R incl. promoted, origin funcs
}

func buildCHA(m *Module) *chaIndex {
	idx := &chaIndex{}
	for _, p := range m.Pkgs {
		scope := p.Types.Scope()
		for _, name := range scope.Names() {
			tn, ok := scope.Lookup(name).(*types.TypeName)
			if !ok || tn.IsAlias() {
				continue
			}
			named, ok := tn.Type().(*types.Named)
			if !ok {
				continue
			}
			if _, isIface := named.Underlying().(*types.Interface); isIface {
				continue
			}
			ct := chaType{name: p.Name + "." + name, named: named, methods: map[string]*types.Func{}}
			ms := types.NewMethodSet(types.NewPointer(named))
			for i := 0; i < ms.Len(); i++ {
				if f, ok := ms.At(i).Obj().(*types.Func); ok {
					ct.methods[f.Name()] = f.Origin()
				}
			}
			idx.types = append(idx.types, ct)
		}
	}
	return idx
}

// ifaceMethodNames returns the method names of an interface or of a type parameter's constraint.
func ifaceMethodNames(t types.Type) []string {
	var it *types.Interface
	switch u := t.(type) {
	case *types.TypeParam:
		it, _ = u.Constraint().Underlying().(*types.Interface)
	default:
		it, _ = t.Underlying().(*types.Interface)
	}
	if it == nil {
		return nil
	}
	var names []string
	for i := 0; i < it.NumMethods(); i++ {
		names = append(names, it.Method(i).Name())
	}
	sort.Strings(names)
	return names
}

// Implementers returns the repo types whose (pointer) method set contains all method names of iface.
func (m *Module) Implementers(iface types.Type) []*types.Named {
	names := ifaceMethodNames(iface)
	if len(names) == 0 {
		return nil
	}
	var out []*types.Named
	for _, ct := range m.cha.types {
		ok := true
		for _, n := range names {
			if ct.methods[n] == nil {
				ok = false
				break
			}
		}
		if ok {
			out = append(out, ct.named)
		}
	}
	return out
}

// Callees returns the source-level repo functions a call may invoke. Calls into dependencies, the
// standard library and user callbacks (function-typed fields / parameters) have no callees here.
func (m *Module) Callees(call *ssa.CallCommon) []*ssa.Function {
	out := m.calleesBase(call)
	if len(out) == 0 && !call.IsInvoke() {
		// a function value that the enclosing function was handed as a parameter: what its call sites hand it
		return m.handedFuncs(call.Value, 0)
	}
	return out
}

var handedMemo = map[ssa.Value][]*ssa.Function{}

// handedFuncs resolves a function-typed value that is a parameter of an unexported function all of whose uses are
// plain static calls (or a variable of a closure that captures such a parameter) to the source functions that the call
// sites hand over: function literals, named functions and method values. Nil if any call site hands over anything
// else.
func (m *Module) handedFuncs(v ssa.Value, depth int) []*ssa.Function {
	if v == nil || depth > 4 {
		return nil
	}
	if _, isFunc := v.Type().Underlying().(*types.Signature); !isFunc {
		if pt, isPtr := v.Type().Underlying().(*types.Pointer); !isPtr {
			return nil
		} else if _, isFunc := pt.Elem().Underlying().(*types.Signature); !isFunc {
			return nil
		}
	}
	if out, done := handedMemo[v]; done {
		return out
	}
	handedMemo[v] = nil
	out := m.handedFuncsOf(v, depth)
	handedMemo[v] = out
	return out
}

func (m *Module) handedFuncsOf(v ssa.Value, depth int) []*ssa.Function {
	single := func(al *ssa.Alloc) ssa.Value {
		if al.Referrers() == nil {
			return nil
		}
		var stored ssa.Value
		n := 0
		for _, r := range *al.Referrers() {
			if st, ok := r.(*ssa.Store); ok && st.Addr == ssa.Value(al) {
				stored = st.Val
				n++
			}
		}
		if n == 1 {
			return stored
		}
		return nil
	}
	switch x := v.(type) {
	case *ssa.Function:
		if fn := m.Source(x); fn != nil {
			if _, ok := m.keyOf[fn]; ok {
				return []*ssa.Function{fn}
			}
		}
		// a method value: the bound-method wrapper stands for the method
		if obj, ok := x.Object().(*types.Func); ok && obj != nil {
			if fn := m.Prog.FuncValue(obj); fn != nil {
				fn = m.Source(fn)
				if _, ok := m.keyOf[fn]; ok {
					return []*ssa.Function{fn}
				}
			}
		}
		return nil
	case *ssa.MakeClosure:
		if fn, ok := x.Fn.(*ssa.Function); ok {
			return m.handedFuncsOf(fn, depth)
		}
		return nil
	case *ssa.UnOp:
		if x.Op != token.MUL {
			return nil
		}
		switch a := x.X.(type) {
		case *ssa.Alloc:
			return m.handedFuncs(single(a), depth+1)
		case *ssa.FreeVar:
			return m.handedFuncs(a, depth+1)
		case *ssa.IndexAddr:
			// an element of a package-level table of functions
			if ld, ok := a.X.(*ssa.UnOp); ok && ld.Op == token.MUL {
				if g, ok := ld.X.(*ssa.Global); ok {
					return m.tableFuncs(g)
				}
			}
			if g, ok := a.X.(*ssa.Global); ok {
				return m.tableFuncs(g)
			}
		}
		return nil
	case *ssa.Extract:
		if lk, ok := x.Tuple.(*ssa.Lookup); ok {
			return m.handedFuncsOf(lk, depth)
		}
		return nil
	case *ssa.Lookup:
		// a package-level map of functions that only the package initialiser fills (a dispatch table)
		if ld, ok := x.X.(*ssa.UnOp); ok && ld.Op == token.MUL {
			if g, ok := ld.X.(*ssa.Global); ok {
				return m.tableFuncs(g)
			}
		}
		return nil
	case *ssa.FreeVar:
		closure := x.Parent()
		parent := closure.Parent()
		if parent == nil {
			return nil
		}
		idx := -1
		for i, fv := range closure.FreeVars {
			if fv == x {
				idx = i
			}
		}
		for _, b := range parent.Blocks {
			for _, in := range b.Instrs {
				mc, ok := in.(*ssa.MakeClosure)
				if !ok || mc.Fn != ssa.Value(closure) || idx < 0 || idx >= len(mc.Bindings) {
					continue
				}
				bound := mc.Bindings[idx]
				if al, isAlloc := bound.(*ssa.Alloc); isAlloc {
					bound = single(al)
				}
				return m.handedFuncs(bound, depth+1)
			}
		}
		return nil
	case *ssa.Parameter:
		fn := x.Parent()
		idx := -1
		for i, prm := range fn.Params {
			if prm == x {
				idx = i
			}
		}
		sites := PlainSites(fn)
		if idx < 0 || len(sites) == 0 {
			return nil
		}
		seen := map[*ssa.Function]bool{}
		var out []*ssa.Function
		for _, site := range sites {
			if idx >= len(site.Call.Args) {
				return nil
			}
			got := m.handedFuncs(site.Call.Args[idx], depth+1)
			if len(got) == 0 {
				return nil
			}
			for _, g := range got {
				if !seen[g] {
					seen[g] = true
					out = append(out, g)
				}
			}
		}
		sort.Slice(out, func(i, j int) bool { return m.keyOf[out[i]] < m.keyOf[out[j]] })
		return out
	}
	return nil
}

// IsHandedCall: the call runs a function value that the call graph resolved through handedFuncs (a parameter, or a
// captured parameter), not a function named at the call.
func (m *Module) IsHandedCall(call *ssa.CallCommon) bool {
	return !call.IsInvoke() && len(m.calleesBase(call)) == 0 && len(m.handedFuncs(call.Value, 0)) > 0
}

// HandingSites: the static calls of the module that hand fn (a function literal, a named function, a method value) to
// a function-typed parameter.
func (m *Module) HandingSites(fn *ssa.Function) []*ssa.Call {
	var out []*ssa.Call
	for _, g := range m.Funcs {
		for _, b := range g.Blocks {
			for _, in := range b.Instrs {
				call, ok := in.(*ssa.Call)
				if !ok || call.Call.IsInvoke() || staticBody(&call.Call) == nil {
					continue
				}
				for _, a := range call.Call.Args {
					if _, isFunc := a.Type().Underlying().(*types.Signature); !isFunc {
						continue
					}
					switch a.(type) {
					case *ssa.Function, *ssa.MakeClosure:
					default:
						continue
					}
					for _, h := range m.handedFuncs(a, 0) {
						if h == fn {
							out = append(out, call)
						}
					}
				}
			}
		}
	}
	return out
}

// IsDispatchTable: g is a package-level table of functions that only the package initialiser fills.
func (m *Module) IsDispatchTable(g *ssa.Global) bool { return len(m.tableFuncs(g)) > 0 }

// tableFuncs: the functions held by a package-level map, slice or array that is filled by the package initialiser and
// written nowhere else in the module (no store to the variable, no update of its elements outside init). Nil otherwise.
func (m *Module) tableFuncs(g *ssa.Global) []*ssa.Function {
	pkg := g.Package()
	if pkg == nil {
		return nil
	}
	init := pkg.Func("init")
	if init == nil {
		return nil
	}
	// written outside the initialiser?
	for _, fn := range m.Funcs {
		if fn == init {
			continue
		}
		for _, b := range fn.Blocks {
			for _, in := range b.Instrs {
				switch x := in.(type) {
				case *ssa.Store:
					if x.Addr == ssa.Value(g) {
						return nil
					}
					if ia, ok := x.Addr.(*ssa.IndexAddr); ok {
						if ia.X == ssa.Value(g) {
							return nil
						}
						if ld, ok := ia.X.(*ssa.UnOp); ok && ld.X == ssa.Value(g) {
							return nil
						}
					}
				case *ssa.MapUpdate:
					if ld, ok := x.Map.(*ssa.UnOp); ok && ld.X == ssa.Value(g) {
						return nil
					}
				}
			}
		}
	}
	// what the initialiser puts in
	var table ssa.Value
	for _, b := range init.Blocks {
		for _, in := range b.Instrs {
			if st, ok := in.(*ssa.Store); ok && st.Addr == ssa.Value(g) {
				if table != nil {
					return nil
				}
				table = st.Val
			}
		}
	}
	seen := map[*ssa.Function]bool{}
	var out []*ssa.Function
	add := func(v ssa.Value) bool {
		got := m.handedFuncs(v, 1)
		if len(got) == 0 {
			return false
		}
		for _, f := range got {
			if !seen[f] {
				seen[f] = true
				out = append(out, f)
			}
		}
		return true
	}
	for _, b := range init.Blocks {
		for _, in := range b.Instrs {
			switch x := in.(type) {
			case *ssa.MapUpdate:
				if table != nil && x.Map == table {
					if !add(x.Value) {
						return nil
					}
				}
			case *ssa.Store:
				// elements of a slice / array literal
				if ia, ok := x.Addr.(*ssa.IndexAddr); ok {
					base := ia.X
					if sl, ok := table.(*ssa.Slice); ok && table != nil {
						if base == sl.X {
							if !add(x.Val) {
								return nil
							}
						}
					}
					if base == ssa.Value(g) {
						if !add(x.Val) {
							return nil
						}
					}
				}
			}
		}
	}
	sort.Slice(out, func(i, j int) bool { return m.keyOf[out[i]] < m.keyOf[out[j]] })
	return out
}

func (m *Module) calleesBase(call *ssa.CallCommon) []*ssa.Function {
	if call.IsInvoke() {
		recvT := call.Value.Type()
		names := ifaceMethodNames(recvT)
		if len(names) == 0 {
			return nil
		}
		seen := map[*ssa.Function]bool{}
		var out []*ssa.Function
		for _, ct := range m.cha.types {
			ok := true
			for _, n := range names {
				if ct.methods[n] == nil {
					ok = false
					break
				}
			}
			if !ok {
				continue
			}
			f := ct.methods[call.Method.Name()]
			if f == nil {
				continue
			}
			fn := m.Prog.FuncValue(f)
			if fn == nil {
				continue
			}
			fn = m.Source(fn)
			if _, isSrc := m.keyOf[fn]; isSrc && !seen[fn] {
				seen[fn] = true
				out = append(out, fn)
			}
		}
		sort.Slice(out, func(i, j int) bool { return m.keyOf[out[i]] < m.keyOf[out[j]] })
		return out
	}
	switch v := call.Value.(type) {
	case *ssa.Function:
		fn := m.Source(v)
		if _, ok := m.keyOf[fn]; ok {
			return []*ssa.Function{fn}
		}
	case *ssa.MakeClosure:
		if fn, ok := v.Fn.(*ssa.Function); ok {
			if _, ok := m.keyOf[fn]; ok {
				return []*ssa.Function{fn}
			}
		}
	}
	return nil
}

// StaticCalleeName returns "pkgpath.Name" or "(pkgpath.Type).Name" for statically resolved calls to any function
// (including dependencies and the standard library), or "" for dynamic calls.
func StaticCalleeName(call *ssa.CallCommon) string {
	if call.IsInvoke() {
		return ""
	}
	var fn *ssa.Function
	switch v := call.Value.(type) {
	case *ssa.Function:
		fn = v
	case *ssa.MakeClosure:
		fn, _ = v.Fn.(*ssa.Function)
	}
	if fn == nil {
		return ""
	}
	if o := fn.Origin(); o != nil {
		fn = o
	}
	if obj, ok := fn.Object().(*types.Func); ok && obj != nil {
		return obj.FullName()
	}
	return fn.String()
}

// InvokeName returns "(iface).Method" style name for invoke-mode calls: the method name and receiver static type.
func InvokeName(call *ssa.CallCommon) (recv types.Type, method string) {
	if !call.IsInvoke() {
		return nil, ""
	}
	return call.Value.Type(), call.Method.Name()
}

// CallGraph edge kinds.
const (
	EdgeCall  = "call"
	EdgeGo    = "go"
	EdgeDefer = "defer"
)

type Edge struct {
	From, To *ssa.Function
	Site     ssa.CallInstruction
	Kind     string
}

// Edges computes (and caches nothing; cheap) all call edges out of fn, including closure creation edges
// (a closure that is created but invoked elsewhere is linked from its creator with kind "closure").
func (m *Module) Edges(fn *ssa.Function) []Edge {
	var out []Edge
	for _, b := range fn.Blocks {
		for _, in := range b.Instrs {
			if ci, ok := in.(ssa.CallInstruction); ok {
				kind := EdgeCall
				switch in.(type) {
				case *ssa.Go:
					kind = EdgeGo
				case *ssa.Defer:
					kind = EdgeDefer
				}
				for _, c := range m.Callees(ci.Common()) {
					out = append(out, Edge{fn, c, ci, kind})
				}
			}
			if mc, ok := in.(*ssa.MakeClosure); ok {
				if cf, ok := mc.Fn.(*ssa.Function); ok {
					if _, ok := m.keyOf[cf]; ok {
						out = append(out, Edge{fn, cf, nil, "closure"})
					}
				}
			}
		}
	}
	return out
}

// Reachable returns the set of source functions reachable from roots through Edges.
// stop, if non-nil, prunes traversal below functions for which it returns true (the function itself is included).
func (m *Module) Reachable(roots []*ssa.Function, stop func(*ssa.Function) bool) map[*ssa.Function]bool {
	seen := map[*ssa.Function]bool{}
	var work []*ssa.Function
	for _, r := range roots {
		if r != nil && !seen[r] {
			seen[r] = true
			work = append(work, r)
		}
	}
	for len(work) > 0 {
		f := work[len(work)-1]
		work = work[:len(work)-1]
		if stop != nil && stop(f) {
			continue
		}
		for _, e := range m.Edges(f) {
			if !seen[e.To] {
				seen[e.To] = true
				work = append(work, e.To)
			}
		}
	}
	return seen
}

// SortedFuncs returns the functions of a set sorted by key.
func (m *Module) SortedFuncs(set map[*ssa.Function]bool) []*ssa.Function {
	var out []*ssa.Function
	for f := range set {
		out = append(out, f)
	}
	sort.Slice(out, func(i, j int) bool { return m.Key(out[i]) < m.Key(out[j]) })
	return out
}
