package core

import (
	"fmt"
	"go/constant"
	"go/types"
	"strings"

	"golang.org/x/tools/go/ssa"
)

// Access paths give two SSA values the same name when they denote the same memory-derived quantity
// (go/ssa performs no CSE, so `i.MinValue` loaded twice is two distinct values). A path is rooted at a
// parameter, free variable, global or an SSA register and extended by field selections, dereferences,
// constant indexes and trivial getters.

// ValPath names the value v.
func (m *Module) ValPath(v ssa.Value) string {
	return m.valPath(v, 0)
}

func (m *Module) valPath(v ssa.Value, depth int) string {
	if depth > 12 {
		return "%" + v.Name()
	}
	switch x := v.(type) {
	case *ssa.Parameter:
		return x.Name()
	case *ssa.FreeVar:
		// a free variable is the address of the captured variable; "^name" names the variable's value
		if _, isPtr := x.Type().Underlying().(*types.Pointer); isPtr {
			return "&^" + x.Name()
		}
		return "^" + x.Name()
	case *ssa.Global:
		return "&global:" + x.Name()
	case *ssa.Const:
		if x.Value == nil {
			return "nil"
		}
		return "const:" + x.Value.ExactString()
	case *ssa.Alloc:
		if sv := singleStore(x); sv != nil {
			return m.valPath(sv, depth+1)
		}
		return "&local:" + x.Name()
	case *ssa.UnOp:
		if x.Op.String() == "*" {
			return m.addrPath(x.X, depth+1)
		}
	case *ssa.Field:
		return m.valPath(x.X, depth+1) + "." + fieldName(x.X.Type(), x.Field)
	case *ssa.FieldAddr:
		return "&" + m.addrPath(x, depth+1)
	case *ssa.ChangeType:
		return m.valPath(x.X, depth+1)
	case *ssa.Call:
		if f, ok := m.trivialGetter(x); ok {
			return m.valPath(x.Call.Args[0], depth+1) + "." + f
		}
	}
	return "%" + v.Name()
}

// AddrPath names the location the address value a points to.
func (m *Module) AddrPath(a ssa.Value) string { return m.addrPath(a, 0) }

func (m *Module) addrPath(a ssa.Value, depth int) string {
	if depth > 12 {
		return "*%" + a.Name()
	}
	switch x := a.(type) {
	case *ssa.FieldAddr:
		return m.valPath(x.X, depth+1) + "." + fieldName(x.X.Type(), x.Field)
	case *ssa.Alloc:
		if sv := singleStore(x); sv != nil {
			return m.valPath(sv, depth+1)
		}
		return "local:" + x.Name()
	case *ssa.Global:
		return "global:" + x.Name()
	case *ssa.FreeVar:
		return "^" + x.Name()
	case *ssa.IndexAddr:
		idx := "?" + x.Index.Name()
		if c, ok := x.Index.(*ssa.Const); ok && c.Value != nil && c.Value.Kind() == constant.Int {
			idx = c.Value.ExactString()
		}
		return m.valPath(x.X, depth+1) + "[" + idx + "]"
	}
	return "*" + m.valPath(a, depth+1)
}

func fieldName(t types.Type, idx int) string {
	if p, ok := t.Underlying().(*types.Pointer); ok {
		t = p.Elem()
	}
	if st, ok := t.Underlying().(*types.Struct); ok && idx < st.NumFields() {
		return st.Field(idx).Name()
	}
	return fmt.Sprintf("f%d", idx)
}

// singleStore: if the only writes to alloc a are one Store instruction (the spill of a value receiver or
// parameter whose address is taken) and a is only otherwise used as the base of loads / field addresses /
// method receivers, return the stored value.
func singleStore(a *ssa.Alloc) ssa.Value {
	var stored ssa.Value
	n := 0
	refs := a.Referrers()
	if refs == nil {
		return nil
	}
	for _, r := range *refs {
		if st, ok := r.(*ssa.Store); ok && st.Addr == a {
			n++
			stored = st.Val
		}
	}
	if n != 1 {
		return nil
	}
	// only parameters / free vars / other immutable values are worth unifying
	switch stored.(type) {
	case *ssa.Parameter, *ssa.FreeVar:
		return stored
	}
	return nil
}

// trivialGetter recognises static calls of repo methods whose body is `return recv.field`.
func (m *Module) trivialGetter(c *ssa.Call) (string, bool) {
	if c.Call.IsInvoke() || len(c.Call.Args) == 0 {
		return "", false
	}
	cs := m.Callees(&c.Call)
	if len(cs) != 1 {
		return "", false
	}
	return m.GetterField(cs[0])
}

// GetterField: if fn is `func (r T) X() U { return r.f }` returns "f".
func (m *Module) GetterField(fn *ssa.Function) (string, bool) {
	if fn.Signature.Recv() == nil || len(fn.Params) != 1 || fn.Signature.Results().Len() != 1 {
		return "", false
	}
	var ret *ssa.Return
	for _, b := range fn.Blocks {
		for _, in := range b.Instrs {
			switch x := in.(type) {
			case *ssa.Return:
				if ret != nil {
					return "", false
				}
				ret = x
			case *ssa.Call, *ssa.Go, *ssa.Defer, *ssa.MapUpdate, *ssa.Send, *ssa.Panic:
				return "", false
			case *ssa.Store:
				if al, ok := x.Addr.(*ssa.Alloc); !ok || singleStore(al) == nil {
					return "", false
				}
			}
		}
	}
	if ret == nil || len(ret.Results) != 1 {
		return "", false
	}
	p := m.valPath(ret.Results[0], 0)
	recv := fn.Params[0].Name()
	if strings.HasPrefix(p, recv+".") {
		rest := p[len(recv)+1:]
		if !strings.ContainsAny(rest, ".[*%&") {
			return rest, true
		}
	}
	return "", false
}

// StoredPaths returns the location paths written by Store / MapUpdate instructions in fn (excluding spills).
func (m *Module) StoredPaths(fn *ssa.Function) map[string]bool {
	out := map[string]bool{}
	for _, b := range fn.Blocks {
		for _, in := range b.Instrs {
			if st, ok := in.(*ssa.Store); ok {
				if al, ok := st.Addr.(*ssa.Alloc); ok && singleStore(al) != nil {
					continue
				}
				out[m.AddrPath(st.Addr)] = true
			}
		}
	}
	return out
}

// PathStable reports whether no store in fn writes path p or a prefix of it.
func PathStable(p string, stored map[string]bool) bool {
	for q := range stored {
		if q == p || strings.HasPrefix(p, q+".") || strings.HasPrefix(p, q+"[") || strings.HasPrefix(p, "*"+q) {
			return false
		}
	}
	return true
}
