// Package core loads /repo's current working tree (type-checked syntax + SSA) and
// provides the shared program model used by all rules.
package core

import (
	"fmt"
	"go/token"
	"go/types"
	"os"
	"sort"
	"strings"

	"golang.org/x/tools/go/packages"
	"golang.org/x/tools/go/ssa"
	"golang.org/x/tools/go/ssa/ssautil"
)

// Module is one loaded Go module (the SDK itself, or the code generator).
type Module struct {
	Dir   string
	Fset  *token.FileSet
	Pkgs  []*packages.Package
	Prog  *ssa.Program
	SSA   map[string]*ssa.Package // by package name ("schema", "atp", "plugin", "main")
	Types map[string]*types.Package

	Funcs     []*ssa.Function          // every source function incl. closures, sorted by key
	FuncByKey map[string]*ssa.Function // key -> function
	keyOf     map[*ssa.Function]string

	cha   *chaIndex
	sites *siteIndex
}

// Load type-checks and builds SSA for all packages under dir. Any load or type error is fatal for the caller.
func Load(dir string, overlay map[string][]byte) (*Module, error) {
	env := []string{}
	for _, e := range os.Environ() {
		if strings.HasPrefix(e, "GOFLAGS=") || strings.HasPrefix(e, "GOWORK=") || strings.HasPrefix(e, "GOPROXY=") ||
			strings.HasPrefix(e, "GOSUMDB=") || strings.HasPrefix(e, "GOTOOLCHAIN=") || strings.HasPrefix(e, "GOOS=") ||
			strings.HasPrefix(e, "GOARCH=") {
			continue
		}
		env = append(env, e)
	}
	env = append(env, "GOFLAGS=-mod=mod", "GOWORK=off", "GOPROXY=off", "GOSUMDB=off", "GOTOOLCHAIN=local")
	if v := os.Getenv("VERIF_GOOS"); v != "" {
		env = append(env, "GOOS="+v)
	}
	if v := os.Getenv("VERIF_GOARCH"); v != "" {
		env = append(env, "GOARCH="+v)
	}
	fset := token.NewFileSet()
	cfg := &packages.Config{
		Mode:    loadMode(),
		Dir:     dir,
		Env:     env,
		Fset:    fset,
		Tests:   false,
		Overlay: overlay,
	}
	pkgs, err := packages.Load(cfg, "./...")
	if err != nil {
		return nil, fmt.Errorf("load %s: %w", dir, err)
	}
	if len(pkgs) == 0 {
		return nil, fmt.Errorf("load %s: no packages", dir)
	}
	var errs []string
	packages.Visit(pkgs, nil, func(p *packages.Package) {
		for _, e := range p.Errors {
			errs = append(errs, e.Error())
		}
	})
	if len(errs) > 0 {
		return nil, fmt.Errorf("load %s: %d type/load errors, first: %s", dir, len(errs), errs[0])
	}
	var prog *ssa.Program
	var ssaPkgs []*ssa.Package
	if os.Getenv("VERIF_LOAD") == "allsyntax" {
		prog, ssaPkgs = ssautil.AllPackages(pkgs, ssa.SanityCheckFunctions)
	} else {
		// dependencies come from export data (types only, no bodies): the rules never look inside dependencies
		prog, ssaPkgs = ssautil.Packages(pkgs, ssa.SanityCheckFunctions)
	}
	prog.Build()
	m := &Module{Dir: dir, Fset: fset, Pkgs: pkgs, Prog: prog, SSA: map[string]*ssa.Package{}, Types: map[string]*types.Package{},
		FuncByKey: map[string]*ssa.Function{}, keyOf: map[*ssa.Function]string{}}
	for i, p := range pkgs {
		if ssaPkgs[i] == nil {
			return nil, fmt.Errorf("no SSA for package %s", p.PkgPath)
		}
		m.SSA[p.Name] = ssaPkgs[i]
		m.Types[p.Name] = p.Types
	}
	m.enumerate()
	m.cha = buildCHA(m)
	loaded = append(loaded, m)
	return m, nil
}

func loadMode() packages.LoadMode {
	if os.Getenv("VERIF_LOAD") == "allsyntax" {
		return packages.LoadAllSyntax
	}
	return packages.LoadSyntax
}

// IsRepoPkg reports whether pkg is one of the packages of this module (not a dependency).
func (m *Module) IsRepoPkg(pkg *types.Package) bool {
	if pkg == nil {
		return false
	}
	for _, p := range m.Pkgs {
		if p.Types == pkg {
			return true
		}
	}
	return false
}

func (m *Module) enumerate() {
	seen := map[*ssa.Function]bool{}
	var add func(fn *ssa.Function, key string)
	add = func(fn *ssa.Function, key string) {
		if fn == nil || seen[fn] || fn.Blocks == nil {
			return
		}
		seen[fn] = true
		m.keyOf[fn] = key
		m.FuncByKey[key] = fn
		m.Funcs = append(m.Funcs, fn)
		for i, a := range fn.AnonFuncs {
			add(a, fmt.Sprintf("%s$%d", key, i+1))
		}
	}
	for _, p := range m.Pkgs {
		sp := m.SSA[p.Name]
		scope := p.Types.Scope()
		for _, name := range scope.Names() {
			obj := scope.Lookup(name)
			switch o := obj.(type) {
			case *types.Func:
				add(m.Prog.FuncValue(o), p.Name+"."+o.Name())
			case *types.TypeName:
				named, ok := o.Type().(*types.Named)
				if !ok {
					continue
				}
				for i := 0; i < named.NumMethods(); i++ {
					meth := named.Method(i)
					add(m.Prog.FuncValue(meth), p.Name+"."+o.Name()+"."+meth.Name())
				}
			}
		}
		if init := sp.Func("init"); init != nil {
			add(init, p.Name+".init")
		}
	}
	sort.Slice(m.Funcs, func(i, j int) bool { return m.keyOf[m.Funcs[i]] < m.keyOf[m.Funcs[j]] })
}

// Key returns the stable, position-free key of a source function ("schema.IntSchema.Serialize", "atp.client.Execute$1").
func (m *Module) Key(fn *ssa.Function) string {
	if k, ok := m.keyOf[fn]; ok {
		return k
	}
	if s := m.Source(fn); s != nil && s != fn {
		return m.Key(s)
	}
	return fn.String()
}

// Source maps synthetic wrappers and instantiations to the source-level function they stand for.
func (m *Module) Source(fn *ssa.Function) *ssa.Function {
	for i := 0; i < 4 && fn != nil; i++ {
		if _, ok := m.keyOf[fn]; ok {
			return fn
		}
		if o := fn.Origin(); o != nil {
			fn = o
			continue
		}
		if fn.Synthetic != "" {
			if obj, ok := fn.Object().(*types.Func); ok && obj != nil {
				nf := m.Prog.FuncValue(obj.Origin())
				if nf != nil && nf != fn {
					fn = nf
					continue
				}
			}
		}
		break
	}
	return fn
}

// Pos renders a position relative to the module dir.
func (m *Module) Pos(p token.Pos) string {
	if !p.IsValid() {
		return "-"
	}
	pos := m.Fset.Position(p)
	f := strings.TrimPrefix(pos.Filename, m.Dir+"/")
	return fmt.Sprintf("%s:%d", f, pos.Line)
}

// InstrPos finds the best position for an instruction (falling back to operands / the function).
func (m *Module) InstrPos(in ssa.Instruction) string {
	if in.Pos().IsValid() {
		return m.Pos(in.Pos())
	}
	if v, ok := in.(ssa.Value); ok {
		_ = v
	}
	var ops []*ssa.Value
	for _, op := range in.Operands(ops) {
		if op != nil && *op != nil && (*op).Pos().IsValid() {
			return m.Pos((*op).Pos())
		}
	}
	if in.Parent() != nil {
		return m.Pos(in.Parent().Pos())
	}
	return "-"
}
