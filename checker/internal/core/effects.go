package core

import (
	"fmt"
	"go/token"
	"go/types"
	"sort"
	"strings"

	"golang.org/x/tools/go/ssa"
)

// Effects computes, bottom-up over the call graph, which caller-visible memory a function may write.
//
// Origin model. The origin of an SSA value v is a set of (root, level) pairs, root being a parameter, a free
// variable, a global or "fresh" (memory allocated in this activation):
//   level 1: v points to the object the root itself points to (for a by-value struct parameter: the objects its
//            pointer fields point to);
//   level 2: v points to an object reachable from the root through at least one further pointer.
// Loading a pointer-like value (or copying a struct that contains pointers) out of an object moves one level
// deeper. A fresh container (local, make, new, append result, result of a callee that returns fresh memory)
// records the origins of the values stored into it (one level of points-to): loading from it yields those.
//
// Mod(f)  : for each root, the write sites through which f may write an object at level 1 / level 2 of it.
// Ret(f,j): origin of result j in terms of f's roots, plus the contents of returned fresh containers.

type Root struct {
	Kind string // "param", "free", "global", "fresh"
	Idx  int
	Name string
}

func (r Root) String() string {
	switch r.Kind {
	case "param":
		return fmt.Sprintf("param#%d", r.Idx)
	case "free":
		return fmt.Sprintf("free#%d", r.Idx)
	case "global":
		return "global " + r.Name
	}
	return r.Kind
}

// Origin maps a root to a bitmask of levels (bit 1 = level 1, bit 2 = level 2). For the fresh root the mask is 1.
type Origin map[Root]uint8

const (
	L1 uint8 = 1
	L2 uint8 = 2
)

func (o Origin) add(r Root, lv uint8) bool {
	if r.Kind == "fresh" {
		lv = L1
	}
	if o[r]&lv == lv {
		return false
	}
	o[r] |= lv
	return true
}

func (o Origin) union(p Origin) bool {
	ch := false
	for r, lv := range p {
		if o.add(r, lv) {
			ch = true
		}
	}
	return ch
}

// deeper: every level moves one hop further (2 stays 2).
func (o Origin) deeper() Origin {
	out := Origin{}
	for r, lv := range o {
		if r.Kind == "fresh" {
			out[r] = L1
			continue
		}
		if lv != 0 {
			out[r] = L2
		}
	}
	return out
}

func (o Origin) clone() Origin {
	c := Origin{}
	for k, v := range o {
		c[k] = v
	}
	return c
}

func (o Origin) nonFresh() bool {
	for r := range o {
		if r.Kind != "fresh" {
			return true
		}
	}
	return false
}

var freshRoot = Root{Kind: "fresh"}

func freshOrigin() Origin { return Origin{freshRoot: L1} }

// WriteSite is one instruction that writes memory.
type WriteSite struct {
	Fn   *ssa.Function
	In   ssa.Instruction
	What string
}

type modEntry struct {
	root  Root
	level uint8
}

type fnSummary struct {
	Mod           map[modEntry]map[*WriteSite]bool
	Ret           []Origin
	RetContents   []Origin // contents of fresh containers returned as result j
	RetOK         []Origin // the same, restricted to returns whose error result is not provably non-nil
	RetOKContents []Origin
}

type Effects struct {
	m        *Module
	sum      map[*ssa.Function]*fnSummary
	sites    map[ssa.Instruction]*WriteSite
	AllSites []*WriteSite
	Unknown  map[string]bool
	Guarded  func(ws *WriteSite) bool
}

func NewEffects(m *Module) *Effects {
	return &Effects{m: m, sum: map[*ssa.Function]*fnSummary{}, sites: map[ssa.Instruction]*WriteSite{}, Unknown: map[string]bool{}}
}

func pointerLike(t types.Type) bool {
	switch t.Underlying().(type) {
	case *types.Pointer, *types.Map, *types.Slice, *types.Chan, *types.Interface, *types.Signature:
		return true
	}
	if _, ok := t.(*types.TypeParam); ok {
		return true
	}
	return false
}

func hasPointers(t types.Type) bool {
	if pointerLike(t) {
		return true
	}
	switch u := t.Underlying().(type) {
	case *types.Struct:
		for i := 0; i < u.NumFields(); i++ {
			if hasPointers(u.Field(i).Type()) {
				return true
			}
		}
	case *types.Array:
		return hasPointers(u.Elem())
	case *types.Tuple:
		for i := 0; i < u.Len(); i++ {
			if hasPointers(u.At(i).Type()) {
				return true
			}
		}
	}
	return false
}

type libSpec struct {
	result  string // "fresh" | "arg0" (same object as arg 0) | "arg0deep" (something inside arg 0) | "args"
	mutates []int  // indexes of args whose referent is written
}

func libLookup(name string) (libSpec, bool) {
	switch name {
	case "sort.Strings", "sort.Ints", "sort.Float64s", "sort.Slice", "sort.SliceStable", "sort.Sort", "sort.Stable", "slices.Sort", "slices.SortFunc", "slices.Reverse":
		return libSpec{"fresh", []int{0}}, true
	case "maps.Copy":
		return libSpec{"fresh", []int{0}}, true
	case "maps.Clone", "slices.Clone":
		return libSpec{"clone", nil}, true
	case "maps.Keys":
		// an iterator over the keys: reads the map when it is run, writes nothing; keys are copied out
		return libSpec{"fresh", nil}, true
	case "maps.Values", "slices.Values", "slices.All", "maps.All":
		// an iterator that hands out what the argument holds: it stands for the argument
		return libSpec{"arg0", nil}, true
	case "slices.Sorted", "slices.Collect":
		// a new slice filled with what the iterator hands out
		return libSpec{"arg0deep", nil}, true
	case "slices.Contains", "slices.Index", "slices.Equal", "slices.Compare", "slices.IsSorted", "slices.BinarySearch", "slices.Max", "slices.Min":
		// read their arguments, hand out a scalar (Max / Min: an element - of a comparable, pointer-free ordered type)
		return libSpec{"fresh", nil}, true
	case "reflect.ValueOf", "reflect.Indirect":
		return libSpec{"arg0", nil}, true
	case "reflect.New", "reflect.MakeSlice", "reflect.MakeMapWithSize", "reflect.MakeMap", "reflect.Zero", "reflect.TypeOf", "reflect.SliceOf", "reflect.MapOf", "reflect.PointerTo", "reflect.DeepEqual":
		return libSpec{"fresh", nil}, true
	case "(reflect.Value).Set", "(reflect.Value).SetMapIndex", "(reflect.Value).SetInt", "(reflect.Value).SetString":
		return libSpec{"fresh", []int{0}}, true
	case "(reflect.Value).Elem", "(reflect.Value).Field", "(reflect.Value).FieldByName", "(reflect.Value).FieldByIndex", "(reflect.Value).FieldByIndexErr", "(reflect.Value).Addr",
		"(reflect.Value).Convert", "(reflect.Value).Slice":
		return libSpec{"arg0", nil}, true
	case "(reflect.Value).Index", "(reflect.Value).MapIndex", "(reflect.Value).Interface", "(reflect.Value).MapKeys", "(reflect.Value).MethodByName":
		return libSpec{"arg0deep", nil}, true
	case "(reflect.Value).MapRange":
		// the iterator stands for the map it walks (so that what Key / Value hand out is attributed to the map's contents);
		// the iterator's own cursor is call-local state and is not modelled
		return libSpec{"arg0", nil}, true
	case "(*reflect.MapIter).Key", "(*reflect.MapIter).Value":
		return libSpec{"arg0deep", nil}, true
	case "(*reflect.MapIter).Next", "(*reflect.MapIter).Reset":
		return libSpec{"fresh", nil}, true
	case "(reflect.Value).Call":
		return libSpec{"args", nil}, true
	case "encoding/json.Unmarshal":
		return libSpec{"fresh", []int{1}}, true
	}
	if strings.HasSuffix(name, ".init") {
		return libSpec{"fresh", nil}, true
	}
	for _, p := range []string{"fmt.", "strings.", "strconv.", "errors.", "math.", "regexp.", "(*regexp.Regexp).", "unicode", "(reflect.Value).", "(reflect.Type).",
		"(reflect.StructTag).", "(reflect.Kind).", "(*reflect.rtype).", "reflect.", "time.", "(time.", "os.", "(*os.", "bytes.", "(*bytes.", "bufio.", "(*bufio.", "go/format.", "io.", "io/ioutil.",
		"(*sync.Mutex).", "(*sync.WaitGroup).", "(*sync.Cond).", "(*sync.RWMutex).", "context.", "golang.org/x/text", "(golang.org/x/text", "gopkg.in/yaml.v3.",
		"github.com/fxamacker/cbor/v2.", "(*github.com/fxamacker/cbor/v2.", "(github.com/fxamacker/cbor/v2.", "go.arcalot.io/log/v2.", "(*strings.", "sync.", "math/bits.",
		"(*encoding/json.", "encoding/json.", "(encoding/json.Number).", "(*sync.Once).", "cmp."} {
		if strings.HasPrefix(name, p) {
			return libSpec{"fresh", nil}, true
		}
	}
	return libSpec{}, false
}

// Summaries computes all summaries to a fixpoint.
func (e *Effects) Summaries() {
	for _, fn := range e.m.Funcs {
		n := fn.Signature.Results().Len()
		s := &fnSummary{Mod: map[modEntry]map[*WriteSite]bool{}, Ret: make([]Origin, n), RetContents: make([]Origin, n),
			RetOK: make([]Origin, n), RetOKContents: make([]Origin, n)}
		for i := 0; i < n; i++ {
			s.Ret[i], s.RetContents[i], s.RetOK[i], s.RetOKContents[i] = Origin{}, Origin{}, Origin{}, Origin{}
		}
		e.sum[fn] = s
	}
	for iter := 0; iter < 40; iter++ {
		changed := false
		for _, fn := range e.m.Funcs {
			if e.analyse(fn) {
				changed = true
			}
		}
		if !changed {
			break
		}
	}
}

func (e *Effects) site(fn *ssa.Function, in ssa.Instruction, what string) *WriteSite {
	if s, ok := e.sites[in]; ok {
		return s
	}
	s := &WriteSite{fn, in, what}
	e.sites[in] = s
	e.AllSites = append(e.AllSites, s)
	return s
}

type fnState struct {
	fn       *ssa.Function
	orig     map[ssa.Value]Origin
	contents map[ssa.Value]Origin
}

func (st *fnState) cont(c ssa.Value) Origin {
	if st.contents[c] == nil {
		st.contents[c] = Origin{}
	}
	return st.contents[c]
}

func (e *Effects) args(cc *ssa.CallCommon) []ssa.Value {
	if cc.IsInvoke() {
		return append([]ssa.Value{cc.Value}, cc.Args...)
	}
	return cc.Args
}

// mapToCaller translates a callee-relative (root, level) into the caller's origin.
func (e *Effects) mapToCaller(st *fnState, cc *ssa.CallCommon, r Root, lv uint8) Origin {
	out := Origin{}
	var arg ssa.Value
	switch r.Kind {
	case "global":
		out.add(r, lv)
		return out
	case "fresh":
		out.add(freshRoot, L1)
		return out
	case "param":
		a := e.args(cc)
		if r.Idx < len(a) {
			arg = a[r.Idx]
		}
	case "free":
		if mc, ok := cc.Value.(*ssa.MakeClosure); ok && r.Idx < len(mc.Bindings) {
			arg = mc.Bindings[r.Idx]
		}
	}
	if arg == nil {
		return out
	}
	ao := e.originOf(st, arg)
	for level := uint8(1); level <= 2; level++ {
		if lv&level == 0 {
			continue
		}
		if level == L1 {
			out.union(ao)
		} else {
			out.union(ao.deeper())
			for _, c := range e.containersOf(st, arg) {
				if cs := st.contents[c]; cs != nil {
					out.union(cs)
				}
			}
		}
	}
	return out
}

func (e *Effects) analyse(fn *ssa.Function) bool {
	st := &fnState{fn: fn, orig: map[ssa.Value]Origin{}, contents: map[ssa.Value]Origin{}}
	sum := e.sum[fn]
	grew := false
	addMod := func(o Origin, ws *WriteSite) {
		if e.Guarded != nil && e.Guarded(ws) {
			return
		}
		for r, lv := range o {
			if r.Kind == "fresh" {
				continue
			}
			for level := uint8(1); level <= 2; level++ {
				if lv&level == 0 {
					continue
				}
				k := modEntry{r, level}
				if sum.Mod[k] == nil {
					sum.Mod[k] = map[*WriteSite]bool{}
				}
				if !sum.Mod[k][ws] {
					sum.Mod[k][ws] = true
					grew = true
				}
			}
		}
	}
	// contents of fresh containers (iterate: loads feed stores)
	for pass := 0; pass < 10; pass++ {
		ch := false
		store := func(container ssa.Value, val Origin) {
			for _, c := range e.containersOf(st, container) {
				if st.cont(c).union(val) {
					ch = true
				}
			}
		}
		for _, b := range fn.Blocks {
			for _, in := range b.Instrs {
				switch x := in.(type) {
				case *ssa.Store:
					if hasPointers(x.Val.Type()) {
						store(x.Addr, e.originOf(st, x.Val))
					}
				case *ssa.MapUpdate:
					if hasPointers(x.Value.Type()) {
						store(x.Map, e.originOf(st, x.Value))
					}
					if hasPointers(x.Key.Type()) {
						store(x.Map, e.originOf(st, x.Key))
					}
				case *ssa.Call:
					cc := &x.Call
					if bi, ok := cc.Value.(*ssa.Builtin); ok {
						if bi.Name() == "append" && len(cc.Args) == 2 {
							// result container: contents of dst plus contents of the appended slice
							for _, c := range e.containersOf(st, cc.Args[0]) {
								if st.cont(x).union(st.cont(c)) {
									ch = true
								}
							}
							for _, c := range e.containersOf(st, cc.Args[1]) {
								if st.cont(x).union(st.cont(c)) {
									ch = true
								}
							}
							// appending elements of a non-fresh slice: they are level-deeper objects of its roots
							if ao := e.originOf(st, cc.Args[1]); ao.nonFresh() && hasPointers(elemType(cc.Args[1].Type())) {
								if st.cont(x).union(ao.deeper()) {
									ch = true
								}
							}
							if ao := e.originOf(st, cc.Args[0]); ao.nonFresh() && hasPointers(elemType(cc.Args[0].Type())) {
								if st.cont(x).union(ao.deeper()) {
									ch = true
								}
							}
						}
						continue
					}
					callees := e.m.Callees(cc)
					if len(callees) == 0 {
						if !cc.IsInvoke() {
							switch StaticCalleeName(cc) {
							case "errors.As":
								if len(cc.Args) == 2 {
									store(cc.Args[1], e.originOf(st, cc.Args[0]))
								}
							case "maps.Clone", "slices.Clone":
								// fresh copy holding the same element values
								ao := e.originOf(st, cc.Args[0])
								if hasPointers(elemType(cc.Args[0].Type())) {
									if st.cont(x).union(ao.deeper()) {
										ch = true
									}
									for _, c := range e.containersOf(st, cc.Args[0]) {
										if st.cont(x).union(st.cont(c)) {
											ch = true
										}
									}
								}
							case "maps.Copy":
								ao := e.originOf(st, cc.Args[1])
								if hasPointers(elemType(cc.Args[1].Type())) {
									store(cc.Args[0], ao.deeper())
									for _, c := range e.containersOf(st, cc.Args[1]) {
										store(cc.Args[0], st.cont(c))
									}
								}
							}
						}
						continue
					}
					// fresh containers returned by callees carry mapped contents
					for _, callee := range callees {
						cs := e.sum[callee]
						if cs == nil {
							continue
						}
						for j := range cs.RetContents {
							rc := cs.RetContents[j]
							if e.usedOnlyWhenErrNil(x, j) {
								rc = cs.RetOKContents[j]
							}
							for r, lv := range rc {
								if st.cont(x).union(e.mapToCaller(st, cc, r, lv)) {
									ch = true
								}
							}
						}
					}
				}
			}
		}
		if !ch {
			break
		}
		st.orig = map[ssa.Value]Origin{}
	}
	// writes
	for _, b := range fn.Blocks {
		for _, in := range b.Instrs {
			switch x := in.(type) {
			case *ssa.Store:
				addMod(e.originOf(st, x.Addr), e.site(fn, in, "store through "+e.m.AddrPath(x.Addr)))
			case *ssa.MapUpdate:
				addMod(e.originOf(st, x.Map), e.site(fn, in, "map update of "+e.m.ValPath(x.Map)))
			case ssa.CallInstruction:
				cc := x.Common()
				if bi, ok := cc.Value.(*ssa.Builtin); ok {
					switch bi.Name() {
					case "delete":
						addMod(e.originOf(st, cc.Args[0]), e.site(fn, in, "delete from "+e.m.ValPath(cc.Args[0])))
					case "copy":
						addMod(e.originOf(st, cc.Args[0]), e.site(fn, in, "copy into "+e.m.ValPath(cc.Args[0])))
					case "append":
						if clippedSlice(cc.Args[0]) {
							// append(s[:len(s):len(s)], x): the capacity is the length, so the elements go into a fresh array
							continue
						}
						addMod(e.originOf(st, cc.Args[0]), e.site(fn, in, "append to "+e.m.ValPath(cc.Args[0])+" (may write into its backing array)"))
					}
					continue
				}
				callees := e.m.Callees(cc)
				if len(callees) == 0 {
					if cc.IsInvoke() {
						continue
					}
					name := StaticCalleeName(cc)
					if name == "" {
						continue
					}
					spec, ok := libLookup(name)
					if !ok {
						e.Unknown[name] = true
						continue
					}
					for _, i := range spec.mutates {
						if i < len(cc.Args) {
							addMod(e.originOf(st, cc.Args[i]), e.site(fn, in, name+" mutates "+e.m.ValPath(cc.Args[i])))
						}
					}
					continue
				}
				for _, callee := range callees {
					cs := e.sum[callee]
					if cs == nil {
						continue
					}
					for k, sites := range cs.Mod {
						o := e.mapToCaller(st, cc, k.root, k.level)
						for ws := range sites {
							addMod(o, ws)
						}
					}
				}
			}
		}
	}
	// returns
	ei := ErrorResultIndex(fn.Signature)
	for _, r := range ReturnsOf(fn) {
		isErr := ei >= 0 && ei < len(r.Results) && e.m.RetNonNil(r, ei)
		for i := range r.Results {
			if i >= len(sum.Ret) {
				continue
			}
			rv := RetVal(r, i)
			if !hasPointers(rv.Type()) {
				continue
			}
			ro := e.originOf(st, rv)
			if sum.Ret[i].union(ro) {
				grew = true
			}
			// tail call `return f(x)`: the error is the callee's error, so the non-error variant carries over
			var tail *ssa.Call
			if ei >= 0 && ei < len(r.Results) && ei != i {
				if e0, ok := rv.(*ssa.Extract); ok {
					if e1, ok := RetVal(r, ei).(*ssa.Extract); ok && e0.Tuple == e1.Tuple {
						if call, ok := e0.Tuple.(*ssa.Call); ok && e1.Index == ErrorResultIndex(call.Call.Signature()) && len(e.m.Callees(&call.Call)) > 0 {
							tail = call
						}
					}
				}
			}
			if tail != nil {
				e0 := rv.(*ssa.Extract)
				for _, callee := range e.m.Callees(&tail.Call) {
					cs := e.sum[callee]
					if cs == nil || e0.Index >= len(cs.RetOK) {
						continue
					}
					for rr, lv := range cs.RetOK[e0.Index] {
						if sum.RetOK[i].union(e.mapToCaller(st, &tail.Call, rr, lv)) {
							grew = true
						}
					}
					for rr, lv := range cs.RetOKContents[e0.Index] {
						if sum.RetOKContents[i].union(e.mapToCaller(st, &tail.Call, rr, lv)) {
							grew = true
						}
					}
				}
			} else if !isErr && sum.RetOK[i].union(ro) {
				grew = true
			}
			for _, c := range e.containersOf(st, rv) {
				if cs := st.contents[c]; cs != nil {
					if sum.RetContents[i].union(cs) {
						grew = true
					}
					if tail == nil && !isErr && sum.RetOKContents[i].union(cs) {
						grew = true
					}
				}
			}
		}
	}
	return grew
}

func elemType(t types.Type) types.Type {
	switch u := t.Underlying().(type) {
	case *types.Slice:
		return u.Elem()
	case *types.Map:
		return types.NewTuple(types.NewVar(0, nil, "", u.Key()), types.NewVar(0, nil, "", u.Elem()))
	case *types.Array:
		return u.Elem()
	case *types.Pointer:
		return u.Elem()
	}
	return t
}

// containersOf: the fresh containers (allocation sites) a value may denote or point into.
func (e *Effects) containersOf(st *fnState, v ssa.Value) []ssa.Value {
	var out []ssa.Value
	seen := map[ssa.Value]bool{}
	var walk func(x ssa.Value, d int)
	walk = func(x ssa.Value, d int) {
		if x == nil || seen[x] || d > 12 {
			return
		}
		seen[x] = true
		switch y := x.(type) {
		case *ssa.Alloc, *ssa.MakeMap, *ssa.MakeSlice:
			out = append(out, x)
		case *ssa.FieldAddr:
			walk(y.X, d+1)
		case *ssa.IndexAddr:
			walk(y.X, d+1)
		case *ssa.Slice:
			walk(y.X, d+1)
		case *ssa.Phi:
			for _, ed := range y.Edges {
				walk(ed, d+1)
			}
		case *ssa.ChangeType:
			walk(y.X, d+1)
		case *ssa.ChangeInterface:
			walk(y.X, d+1)
		case *ssa.MakeInterface:
			walk(y.X, d+1)
		case *ssa.TypeAssert:
			walk(y.X, d+1)
		case *ssa.Extract:
			walk(y.Tuple, d+1)
		case *ssa.Call:
			cc := &y.Call
			if bi, ok := cc.Value.(*ssa.Builtin); ok {
				if bi.Name() == "append" {
					out = append(out, x)
					walk(cc.Args[0], d+1)
				}
				return
			}
			callees := e.m.Callees(cc)
			if len(callees) == 0 {
				if !cc.IsInvoke() {
					switch StaticCalleeName(cc) {
					case "maps.Clone", "slices.Clone":
						out = append(out, x)
					case "reflect.ValueOf", "reflect.Indirect", "(reflect.Value).Elem", "(reflect.Value).Convert", "(reflect.Value).Interface":
						if len(cc.Args) > 0 {
							walk(cc.Args[0], d+1)
						}
					}
				}
				return
			}
			out = append(out, x) // may be a fresh container returned by the callee
			for _, callee := range callees {
				cs := e.sum[callee]
				if cs == nil {
					continue
				}
				for j := range cs.Ret {
					for r, lv := range cs.Ret[j] {
						if r.Kind == "param" && lv&L1 != 0 {
							a := e.args(cc)
							if r.Idx < len(a) {
								walk(a[r.Idx], d+1)
							}
						}
					}
				}
			}
		case *ssa.UnOp:
			if y.Op.String() == "*" {
				// a pointer-like value loaded from a fresh container: the containers stored there
				for _, c := range e.containersOf(st, y.X) {
					if refs := c.Referrers(); refs != nil {
						for _, r := range *refs {
							if s, ok := r.(*ssa.Store); ok && s.Addr == c {
								walk(s.Val, d+1)
							}
						}
					}
				}
			}
		}
	}
	walk(v, 0)
	return out
}

func (e *Effects) originOf(st *fnState, v ssa.Value) Origin {
	if o, ok := st.orig[v]; ok {
		return o
	}
	st.orig[v] = Origin{}
	o := e.computeOrigin(st, v)
	st.orig[v] = o
	return o
}

// loadFrom: the origin of a value of type t loaded out of the object(s) that `container` points to.
func (e *Effects) loadFrom(st *fnState, container ssa.Value, t types.Type) Origin {
	o := Origin{}
	if !hasPointers(t) {
		return freshOrigin()
	}
	co := e.originOf(st, container)
	o.union(co.deeper())
	for _, c := range e.containersOf(st, container) {
		if cs := st.contents[c]; cs != nil {
			o.union(cs)
		}
	}
	if len(o) == 0 {
		o.add(freshRoot, L1)
	}
	return o
}

func (e *Effects) computeOrigin(st *fnState, v ssa.Value) Origin {
	fn := st.fn
	o := Origin{}
	switch x := v.(type) {
	case *ssa.Parameter:
		if !hasPointers(x.Type()) {
			return freshOrigin()
		}
		for i, p := range fn.Params {
			if p == x {
				o.add(Root{Kind: "param", Idx: i}, L1)
			}
		}
	case *ssa.FreeVar:
		// a free variable is the address of (or the value of) a variable of the enclosing function
		for i, p := range fn.FreeVars {
			if p == x {
				o.add(Root{Kind: "free", Idx: i}, L1)
			}
		}
	case *ssa.Global:
		o.add(Root{Kind: "global", Name: x.Name()}, L1)
	case *ssa.Const, *ssa.Function, *ssa.Builtin:
		return freshOrigin()
	case *ssa.Alloc, *ssa.MakeMap, *ssa.MakeSlice, *ssa.MakeChan:
		return freshOrigin()
	case *ssa.MakeClosure:
		o.add(freshRoot, L1)
	case *ssa.FieldAddr:
		o.union(e.originOf(st, x.X))
	case *ssa.IndexAddr:
		o.union(e.originOf(st, x.X))
	case *ssa.Field:
		// x.X is a struct value whose origin already denotes what its pointers point to
		if !hasPointers(x.Type()) {
			return freshOrigin()
		}
		o.union(e.originOf(st, x.X))
	case *ssa.Index:
		if !hasPointers(x.Type()) {
			return freshOrigin()
		}
		o.union(e.originOf(st, x.X))
	case *ssa.Lookup:
		t := x.Type()
		if x.CommaOk {
			t = t.(*types.Tuple).At(0).Type()
		}
		o.union(e.loadFrom(st, x.X, t))
	case *ssa.UnOp:
		switch x.Op.String() {
		case "*":
			o.union(e.loadFrom(st, x.X, x.Type()))
		default:
			return freshOrigin()
		}
	case *ssa.Phi:
		for _, ed := range x.Edges {
			o.union(e.originOf(st, ed))
		}
	case *ssa.Extract:
		switch t := x.Tuple.(type) {
		case *ssa.Call:
			o.union(e.callResult(st, t, x.Index))
		case *ssa.TypeAssert:
			if x.Index == 0 {
				o.union(e.originOf(st, t.X))
			}
		case *ssa.Lookup:
			if x.Index == 0 {
				o.union(e.loadFrom(st, t.X, x.Type()))
			}
		case *ssa.Next:
			if rg, ok := t.Iter.(*ssa.Range); ok && x.Index > 0 {
				o.union(e.loadFrom(st, rg.X, x.Type()))
			}
		}
	case *ssa.Call:
		o.union(e.callResult(st, x, 0))
	case *ssa.TypeAssert:
		o.union(e.originOf(st, x.X))
	case *ssa.ChangeType:
		o.union(e.originOf(st, x.X))
	case *ssa.ChangeInterface:
		o.union(e.originOf(st, x.X))
	case *ssa.MakeInterface:
		o.union(e.originOf(st, x.X))
	case *ssa.Convert:
		if hasPointers(x.Type()) && hasPointers(x.X.Type()) {
			o.union(e.originOf(st, x.X))
		}
	case *ssa.Slice:
		o.union(e.originOf(st, x.X))
	case *ssa.SliceToArrayPointer:
		o.union(e.originOf(st, x.X))
	}
	if len(o) == 0 {
		o.add(freshRoot, L1)
	}
	return o
}

func (e *Effects) callResult(st *fnState, c *ssa.Call, idx int) Origin {
	o := Origin{}
	cc := &c.Call
	if bi, ok := cc.Value.(*ssa.Builtin); ok {
		switch bi.Name() {
		case "append":
			o.union(e.originOf(st, cc.Args[0]))
			o.add(freshRoot, L1)
		default:
			o.add(freshRoot, L1)
		}
		return o
	}
	callees := e.m.Callees(cc)
	if len(callees) == 0 {
		if cc.IsInvoke() {
			return freshOrigin()
		}
		name := StaticCalleeName(cc)
		if name == "" {
			return freshOrigin() // user callback (A4)
		}
		spec, ok := libLookup(name)
		if !ok {
			e.Unknown[name] = true
			return freshOrigin()
		}
		switch spec.result {
		case "arg0":
			if len(cc.Args) > 0 {
				o.union(e.originOf(st, cc.Args[0]))
			}
		case "arg0deep":
			if len(cc.Args) > 0 {
				o.union(e.loadFrom(st, cc.Args[0], types.Typ[types.UnsafePointer]))
			}
		case "args":
			for _, a := range cc.Args {
				o.union(e.originOf(st, a))
				o.union(e.originOf(st, a).deeper())
			}
			o.add(freshRoot, L1)
		default:
			o.add(freshRoot, L1)
		}
		if len(o) == 0 {
			o.add(freshRoot, L1)
		}
		return o
	}
	okOnly := e.usedOnlyWhenErrNil(c, idx)
	for _, callee := range callees {
		cs := e.sum[callee]
		if cs == nil || idx >= len(cs.Ret) {
			o.add(freshRoot, L1)
			continue
		}
		ret := cs.Ret[idx]
		if okOnly {
			ret = cs.RetOK[idx]
		}
		for r, lv := range ret {
			o.union(e.mapToCaller(st, cc, r, lv))
		}
	}
	if len(o) == 0 {
		o.add(freshRoot, L1)
	}
	return o
}

// usedOnlyWhenErrNil: every use of result #idx of call c sits in a block where the call's error result is known nil.
func (e *Effects) usedOnlyWhenErrNil(c *ssa.Call, idx int) bool {
	sig := c.Call.Signature()
	ei := ErrorResultIndex(sig)
	if ei < 0 || ei == idx || sig.Results().Len() < 2 {
		return false
	}
	refs := c.Referrers()
	if refs == nil {
		return false
	}
	for _, r := range *refs {
		ex, ok := r.(*ssa.Extract)
		if !ok || ex.Index != idx {
			continue
		}
		urefs := ex.Referrers()
		if urefs == nil {
			continue
		}
		for _, u := range *urefs {
			if _, isDbg := u.(*ssa.DebugRef); isDbg {
				continue
			}
			if !errNilAt(u.Block(), c, ei) {
				return false
			}
		}
	}
	return true
}

// ModOf returns, per root of fn, the witness write sites (level 1 and 2 merged), sorted by position.
func (e *Effects) ModOf(fn *ssa.Function) map[Root][]*WriteSite {
	out := map[Root][]*WriteSite{}
	s := e.sum[fn]
	if s == nil {
		return out
	}
	seen := map[Root]map[*WriteSite]bool{}
	for k, sites := range s.Mod {
		if seen[k.root] == nil {
			seen[k.root] = map[*WriteSite]bool{}
		}
		for ws := range sites {
			if !seen[k.root][ws] {
				seen[k.root][ws] = true
				out[k.root] = append(out[k.root], ws)
			}
		}
	}
	for r := range out {
		sort.Slice(out[r], func(i, j int) bool { return e.m.InstrPos(out[r][i].In) < e.m.InstrPos(out[r][j].In) })
	}
	return out
}

// clippedSlice: v is s[:n:n] - a slice whose capacity is its length, so that appending to it never writes into the
// array it shares (the idiom `append(path[:len(path):len(path)], x)`).
func clippedSlice(v ssa.Value) bool {
	sl, ok := v.(*ssa.Slice)
	if !ok || sl.High == nil || sl.Max == nil {
		return false
	}
	return samePureValue(sl.High, sl.Max, 0)
}

// samePureValue: the two SSA values are computed the same way from values that cannot change in between (the same
// value, the same field of the same struct value, len of the same value, the same constant).
func samePureValue(a, b ssa.Value, depth int) bool {
	if a == b {
		return true
	}
	if depth > 4 {
		return false
	}
	switch x := a.(type) {
	case *ssa.Field:
		y, ok := b.(*ssa.Field)
		return ok && x.Field == y.Field && samePureValue(x.X, y.X, depth+1)
	case *ssa.Call:
		y, ok := b.(*ssa.Call)
		if !ok {
			return false
		}
		bx, okX := x.Call.Value.(*ssa.Builtin)
		by, okY := y.Call.Value.(*ssa.Builtin)
		return okX && okY && bx.Name() == "len" && by.Name() == "len" && len(x.Call.Args) == 1 && len(y.Call.Args) == 1 &&
			samePureValue(x.Call.Args[0], y.Call.Args[0], depth+1)
	case *ssa.Const:
		y, ok := b.(*ssa.Const)
		return ok && x.Value != nil && y.Value != nil && x.Value.ExactString() == y.Value.ExactString()
	case *ssa.UnOp:
		// two reads of the same field of a local struct that is written once, as a whole (a struct parameter the builder
		// keeps in a cell because its fields are selected)
		y, ok := b.(*ssa.UnOp)
		if !ok || x.Op != token.MUL || y.Op != token.MUL {
			return false
		}
		fx, okX := x.X.(*ssa.FieldAddr)
		fy, okY := y.X.(*ssa.FieldAddr)
		if !okX || !okY || fx.Field != fy.Field || fx.X != fy.X {
			return false
		}
		al, isAlloc := fx.X.(*ssa.Alloc)
		return isAlloc && writtenOnceAsAWhole(al)
	}
	return false
}

// writtenOnceAsAWhole: the local cell receives one store of a whole value and is otherwise only read field by field.
func writtenOnceAsAWhole(al *ssa.Alloc) bool {
	if al.Heap || al.Referrers() == nil {
		return false
	}
	stores := 0
	for _, r := range *al.Referrers() {
		switch x := r.(type) {
		case *ssa.Store:
			if x.Addr != ssa.Value(al) {
				return false
			}
			stores++
		case *ssa.FieldAddr:
			if x.Referrers() == nil {
				continue
			}
			for _, r2 := range *x.Referrers() {
				if ld, isLoad := r2.(*ssa.UnOp); !isLoad || ld.Op != token.MUL {
					if _, isDbg := r2.(*ssa.DebugRef); !isDbg {
						return false
					}
				}
			}
		case *ssa.UnOp, *ssa.DebugRef:
		default:
			return false
		}
	}
	return stores == 1
}
