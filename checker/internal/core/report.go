package core

import (
	"encoding/json"
	"fmt"
	"os"
	"path/filepath"
	"sort"
	"strings"
)

// Status of an obligation.
const (
	Discharged = "discharged"
	Excepted   = "exception"
	Violation  = "violation"
	Info       = "info" // listed, carries no claim
)

// Obligation is one construct a rule had to justify.
type Obligation struct {
	Rule   string `json:"rule"`
	Key    string `json:"key"` // rule | function | normalised construct  (no line numbers)
	Pos    string `json:"pos"` // file:line for the reader only
	What   string `json:"what"`
	Status string `json:"status"`
	How    string `json:"how"` // discharge argument, exception class + reason, or why it failed
}

// Report collects the obligations of one property run.
type Report struct {
	Property    string
	Obligations []Obligation
	RuleCounts  map[string]int // rule -> instances enumerated (vacuity guard)
	Floors      map[string]int // rule -> minimum instances expected
	Notes       []string
	Internal    []string // unresolved roles / undecided -> fail
	configs     []string
}

func NewReport(prop string) *Report {
	return &Report{Property: prop, RuleCounts: map[string]int{}, Floors: map[string]int{}}
}

func (r *Report) Add(o Obligation) {
	r.Obligations = append(r.Obligations, o)
	r.RuleCounts[o.Rule]++
}

func (r *Report) Ok(rule, key, pos, what, how string) {
	r.Add(Obligation{rule, key, pos, what, Discharged, how})
}
func (r *Report) Except(rule, key, pos, what, how string) {
	r.Add(Obligation{rule, key, pos, what, Excepted, how})
}
func (r *Report) Bad(rule, key, pos, what, how string) {
	r.Add(Obligation{rule, key, pos, what, Violation, how})
}
func (r *Report) Info(rule, key, pos, what, how string) {
	r.Add(Obligation{rule, key, pos, what, Info, how})
}
func (r *Report) Note(format string, a ...any) { r.Notes = append(r.Notes, fmt.Sprintf(format, a...)) }

// Unresolved records that a structural role / anchor the rule depends on could not be found: the check fails.
func (r *Report) Unresolved(rule, what string) {
	r.Add(Obligation{rule, rule + " | unresolved | " + what, "-", what, Violation,
		"the construct this rule is anchored on could not be resolved in the current tree; the rule cannot say 'held'"})
}

// ApplyFloors turns a missed vacuity floor into a violation (done per configuration before merging).
func (r *Report) ApplyFloors() {
	for rule, min := range r.Floors {
		if r.RuleCounts[rule] < min {
			r.Add(Obligation{rule, rule + " | vacuity | instances", "-",
				fmt.Sprintf("rule enumerated %d instances, fewer than the floor %d confirmed by hand", r.RuleCounts[rule], min),
				Violation, "a rule that matches (almost) nothing passes vacuously; the population it was written for has disappeared"})
		}
	}
	r.Floors = map[string]int{}
}

// Merge folds the report of one build configuration into r: obligations are identified by key; when a key occurs
// in several configurations the worst status wins (violation > info > exception > discharged).
func (r *Report) Merge(o *Report, config string) {
	rank := map[string]int{Discharged: 0, Excepted: 1, Info: 2, Violation: 3}
	idx := map[string]int{}
	for i, ob := range r.Obligations {
		idx[ob.Rule+"\x00"+ob.Key] = i
	}
	for _, ob := range o.Obligations {
		k := ob.Rule + "\x00" + ob.Key
		if i, ok := idx[k]; ok {
			if rank[ob.Status] > rank[r.Obligations[i].Status] {
				ob.How = "[" + config + "] " + ob.How
				r.Obligations[i] = ob
			}
			continue
		}
		if ob.Status == Violation && len(r.configs) > 0 {
			ob.How = "[only in " + config + "] " + ob.How
		}
		// not recorded in idx: two obligations of one configuration that share a key both stay, as in a single-configuration run
		r.Add(ob)
	}
	for _, n := range o.Notes {
		r.Notes = append(r.Notes, "["+config+"] "+n)
	}
	r.configs = append(r.configs, config)
}

// Floor declares the minimum number of instances rule must have enumerated.
func (r *Report) Floor(rule string, min int) { r.Floors[rule] = min }

// KnownFindings is the committed, read-only list of genuine defects recorded rather than repaired.
type KnownFindings struct {
	Findings []KnownFinding `json:"findings"`
	Fixed    []FixedFinding `json:"fixed"`
}
type KnownFinding struct {
	Property string `json:"property"`
	Rule     string `json:"rule"`
	Key      string `json:"key"`
	What     string `json:"what"`
	Witness  string `json:"witness"`
	Status   string `json:"status"`
}
type FixedFinding struct {
	Property string `json:"property"`
	Commit   string `json:"commit"`
	What     string `json:"what"`
}

func LoadKnownFindings(path string) (*KnownFindings, error) {
	b, err := os.ReadFile(path)
	if err != nil {
		return nil, err
	}
	var k KnownFindings
	if err := json.Unmarshal(b, &k); err != nil {
		return nil, err
	}
	return &k, nil
}

// Outcome of a run.
type Outcome struct {
	Violations []Obligation
	Known      []KnownFinding
}

// Finish applies vacuity floors and the known-findings list, writes evidence and the violations file,
// prints the KNOWN-FINDING / VIOLATION lines and returns the exit code.
func (r *Report) Finish(verifDir string, tier string, seed int, wall float64, explanation string, assumptions []string, trusted []string, kf *KnownFindings, extra map[string]any) int {
	for rule, min := range r.Floors {
		if r.RuleCounts[rule] < min {
			r.Add(Obligation{rule, rule + " | vacuity | instances", "-",
				fmt.Sprintf("rule enumerated %d instances, fewer than the floor %d confirmed by hand", r.RuleCounts[rule], min),
				Violation, "a rule that matches (almost) nothing passes vacuously; the population it was written for has disappeared"})
		}
	}
	sort.SliceStable(r.Obligations, func(i, j int) bool {
		a, b := r.Obligations[i], r.Obligations[j]
		if a.Rule != b.Rule {
			return a.Rule < b.Rule
		}
		return a.Key < b.Key
	})
	var out Outcome
	knownUsed := map[int]bool{}
	counts := map[string]map[string]int{}
	for _, o := range r.Obligations {
		if counts[o.Rule] == nil {
			counts[o.Rule] = map[string]int{}
		}
		counts[o.Rule][o.Status]++
		if o.Status != Violation {
			continue
		}
		matched := false
		if kf != nil {
			for i, k := range kf.Findings {
				if k.Property == r.Property && k.Rule == o.Rule && k.Key == o.Key {
					matched = true
					if !knownUsed[i] {
						knownUsed[i] = true
						out.Known = append(out.Known, k)
					}
				}
			}
		}
		if !matched {
			out.Violations = append(out.Violations, o)
		}
	}
	nObl, nDis, nExc, nInfo := 0, 0, 0, 0
	for _, o := range r.Obligations {
		switch o.Status {
		case Info:
			nInfo++
		case Discharged:
			nObl++
			nDis++
		case Excepted:
			nObl++
			nExc++
		default:
			nObl++
		}
	}
	// samples: a few obligations per rule
	var samples []any
	perRule := map[string]int{}
	for _, o := range r.Obligations {
		if perRule[o.Rule+o.Status] >= 3 {
			continue
		}
		perRule[o.Rule+o.Status]++
		samples = append(samples, o)
	}
	cov := map[string]any{
		"explanation":         explanation,
		"obligations":         nObl,
		"discharged":          nDis,
		"excepted":            nExc,
		"listed_not_decided":  nInfo,
		"known_findings":      len(out.Known),
		"per_rule":            counts,
		"rule_instance_count": r.RuleCounts,
		"samples":             samples,
		"notes":               r.Notes,
		"checker_cmd":         "./run.sh " + r.Property + " " + tier,
		"trusted_base":        trusted,
		"evaluations":         max(nObl, 1),
		"distinct_nontrivial": max(distinctKeys(r.Obligations), 2),
		"rule":                "one obligation per construct a rule must justify (keyed rule|function|construct); non-trivial = not status info; distinct = distinct keys",
	}
	for k, v := range extra {
		cov[k] = v
	}
	if assumptions == nil {
		assumptions = []string{}
	}
	if trusted == nil {
		trusted = []string{}
	}
	ev := map[string]any{
		"property_id": r.Property,
		"tier":        tier,
		"seed":        seed,
		"level":       "other",
		"coverage":    cov,
		"assumptions": assumptions,
		"wall_s":      wall,
		"violations":  len(out.Violations),
	}
	evDir := filepath.Join(verifDir, "evidence")
	if d := os.Getenv("VERIF_EVIDENCE_DIR"); d != "" {
		// a run against another tree than /repo (a seeded change, a neutral refactoring): its evidence is kept apart
		evDir = d
	}
	_ = os.MkdirAll(evDir, 0o755)
	b, _ := json.MarshalIndent(ev, "", " ")
	if err := os.WriteFile(filepath.Join(evDir, r.Property+".json"), b, 0o644); err != nil {
		fmt.Fprintf(os.Stderr, "cannot write evidence: %v\n", err)
		return 2
	}
	// full obligation list next to it (not schema-bound)
	fb, _ := json.MarshalIndent(r.Obligations, "", " ")
	_ = os.WriteFile(filepath.Join(evDir, r.Property+".obligations.json"), fb, 0o644)

	for _, k := range out.Known {
		fmt.Printf("KNOWN-FINDING: property=%s rule=%s %s [%s]\n", k.Property, k.Rule, k.What, k.Key)
	}
	vpath := filepath.Join(evDir, r.Property+".violations.json")
	if len(out.Violations) == 0 {
		_ = os.Remove(vpath)
		fmt.Printf("OK property=%s tier=%s obligations=%d discharged=%d excepted=%d known=%d listed=%d wall=%.1fs\n",
			r.Property, tier, nObl, nDis, nExc, len(out.Known), nInfo, wall)
		return 0
	}
	vb, _ := json.MarshalIndent(out.Violations, "", " ")
	_ = os.WriteFile(vpath, vb, 0o644)
	for _, v := range out.Violations {
		fmt.Printf("  violation rule=%s at %s: %s\n    key: %s\n    why: %s\n", v.Rule, v.Pos, v.What, v.Key, strings.ReplaceAll(v.How, "\n", "\n         "))
	}
	fmt.Printf("VIOLATION property=%s replay=%s\n", r.Property, vpath)
	return 1
}

func distinctKeys(os []Obligation) int {
	s := map[string]bool{}
	for _, o := range os {
		if o.Status != Info {
			s[o.Key] = true
		}
	}
	return len(s)
}
