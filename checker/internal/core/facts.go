package core

import (
	"go/constant"
	"go/token"
	"go/types"

	"golang.org/x/tools/go/ssa"
)

// Cond is a boolean SSA value known to evaluate to True on entry to a block.
type Cond struct {
	V    ssa.Value
	True bool
	// Via: the condition was tested in another function, and is implied by the outcome of this call of the function under
	// examination (nil for the function's own conditions and for those that hold on entry).
	Via *ssa.Call
	// Entry: the condition was tested by the callers, at every call site: it holds from the entry of the function.
	Entry bool
}

// Anchor is the instruction of the function under examination at which the condition was established: the call whose
// outcome implies it, or the instruction that computed it; nil for a condition that holds from the entry.
func (c Cond) Anchor() ssa.Instruction {
	if c.Via != nil {
		return c.Via
	}
	if c.Entry {
		return nil
	}
	in, _ := c.V.(ssa.Instruction)
	return in
}

// CondsAt returns the branch conditions that are known on entry to b: for every dominator-tree ancestor d of b
// (and b itself) that has a single predecessor ending in an If, the condition of that If with the polarity of
// the edge taken. Short-circuit && / || are already explicit control flow in SSA.
func CondsAt(b *ssa.BasicBlock) []Cond {
	return condsAt(b, 0)
}

func condsAt(b *ssa.BasicBlock, depth int) []Cond {
	var out []Cond
	if depth > 8 {
		return out
	}
	for d := b; d != nil; d = d.Idom() {
		if len(d.Preds) != 1 {
			continue
		}
		p := d.Preds[0]
		if len(p.Instrs) == 0 {
			continue
		}
		ifi, ok := p.Instrs[len(p.Instrs)-1].(*ssa.If)
		if !ok {
			continue
		}
		if p.Succs[0] == p.Succs[1] {
			continue
		}
		out = append(out, expandCond(ifi.Cond, p.Succs[0] == d, depth)...)
	}
	if fn := b.Parent(); fn != nil && len(fn.Blocks) > 0 {
		// what holds at every call site of an unexported function holds on its entry
		out = append(out, entryFacts(fn, depth)...)
	}
	return out
}

// expandCond normalises a condition: strips negations, and decodes boolean phis produced by short-circuit
// operators used as values (`case a || b:` in a tagless switch): if the phi has truth T, control came through
// the one incoming edge whose value can be T, so that edge's value is T and the facts of that predecessor hold.
func expandCond(v ssa.Value, truth bool, depth int) []Cond {
	for {
		if u, ok := v.(*ssa.UnOp); ok && u.Op == token.NOT {
			v = u.X
			truth = !truth
			continue
		}
		// `x == true`, `true == x`, `x != false`, ...: what a tagless switch makes of `case x:` (it compares the case
		// expression with the constant true)
		if bin, ok := v.(*ssa.BinOp); ok && (bin.Op == token.EQL || bin.Op == token.NEQ) {
			inner, k, found := ssa.Value(nil), false, false
			if c, isConst := bin.X.(*ssa.Const); isConst && c.Value != nil && c.Value.Kind() == constant.Bool {
				inner, k, found = bin.Y, constant.BoolVal(c.Value), true
			} else if c, isConst := bin.Y.(*ssa.Const); isConst && c.Value != nil && c.Value.Kind() == constant.Bool {
				inner, k, found = bin.X, constant.BoolVal(c.Value), true
			}
			if found {
				// (inner == k) has truth `truth`  <=>  inner has truth (truth == k) for ==, (truth != k) for !=
				if bin.Op == token.EQL {
					truth = truth == k
				} else {
					truth = truth != k
				}
				v = inner
				continue
			}
		}
		break
	}
	out := []Cond{{V: v, True: truth}}
	// the outcome of a call to a function of the module: what holds on every way out of it that gives this outcome
	out = append(out, resultFacts(v, truth, depth)...)
	// a result kept in a variable: `var refusal error; switch { case a: refusal = ..; case b: refusal = .. }; if refusal
	// != nil { return }` - if the merged value is nil, control came over an edge whose value can be nil; with a single
	// such edge the facts of that predecessor hold (and the reverse for "not nil")
	if x, neq, isNilCmp := NilCmp(v); isNilCmp && depth <= 8 {
		if nphi, isPhi := x.(*ssa.Phi); isPhi {
			if cands := nilCandidates(nphi, truth != neq, depth); len(cands) == 1 {
				pred := nphi.Block().Preds[cands[0]]
				out = append(out, condsAt(pred, depth+1)...)
				out = append(out, edgeConds(pred, nphi.Block(), depth+1)...)
			}
		}
	}
	phi, ok := v.(*ssa.Phi)
	if !ok || depth > 8 {
		return out
	}
	cand := -1
	n := 0
	for i, e := range phi.Edges {
		if c, ok := e.(*ssa.Const); ok && c.Value != nil && c.Value.Kind() == constant.Bool {
			if constant.BoolVal(c.Value) != truth {
				continue
			}
		}
		cand = i
		n++
	}
	if n != 1 {
		return out
	}
	e := phi.Edges[cand]
	if _, isConst := e.(*ssa.Const); !isConst {
		out = append(out, expandCond(e, truth, depth+1)...)
	}
	pred := phi.Block().Preds[cand]
	// facts on entry to the predecessor, plus the branch that led from it (if it ends in an If towards phi's block)
	out = append(out, condsAt(pred, depth+1)...)
	if len(pred.Instrs) > 0 {
		if ifi, ok := pred.Instrs[len(pred.Instrs)-1].(*ssa.If); ok && pred.Succs[0] != pred.Succs[1] {
			out = append(out, expandCond(ifi.Cond, pred.Succs[0] == phi.Block(), depth+1)...)
		}
	}
	return out
}

// Alternatives: a condition that is a merge of several ways of being true (or false) - the value of `a || b` kept in a
// variable, `isListOrMap := kind == Slice || kind == Map` - has one alternative per incoming edge that can give it that
// truth: the conditions known on that edge. A fact that every alternative establishes holds. Nil if the condition is no
// such merge (or has a single candidate edge, which expandCond resolves itself).
func Alternatives(c Cond) [][]Cond {
	return alternatives(c.V, c.True, 0)
}

// nilCandidates: the incoming edges of a merge of interface / pointer values over which the merged value can be nil
// (wantNil) or can be something else (!wantNil).
func nilCandidates(phi *ssa.Phi, wantNil bool, depth int) []int {
	m := moduleOf(phi.Parent())
	var out []int
	for i, e := range phi.Edges {
		if wantNil {
			if isNilConst(e) {
				out = append(out, i)
				continue
			}
			if m != nil && m.provablyNonNil(e, phi.Block().Preds[i], depth+1) {
				continue
			}
			out = append(out, i)
		} else if !isNilConst(e) {
			out = append(out, i)
		}
	}
	return out
}

func alternatives(v ssa.Value, truth bool, depth int) [][]Cond {
	if x, neq, isNilCmp := NilCmp(v); isNilCmp && depth <= 4 {
		if nphi, isPhi := x.(*ssa.Phi); isPhi {
			cands := nilCandidates(nphi, truth != neq, depth)
			if len(cands) < 2 {
				return nil
			}
			var out [][]Cond
			for _, i := range cands {
				pred := nphi.Block().Preds[i]
				var alt []Cond
				alt = append(alt, condsAt(pred, depth+1)...)
				alt = append(alt, edgeConds(pred, nphi.Block(), depth+1)...)
				out = append(out, alt)
			}
			return out
		}
	}
	phi, ok := v.(*ssa.Phi)
	if !ok || depth > 4 {
		return nil
	}
	if bt, isBasic := phi.Type().Underlying().(*types.Basic); !isBasic || bt.Kind() != types.Bool {
		return nil
	}
	var out [][]Cond
	for i, e := range phi.Edges {
		if k, isConst := e.(*ssa.Const); isConst && k.Value != nil && k.Value.Kind() == constant.Bool && constant.BoolVal(k.Value) != truth {
			continue
		}
		pred := phi.Block().Preds[i]
		var alt []Cond
		if _, isConst := e.(*ssa.Const); !isConst {
			alt = append(alt, expandCond(e, truth, depth+1)...)
		}
		alt = append(alt, condsAt(pred, depth+1)...)
		alt = append(alt, edgeConds(pred, phi.Block(), depth+1)...)
		out = append(out, alt)
	}
	if len(out) < 2 {
		return nil
	}
	return out
}

// Establishes: est accepts the condition, or every alternative of it holds a condition that est accepts (recursively).
func Establishes(c Cond, est func(Cond) bool) bool {
	return establishes(c, est, 0)
}

func establishes(c Cond, est func(Cond) bool, depth int) bool {
	if est(c) {
		return true
	}
	if depth > 3 {
		return false
	}
	alts := Alternatives(c)
	if len(alts) == 0 {
		return false
	}
	for _, alt := range alts {
		found := false
		for _, a := range alt {
			if establishes(a, est, depth+1) {
				found = true
				break
			}
		}
		if !found {
			return false
		}
	}
	return true
}

// NilCmp decodes `x == nil` / `x != nil` (either operand order). Returns the non-nil operand and whether the
// comparison is "!=".
func NilCmp(v ssa.Value) (x ssa.Value, neq bool, ok bool) {
	b, isBin := v.(*ssa.BinOp)
	if !isBin || (b.Op != token.EQL && b.Op != token.NEQ) {
		return nil, false, false
	}
	if isNilConst(b.Y) {
		return b.X, b.Op == token.NEQ, true
	}
	if isNilConst(b.X) {
		return b.Y, b.Op == token.NEQ, true
	}
	return nil, false, false
}

func isNilConst(v ssa.Value) bool {
	c, ok := v.(*ssa.Const)
	return ok && c.Value == nil && !isBasicNonNilable(c.Type())
}

func isBasicNonNilable(t types.Type) bool {
	switch u := t.Underlying().(type) {
	case *types.Basic:
		return u.Kind() != types.UnsafePointer && u.Kind() != types.UntypedNil
	case *types.Struct, *types.Array:
		return true
	}
	return false
}

// IsNilConst is the exported form.
func IsNilConst(v ssa.Value) bool { return isNilConst(v) }

// NonNilAt reports whether a dominating branch establishes that the value named by path is non-nil in block b.
func (m *Module) NonNilAt(b *ssa.BasicBlock, path string) bool {
	for _, c := range CondsAt(b) {
		if x, neq, ok := NilCmp(c.V); ok {
			if neq == c.True && m.ValPath(x) == path {
				return true
			}
		}
	}
	return false
}

// NilAt reports whether a dominating branch establishes that the value named by path IS nil in block b.
func (m *Module) NilAt(b *ssa.BasicBlock, path string) bool {
	for _, c := range CondsAt(b) {
		if x, neq, ok := NilCmp(c.V); ok {
			if neq != c.True && m.ValPath(x) == path {
				return true
			}
		}
	}
	return false
}

// CommaOk decodes a condition that is the ok component of a comma-ok instruction; returns the tuple instruction.
func CommaOk(v ssa.Value) (tuple ssa.Value, ok bool) {
	e, isE := v.(*ssa.Extract)
	if !isE || e.Index != 1 {
		return nil, false
	}
	switch t := e.Tuple.(type) {
	case *ssa.TypeAssert:
		if t.CommaOk {
			return t, true
		}
	case *ssa.Lookup:
		if t.CommaOk {
			return t, true
		}
	case *ssa.UnOp:
		if t.CommaOk {
			return t, true
		}
	}
	return nil, false
}

// ConstInt returns the integer value of a constant.
func ConstInt(v ssa.Value) (int64, bool) {
	c, ok := v.(*ssa.Const)
	if !ok || c.Value == nil || c.Value.Kind() != constant.Int {
		return 0, false
	}
	i, exact := constant.Int64Val(c.Value)
	return i, exact
}

// ConstString returns the string value of a constant.
func ConstString(v ssa.Value) (string, bool) {
	c, ok := v.(*ssa.Const)
	if !ok || c.Value == nil || c.Value.Kind() != constant.String {
		return "", false
	}
	return constant.StringVal(c.Value), true
}

// Ret is one way out of a function: a Return instruction together with the values it returns on that way. A return
// whose results are merged from several assignments (`var err error; if c { err = a } else { err = b }; return err` - in
// SSA form the results are phis of the return's block) is one way out per merged edge, exactly like the early returns
// it could have been written with: Val gives the value assigned on that edge, and Block the block the edge comes from,
// so that the branch facts (CondsAt) and block states of a way out are those of the place where its values were chosen.
type Ret struct {
	*ssa.Return
	vals []ssa.Value
	from *ssa.BasicBlock
	path []*ssa.BasicBlock // the merge blocks passed after from, up to and including the block of the Return
}

// Next is the block this way out enters when it leaves Block() (nil if the Return is in Block() itself).
func (r Ret) Next() *ssa.BasicBlock {
	if len(r.path) == 0 {
		return nil
	}
	return r.path[0]
}

// Conds are the branch conditions that hold on this way out: those on entry to Block(), and those of the branch that
// leaves it towards the return.
func (r Ret) Conds() []Cond {
	out := CondsAt(r.from)
	if n := r.Next(); n != nil {
		out = append(out, edgeConds(r.from, n, 0)...)
	}
	return out
}

// edgeKeys: for a way out that leaves its block over a conditional edge, a key that stands for the edge in the maps that
// MustHold (and the rules' mustHoldGen) compute: the fact holds there if it holds at the end of the block or the edge
// establishes it.
var edgeKeys = map[[2]*ssa.BasicBlock]*ssa.BasicBlock{}

// Key is the key of this way out in a map computed by MustHold: Block(), or the key of the conditional edge over which
// the way out leaves Block().
func (r Ret) Key() *ssa.BasicBlock {
	n := r.Next()
	if n == nil || len(r.from.Succs) < 2 || r.from.Succs[0] == r.from.Succs[1] {
		return r.from
	}
	e := [2]*ssa.BasicBlock{r.from, n}
	if edgeKeys[e] == nil {
		edgeKeys[e] = &ssa.BasicBlock{Index: r.from.Index, Comment: "edge"}
	}
	return edgeKeys[e]
}

// EdgeKeysOf lists the conditional edges of fn over which ways out leave their block, with their keys.
func EdgeKeysOf(fn *ssa.Function) (edges [][2]*ssa.BasicBlock, keys []*ssa.BasicBlock) {
	for _, r := range ReturnsOf(fn) {
		if k := r.Key(); k != r.from {
			dup := false
			for _, x := range keys {
				if x == k {
					dup = true
				}
			}
			if !dup {
				edges = append(edges, [2]*ssa.BasicBlock{r.from, r.Next()})
				keys = append(keys, k)
			}
		}
	}
	return
}

// RetNonNil: result #i of this way out is certainly not nil.
func (m *Module) RetNonNil(r Ret, i int) bool {
	if m.provablyNonNil(r.vals[i], r.from, 0) {
		return true
	}
	if n := r.Next(); n != nil {
		for _, c := range edgeConds(r.from, n, 0) {
			if y, neq, ok := NilCmp(c.V); ok && neq == c.True && y == r.vals[i] {
				return true
			}
		}
	}
	return false
}

// Before lists the instructions that run on this way out, from the start of Block() to the Return.
func (r Ret) Before() []ssa.Instruction {
	var out []ssa.Instruction
	for _, b := range append([]*ssa.BasicBlock{r.from}, r.path...) {
		for _, in := range b.Instrs {
			if in == ssa.Instruction(r.Return) {
				return out
			}
			out = append(out, in)
		}
	}
	return out
}

// Block is the block in which the returned values were chosen (the block of the Return itself if it names them).
func (r Ret) Block() *ssa.BasicBlock { return r.from }

// RetBlock is the block of the Return instruction.
func (r Ret) RetBlock() *ssa.BasicBlock { return r.Return.Block() }

// Val is result #i on this way out.
func (r Ret) Val(i int) ssa.Value { return r.vals[i] }

// Merged reports whether this way out is one edge of a return with merged results.
func (r Ret) Merged() bool { return r.from != r.Return.Block() }

// ReturnsOf lists the ways out of fn.
func ReturnsOf(fn *ssa.Function) []Ret {
	var out []Ret
	for _, b := range fn.Blocks {
		if len(b.Instrs) == 0 {
			continue
		}
		if r, ok := b.Instrs[len(b.Instrs)-1].(*ssa.Return); ok {
			if b == fn.Recover && len(b.Preds) == 0 {
				continue // only reached after a recovered panic
			}
			vals := make([]ssa.Value, len(r.Results))
			for i := range r.Results {
				vals[i] = rawRetVal(r, i)
			}
			out = append(out, splitRet(Ret{Return: r, vals: vals, from: b}, 0)...)
		}
	}
	return out
}

// splitBehindTest: `if result != nil { return result }` after the result was merged from several assignments: the return
// sits behind a block that does nothing but merge and test the merged value. The ways out are the incoming edges of
// that block over which the test can turn out the way that leads to the return. Nil if the way out has no such shape.
func splitBehindTest(r Ret, depth int) []Ret {
	t := r.from
	if len(t.Preds) != 1 {
		return nil
	}
	p := t.Preds[0]
	if p == t || !onlyMergesAndTests(p) || !onlyReturns(t, r) {
		return nil
	}
	hasPhi := false
	for _, v := range r.vals {
		if phi, ok := v.(*ssa.Phi); ok && phi.Block() == p {
			hasPhi = true
		}
	}
	ifi, _ := p.Instrs[len(p.Instrs)-1].(*ssa.If)
	if !hasPhi || ifi == nil || len(p.Preds) < 2 || len(p.Preds) > 16 {
		return nil
	}
	towards := p.Succs[0] == t
	var out []Ret
	for i, q := range p.Preds {
		if q == p {
			return nil
		}
		// the edge can lead here only if the test can have this outcome on it - and the way out is split only if, on
		// every edge, the value assigned decides the test by itself (a nil constant, or a value that is certainly not
		// nil): what the test says about the merged value is then known of each value, and nothing is lost by looking
		// at the values instead of the merge
		x, neq, isNil := NilCmp(ifi.Cond)
		phi, isPhi := x.(*ssa.Phi)
		if !isNil || !isPhi || phi.Block() != p {
			return nil
		}
		edgeNil := isNilConst(phi.Edges[i])
		edgeNonNil := false
		if m := moduleOf(phi.Parent()); !edgeNil && m != nil {
			edgeNonNil = m.provablyNonNil(phi.Edges[i], q, 0)
		}
		if !edgeNil && !edgeNonNil {
			return nil
		}
		wantNil := towards != neq // the branch towards t is taken when the merged value is nil
		if edgeNil != wantNil {
			continue
		}
		vals := make([]ssa.Value, len(r.vals))
		for j, v := range r.vals {
			vals[j] = v
			if phi, ok := v.(*ssa.Phi); ok && phi.Block() == p {
				vals[j] = phi.Edges[i]
			}
		}
		out = append(out, splitRet(Ret{Return: r.Return, vals: vals, from: q, path: append([]*ssa.BasicBlock{p, t}, r.path...)}, depth+1)...)
	}
	return out
}

// splitRet resolves the results that are phis of the block the way out comes from into one way out per incoming edge.
func splitRet(r Ret, depth int) []Ret {
	b := r.from
	if depth <= 4 && b == r.Return.Block() {
		if out := splitBehindTest(r, depth); len(out) > 0 {
			return out
		}
	}
	if depth > 4 || len(b.Preds) < 2 || len(b.Preds) > 16 {
		return []Ret{r}
	}
	// only a block that does nothing but merge and return (or pass on to the return): phis, the spill of named results
	// for deferred calls, the return
	if b != r.Return.Block() {
		for _, in := range b.Instrs {
			switch in.(type) {
			case *ssa.Phi, *ssa.Jump:
			default:
				return []Ret{r}
			}
		}
	}
	merged := false
	for _, v := range r.vals {
		if phi, ok := v.(*ssa.Phi); ok && phi.Block() == b {
			merged = true
		}
	}
	if !merged {
		return []Ret{r}
	}
	var out []Ret
	for i, p := range b.Preds {
		vals := make([]ssa.Value, len(r.vals))
		for j, v := range r.vals {
			vals[j] = v
			if phi, ok := v.(*ssa.Phi); ok && phi.Block() == b {
				vals[j] = phi.Edges[i]
			}
		}
		if p == b {
			return []Ret{r}
		}
		out = append(out, splitRet(Ret{Return: r.Return, vals: vals, from: p, path: append([]*ssa.BasicBlock{b}, r.path...)}, depth+1)...)
	}
	return out
}

// onlyMergesAndTests: the block consists of phis, comparisons of them and the branch on one.
func onlyMergesAndTests(b *ssa.BasicBlock) bool {
	if len(b.Instrs) == 0 {
		return false
	}
	for i, in := range b.Instrs {
		switch x := in.(type) {
		case *ssa.Phi:
		case *ssa.BinOp:
			if x.Op != token.EQL && x.Op != token.NEQ {
				return false
			}
		case *ssa.If:
			if i != len(b.Instrs)-1 {
				return false
			}
		default:
			return false
		}
	}
	_, isIf := b.Instrs[len(b.Instrs)-1].(*ssa.If)
	return isIf
}

// onlyReturns: the block of the way out does nothing but return (r.from is the block of the Return, or passes on to it).
func onlyReturns(b *ssa.BasicBlock, r Ret) bool {
	if b != r.Return.Block() {
		return false
	}
	for _, in := range b.Instrs {
		switch x := in.(type) {
		case *ssa.Return, *ssa.DebugRef, *ssa.RunDefers:
		case *ssa.Store:
			// the spill of a result for the deferred calls
			if _, isLocal := x.Addr.(*ssa.Alloc); !isLocal {
				return false
			}
		case *ssa.UnOp:
			if _, isLocal := x.X.(*ssa.Alloc); !isLocal || x.Op != token.MUL {
				return false
			}
		default:
			return false
		}
	}
	return true
}

// ErrorResultIndex returns the index of the last result if it is of type error, else -1.
func ErrorResultIndex(sig *types.Signature) int {
	n := sig.Results().Len()
	if n == 0 {
		return -1
	}
	if IsErrorType(sig.Results().At(n - 1).Type()) {
		return n - 1
	}
	return -1
}

func IsErrorType(t types.Type) bool {
	n, ok := t.(*types.Named)
	return ok && n.Obj().Pkg() == nil && n.Obj().Name() == "error"
}

// Unwrap strips value-preserving wrappers (ChangeType, ChangeInterface, MakeInterface).
func Unwrap(v ssa.Value) ssa.Value {
	for {
		switch x := v.(type) {
		case *ssa.ChangeType:
			v = x.X
		case *ssa.ChangeInterface:
			v = x.X
		case *ssa.MakeInterface:
			v = x.X
		default:
			return v
		}
	}
}

// RetVal returns result #i of a Return, looking through the spill that go/ssa introduces for functions with
// defers (`*t0 = v; rundefers; t1 = *t0; return t1`): if the result is a load from a local whose last store in
// the same block precedes it, the stored value is returned.
func RetVal(ret any, i int) ssa.Value {
	switch r := ret.(type) {
	case Ret:
		return r.vals[i]
	case *ssa.Return:
		return rawRetVal(r, i)
	}
	panic("RetVal: not a return")
}

func rawRetVal(r *ssa.Return, i int) ssa.Value {
	v := r.Results[i]
	ld, ok := v.(*ssa.UnOp)
	if !ok || ld.Op != token.MUL {
		return v
	}
	al, ok := ld.X.(*ssa.Alloc)
	if !ok {
		return v
	}
	var last ssa.Value
	for _, in := range r.Block().Instrs {
		if in == ssa.Instruction(ld) {
			break
		}
		if st, ok := in.(*ssa.Store); ok && st.Addr == ssa.Value(al) {
			last = st.Val
		}
	}
	if last != nil {
		return last
	}
	return v
}

// MustHold computes, for a fact established by branch conditions, the blocks on whose entry the fact holds on
// every path: in[b] = AND over predecessors p of (in[p] OR the edge p->b carries a condition accepted by est).
// Greatest fixpoint; the entry block starts false. Unlike CondsAt (dominator ancestors only) this also covers
// join points all of whose incoming edges establish the fact (`case A, B:`, fallthrough, `a || b`).
// kill (optional) names blocks that invalidate the fact for their successors.
func MustHold(fn *ssa.Function, est func(Cond) bool) map[*ssa.BasicBlock]bool {
	in := map[*ssa.BasicBlock]bool{}
	if len(fn.Blocks) == 0 {
		return in
	}
	for _, b := range fn.Blocks {
		in[b] = true
	}
	in[fn.Blocks[0]] = entryHolds(fn, est)
	if fn.Recover != nil {
		in[fn.Recover] = false
	}
	edge := func(p, b *ssa.BasicBlock) bool {
		if len(p.Instrs) == 0 {
			return false
		}
		ifi, ok := p.Instrs[len(p.Instrs)-1].(*ssa.If)
		if !ok || p.Succs[0] == p.Succs[1] {
			return false
		}
		for _, c := range expandCond(ifi.Cond, p.Succs[0] == b, 0) {
			if Establishes(c, est) {
				return true
			}
		}
		return false
	}
	for changed := true; changed; {
		changed = false
		for _, b := range fn.Blocks {
			if !in[b] || b == fn.Blocks[0] {
				continue
			}
			ok := len(b.Preds) > 0
			for _, p := range b.Preds {
				if !(in[p] || edge(p, b)) {
					ok = false
					break
				}
			}
			if !ok {
				in[b] = false
				changed = true
			}
		}
	}
	// the ways out that leave their block over a conditional edge (see Ret.Key)
	edges, keys := EdgeKeysOf(fn)
	for i, e := range edges {
		in[keys[i]] = in[e[0]] || edge(e[0], e[1])
	}
	return in
}

// EdgesWhere returns the blocks that are entered over a branch edge on which v is known to have the given truth
// (directly, or through negations, comparisons with a bool constant and the phis of short-circuit operators used as
// values - what `case a && b:` of a tagless switch becomes).
func EdgesWhere(fn *ssa.Function, v ssa.Value, truth bool) []*ssa.BasicBlock {
	var out []*ssa.BasicBlock
	for _, p := range fn.Blocks {
		if len(p.Instrs) == 0 {
			continue
		}
		ifi, ok := p.Instrs[len(p.Instrs)-1].(*ssa.If)
		if !ok || p.Succs[0] == p.Succs[1] {
			continue
		}
		for i, s := range p.Succs {
			for _, c := range expandCond(ifi.Cond, i == 0, 0) {
				if c.V == v && c.True == truth {
					out = append(out, s)
					break
				}
			}
		}
	}
	return out
}

// entryHolds: the fact holds on entry to fn because it holds at every call site of fn (an unexported function that is
// only ever run by plain static calls).
var entryInProgress = map[*ssa.Function]bool{}

func entryHolds(fn *ssa.Function, est func(Cond) bool) bool {
	if entryInProgress[fn] || len(entryInProgress) > 4 {
		return false
	}
	sites := PlainSites(fn)
	if len(sites) == 0 {
		return false
	}
	entryInProgress[fn] = true
	defer delete(entryInProgress, fn)
	for _, call := range sites {
		if !MustHold(call.Parent(), est)[call.Block()] {
			return false
		}
	}
	return true
}

// AcceptedConds lists the conditions of fn (those of its branches, those implied by the outcomes of the calls it tests,
// and those that hold on its entry) that est accepts: the places where a fact that MustHold reports was established.
func AcceptedConds(fn *ssa.Function, est func(Cond) bool) []Cond {
	var out []Cond
	seen := map[Cond]bool{}
	add := func(cs []Cond) {
		for _, c := range cs {
			if !seen[c] && est(c) {
				seen[c] = true
				out = append(out, c)
			}
		}
	}
	for _, p := range fn.Blocks {
		if len(p.Instrs) == 0 {
			continue
		}
		ifi, ok := p.Instrs[len(p.Instrs)-1].(*ssa.If)
		if !ok || p.Succs[0] == p.Succs[1] {
			continue
		}
		add(expandCond(ifi.Cond, true, 0))
		add(expandCond(ifi.Cond, false, 0))
	}
	add(entryFacts(fn, 0))
	return out
}

// FlagReach: some path from the edge p->s reaches a block accepted by target, where the path is consistent with the
// boolean flags it sets: a bool phi takes the constant of the edge the path came over, and a branch on a flag whose
// value is known is followed only to the side that agrees (`found = true; break` ... `if !found { reject }` has no path
// from the assignment to the reject). Other conditions are not interpreted.
func FlagReach(p, s *ssa.BasicBlock, target func(*ssa.BasicBlock) bool) bool {
	type state struct {
		b   *ssa.BasicBlock
		env string
	}
	seen := map[state]bool{}
	encode := func(env map[*ssa.Phi]bool) string {
		if len(env) == 0 {
			return ""
		}
		var keys []string
		for k, v := range env {
			t := "0"
			if v {
				t = "1"
			}
			keys = append(keys, k.Name()+"="+t)
		}
		sortStrings(keys)
		out := ""
		for _, k := range keys {
			out += k + ";"
		}
		return out
	}
	var walk func(from, b *ssa.BasicBlock, env map[*ssa.Phi]bool, depth int) bool
	walk = func(from, b *ssa.BasicBlock, env map[*ssa.Phi]bool, depth int) bool {
		if depth > 400 {
			return true // give up: assume reachable
		}
		// enter b over the edge from->b
		idx := -1
		for i, q := range b.Preds {
			if q == from {
				idx = i
			}
		}
		next := map[*ssa.Phi]bool{}
		for k, v := range env {
			next[k] = v
		}
		for _, in := range b.Instrs {
			phi, ok := in.(*ssa.Phi)
			if !ok {
				break
			}
			if bt, ok := phi.Type().Underlying().(*types.Basic); !ok || bt.Kind() != types.Bool || idx < 0 {
				continue
			}
			switch e := phi.Edges[idx].(type) {
			case *ssa.Const:
				if e.Value != nil && e.Value.Kind() == constant.Bool {
					next[phi] = constant.BoolVal(e.Value)
				} else {
					delete(next, phi)
				}
			case *ssa.Phi:
				if v, known := env[e]; known {
					next[phi] = v
				} else {
					delete(next, phi)
				}
			default:
				delete(next, phi)
			}
		}
		st := state{b, encode(next)}
		if seen[st] {
			return false
		}
		seen[st] = true
		if target(b) {
			return true
		}
		if len(b.Instrs) > 0 {
			if ifi, ok := b.Instrs[len(b.Instrs)-1].(*ssa.If); ok && b.Succs[0] != b.Succs[1] {
				for _, c := range expandCond(ifi.Cond, true, 9) { // depth 9: no phi decoding, no call boundaries
					if phi, isPhi := c.V.(*ssa.Phi); isPhi {
						if v, known := next[phi]; known {
							// the condition is true exactly when phi == c.True
							if v == c.True {
								return walk(b, b.Succs[0], next, depth+1)
							}
							return walk(b, b.Succs[1], next, depth+1)
						}
					}
					break
				}
			}
		}
		for _, sc := range b.Succs {
			if walk(b, sc, next, depth+1) {
				return true
			}
		}
		return false
	}
	return walk(p, s, map[*ssa.Phi]bool{}, 0)
}

func sortStrings(a []string) {
	for i := 1; i < len(a); i++ {
		for j := i; j > 0 && a[j] < a[j-1]; j-- {
			a[j], a[j-1] = a[j-1], a[j]
		}
	}
}

// ReturnInstrs lists the Return instructions of fn (the exits of the function, whatever they return).
func ReturnInstrs(fn *ssa.Function) []*ssa.Return {
	var out []*ssa.Return
	seen := map[*ssa.Return]bool{}
	for _, r := range ReturnsOf(fn) {
		if !seen[r.Return] {
			seen[r.Return] = true
			out = append(out, r.Return)
		}
	}
	return out
}

// EqConst decodes a condition that compares a value with a string constant: `x == "s"` or `x != "s"`, either operand
// order, under either polarity. eq tells whether the condition establishes x == s.
func EqConst(c Cond) (x ssa.Value, s string, eq bool, ok bool) {
	bin, isBin := c.V.(*ssa.BinOp)
	if !isBin || (bin.Op != token.EQL && bin.Op != token.NEQ) {
		return nil, "", false, false
	}
	if k, isStr := ConstString(bin.Y); isStr {
		return bin.X, k, (bin.Op == token.EQL) == c.True, true
	}
	if k, isStr := ConstString(bin.X); isStr {
		return bin.Y, k, (bin.Op == token.EQL) == c.True, true
	}
	return nil, "", false, false
}

// RecordSources: v reads field #f of an element of a local slice of records (`for _, r := range records { use(r.f) }`):
// the values stored into that field of the records the function appends to the slice - what travels through the
// collection. ok is false if v is no such read, or the collection is filled in a way this does not follow.
func RecordSources(v ssa.Value) (srcs []ssa.Value, ok bool) {
	var field int
	var elem ssa.Value
	switch x := v.(type) {
	case *ssa.Field: // r.f with r a loaded element
		field, elem = x.Field, x.X
	case *ssa.UnOp: // *(&elem.f)
		fa, isFA := x.X.(*ssa.FieldAddr)
		if !isFA || x.Op != token.MUL {
			return nil, false
		}
		field, elem = fa.Field, fa.X
	default:
		return nil, false
	}
	var coll ssa.Value
	if al, isAlloc := elem.(*ssa.Alloc); isAlloc {
		// the loop variable, kept in a local: what the loop stores into it
		var stored ssa.Value
		n := 0
		if refs := al.Referrers(); refs != nil {
			for _, r := range *refs {
				if st, isStore := r.(*ssa.Store); isStore && st.Addr == ssa.Value(al) {
					n++
					stored = st.Val
				}
			}
		}
		if n == 1 {
			elem = stored
		}
	}
	switch e := elem.(type) {
	case *ssa.UnOp: // load of &coll[i]
		ia, isIA := e.X.(*ssa.IndexAddr)
		if !isIA {
			return nil, false
		}
		coll = ia.X
	case *ssa.IndexAddr:
		coll = e.X
	default:
		return nil, false
	}
	if _, isSlice := coll.Type().Underlying().(*types.Slice); !isSlice {
		return nil, false
	}
	// the values the collection can be: make([]T, ...), append(coll', records...), phis of those
	seen := map[ssa.Value]bool{}
	good := true
	var walk func(c ssa.Value)
	var record func(r ssa.Value)
	record = func(r ssa.Value) {
		// a record value: load of a local composite literal whose field is stored once
		ld, isLoad := r.(*ssa.UnOp)
		if !isLoad {
			good = false
			return
		}
		al, isAlloc := ld.X.(*ssa.Alloc)
		if !isAlloc || al.Referrers() == nil {
			good = false
			return
		}
		found := false
		for _, ref := range *al.Referrers() {
			fa, isFA := ref.(*ssa.FieldAddr)
			if !isFA || fa.Field != field || fa.Referrers() == nil {
				continue
			}
			for _, r2 := range *fa.Referrers() {
				if st, isStore := r2.(*ssa.Store); isStore && st.Addr == ssa.Value(fa) {
					srcs = append(srcs, st.Val)
					found = true
				}
			}
		}
		if !found {
			good = false // the field keeps its zero value: not a flow this follows
		}
	}
	walk = func(c ssa.Value) {
		if seen[c] || !good {
			return
		}
		seen[c] = true
		switch x := c.(type) {
		case *ssa.Phi:
			for _, e := range x.Edges {
				walk(e)
			}
		case *ssa.MakeSlice:
		case *ssa.Const:
		case *ssa.Call:
			bi, isBuiltin := x.Call.Value.(*ssa.Builtin)
			if !isBuiltin || bi.Name() != "append" || len(x.Call.Args) != 2 {
				good = false
				return
			}
			walk(x.Call.Args[0])
			// the appended records: a slice of a fresh array into which they are stored
			sl, isSl := x.Call.Args[1].(*ssa.Slice)
			if !isSl {
				good = false
				return
			}
			arr, isAlloc := sl.X.(*ssa.Alloc)
			if !isAlloc || arr.Referrers() == nil {
				good = false
				return
			}
			for _, ref := range *arr.Referrers() {
				ia, isIA := ref.(*ssa.IndexAddr)
				if !isIA || ia.Referrers() == nil {
					continue
				}
				for _, r2 := range *ia.Referrers() {
					if st, isStore := r2.(*ssa.Store); isStore && st.Addr == ssa.Value(ia) {
						record(st.Val)
					}
				}
			}
		default:
			good = false
		}
	}
	walk(coll)
	if !good || len(srcs) == 0 {
		return nil, false
	}
	return srcs, true
}

// PathExists: some path from the edge from->start (from may be nil: start is then the entry) reaches a block accepted
// by target, under a valuation of the conditions: val says, for a boolean SSA value, what it is on the paths of interest
// (known false: not decided by val - the path may take either side, unless the value is a merge whose incoming value on
// the path is known). Boolean phis take the value of the edge the path came over, negations are evaluated, and a branch
// on a value that is known is followed only to the side that agrees. passed is told every instruction on the path;
// target is asked with the block and the block the path entered it from.
func PathExists(from, start *ssa.BasicBlock, val func(ssa.Value) (truth bool, known bool),
	passed func(ssa.Instruction), target func(b, prev *ssa.BasicBlock, env func(ssa.Value) (bool, bool)) bool) bool {
	type state struct {
		b   *ssa.BasicBlock
		env string
	}
	seen := map[state]bool{}
	steps := 0
	var walk func(prev, b *ssa.BasicBlock, env map[ssa.Value]bool) bool
	walk = func(prev, b *ssa.BasicBlock, env map[ssa.Value]bool) bool {
		steps++
		if steps > 20000 {
			return false
		}
		var eval func(v ssa.Value, d int) (bool, bool)
		eval = func(v ssa.Value, d int) (bool, bool) {
			if d > 6 {
				return false, false
			}
			if k, isConst := v.(*ssa.Const); isConst && k.Value != nil && k.Value.Kind() == constant.Bool {
				return constant.BoolVal(k.Value), true
			}
			if t, known := env[v]; known {
				return t, true
			}
			if u, isNot := v.(*ssa.UnOp); isNot && u.Op == token.NOT {
				t, known := eval(u.X, d+1)
				return !t, known
			}
			if bin, isBin := v.(*ssa.BinOp); isBin && (bin.Op == token.EQL || bin.Op == token.NEQ) {
				// comparison with a bool constant
				for _, pr := range [][2]ssa.Value{{bin.X, bin.Y}, {bin.Y, bin.X}} {
					if k, isConst := pr[1].(*ssa.Const); isConst && k.Value != nil && k.Value.Kind() == constant.Bool {
						if t, known := eval(pr[0], d+1); known {
							return (t == constant.BoolVal(k.Value)) == (bin.Op == token.EQL), true
						}
					}
				}
			}
			if val != nil {
				return val(v)
			}
			return false, false
		}
		idx := -1
		for i, q := range b.Preds {
			if q == prev {
				idx = i
			}
		}
		next := map[ssa.Value]bool{}
		for k, v := range env {
			next[k] = v
		}
		for _, in := range b.Instrs {
			phi, ok := in.(*ssa.Phi)
			if !ok {
				break
			}
			if bt, ok := phi.Type().Underlying().(*types.Basic); !ok || bt.Kind() != types.Bool || idx < 0 {
				continue
			}
			if t, known := eval(phi.Edges[idx], 0); known {
				next[phi] = t
			} else {
				delete(next, phi)
			}
		}
		var keys []string
		for k, v := range next {
			t := "0"
			if v {
				t = "1"
			}
			keys = append(keys, k.Name()+"="+t)
		}
		sortStrings(keys)
		st := state{b, ""}
		for _, k := range keys {
			st.env += k + ";"
		}
		if seen[st] {
			return false
		}
		seen[st] = true
		env = next
		if passed != nil {
			for _, in := range b.Instrs {
				passed(in)
			}
		}
		if target(b, prev, func(v ssa.Value) (bool, bool) { return eval(v, 0) }) {
			return true
		}
		if len(b.Instrs) > 0 {
			if ifi, ok := b.Instrs[len(b.Instrs)-1].(*ssa.If); ok && b.Succs[0] != b.Succs[1] {
				if t, known := eval(ifi.Cond, 0); known {
					if t {
						return walk(b, b.Succs[0], env)
					}
					return walk(b, b.Succs[1], env)
				}
				// free: take either side, remembering the choice
				for i, sc := range b.Succs {
					chosen := map[ssa.Value]bool{}
					for k, v := range env {
						chosen[k] = v
					}
					chosen[ifi.Cond] = i == 0
					if walk(b, sc, chosen) {
						return true
					}
				}
				return false
			}
		}
		for _, sc := range b.Succs {
			if walk(b, sc, env) {
				return true
			}
		}
		return false
	}
	return walk(from, start, map[ssa.Value]bool{})
}

// CmpConst normalises a condition that compares a value with a constant, whichever side the constant is written on and
// whichever polarity the condition has: it returns the value, the constant and the relation that HOLDS between them
// (`!(x > k)` and `k >= x` both give x <= k).
func CmpConst(c Cond) (x ssa.Value, op token.Token, k constant.Value, ok bool) {
	bin, isBin := c.V.(*ssa.BinOp)
	if !isBin {
		return nil, 0, nil, false
	}
	op = bin.Op
	switch op {
	case token.LSS, token.LEQ, token.GTR, token.GEQ, token.EQL, token.NEQ:
	default:
		return nil, 0, nil, false
	}
	if kc, isConst := bin.Y.(*ssa.Const); isConst && kc.Value != nil {
		x, k = bin.X, kc.Value
	} else if kc, isConst := bin.X.(*ssa.Const); isConst && kc.Value != nil {
		x, k = bin.Y, kc.Value
		// k op x  ==  x flip(op) k
		switch op {
		case token.LSS:
			op = token.GTR
		case token.LEQ:
			op = token.GEQ
		case token.GTR:
			op = token.LSS
		case token.GEQ:
			op = token.LEQ
		}
	} else {
		return nil, 0, nil, false
	}
	if !c.True {
		switch op {
		case token.LSS:
			op = token.GEQ
		case token.LEQ:
			op = token.GTR
		case token.GTR:
			op = token.LEQ
		case token.GEQ:
			op = token.LSS
		case token.EQL:
			op = token.NEQ
		case token.NEQ:
			op = token.EQL
		}
	}
	return x, op, k, true
}
