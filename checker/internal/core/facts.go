package core

import (
	"go/constant"
	"go/token"
	"go/types"

	"golang.org/x/tools/go/ssa"
)

// Cond is a boolean SSA value known to evaluate to True on entry to a block.
type Cond struct {
	V    ssa.Value
	True bool
}

// CondsAt returns the branch conditions that are known on entry to b: for every dominator-tree ancestor d of b
// (and b itself) that has a single predecessor ending in an If, the condition of that If with the polarity of
// the edge taken. Short-circuit && / || are already explicit control flow in SSA.
func CondsAt(b *ssa.BasicBlock) []Cond {
	return condsAt(b, 0)
}

func condsAt(b *ssa.BasicBlock, depth int) []Cond {
	var out []Cond
	if depth > 8 {
		return out
	}
	for d := b; d != nil; d = d.Idom() {
		if len(d.Preds) != 1 {
			continue
		}
		p := d.Preds[0]
		if len(p.Instrs) == 0 {
			continue
		}
		ifi, ok := p.Instrs[len(p.Instrs)-1].(*ssa.If)
		if !ok {
			continue
		}
		if p.Succs[0] == p.Succs[1] {
			continue
		}
		out = append(out, expandCond(ifi.Cond, p.Succs[0] == d, depth)...)
	}
	return out
}

// expandCond normalises a condition: strips negations, and decodes boolean phis produced by short-circuit
// operators used as values (`case a || b:` in a tagless switch): if the phi has truth T, control came through
// the one incoming edge whose value can be T, so that edge's value is T and the facts of that predecessor hold.
func expandCond(v ssa.Value, truth bool, depth int) []Cond {
	for {
		if u, ok := v.(*ssa.UnOp); ok && u.Op == token.NOT {
			v = u.X
			truth = !truth
			continue
		}
		// `x == true`, `true == x`, `x != false`, ...: what a tagless switch makes of `case x:` (it compares the case
		// expression with the constant true)
		if bin, ok := v.(*ssa.BinOp); ok && (bin.Op == token.EQL || bin.Op == token.NEQ) {
			inner, k, found := ssa.Value(nil), false, false
			if c, isConst := bin.X.(*ssa.Const); isConst && c.Value != nil && c.Value.Kind() == constant.Bool {
				inner, k, found = bin.Y, constant.BoolVal(c.Value), true
			} else if c, isConst := bin.Y.(*ssa.Const); isConst && c.Value != nil && c.Value.Kind() == constant.Bool {
				inner, k, found = bin.X, constant.BoolVal(c.Value), true
			}
			if found {
				// (inner == k) has truth `truth`  <=>  inner has truth (truth == k) for ==, (truth != k) for !=
				if bin.Op == token.EQL {
					truth = truth == k
				} else {
					truth = truth != k
				}
				v = inner
				continue
			}
		}
		break
	}
	out := []Cond{{v, truth}}
	phi, ok := v.(*ssa.Phi)
	if !ok || depth > 8 {
		return out
	}
	cand := -1
	n := 0
	for i, e := range phi.Edges {
		if c, ok := e.(*ssa.Const); ok && c.Value != nil && c.Value.Kind() == constant.Bool {
			if constant.BoolVal(c.Value) != truth {
				continue
			}
		}
		cand = i
		n++
	}
	if n != 1 {
		return out
	}
	e := phi.Edges[cand]
	if _, isConst := e.(*ssa.Const); !isConst {
		out = append(out, expandCond(e, truth, depth+1)...)
	}
	pred := phi.Block().Preds[cand]
	// facts on entry to the predecessor, plus the branch that led from it (if it ends in an If towards phi's block)
	out = append(out, condsAt(pred, depth+1)...)
	if len(pred.Instrs) > 0 {
		if ifi, ok := pred.Instrs[len(pred.Instrs)-1].(*ssa.If); ok && pred.Succs[0] != pred.Succs[1] {
			out = append(out, expandCond(ifi.Cond, pred.Succs[0] == phi.Block(), depth+1)...)
		}
	}
	return out
}

// NilCmp decodes `x == nil` / `x != nil` (either operand order). Returns the non-nil operand and whether the
// comparison is "!=".
func NilCmp(v ssa.Value) (x ssa.Value, neq bool, ok bool) {
	b, isBin := v.(*ssa.BinOp)
	if !isBin || (b.Op != token.EQL && b.Op != token.NEQ) {
		return nil, false, false
	}
	if isNilConst(b.Y) {
		return b.X, b.Op == token.NEQ, true
	}
	if isNilConst(b.X) {
		return b.Y, b.Op == token.NEQ, true
	}
	return nil, false, false
}

func isNilConst(v ssa.Value) bool {
	c, ok := v.(*ssa.Const)
	return ok && c.Value == nil && !isBasicNonNilable(c.Type())
}

func isBasicNonNilable(t types.Type) bool {
	switch u := t.Underlying().(type) {
	case *types.Basic:
		return u.Kind() != types.UnsafePointer && u.Kind() != types.UntypedNil
	case *types.Struct, *types.Array:
		return true
	}
	return false
}

// IsNilConst is the exported form.
func IsNilConst(v ssa.Value) bool { return isNilConst(v) }

// NonNilAt reports whether a dominating branch establishes that the value named by path is non-nil in block b.
func (m *Module) NonNilAt(b *ssa.BasicBlock, path string) bool {
	for _, c := range CondsAt(b) {
		if x, neq, ok := NilCmp(c.V); ok {
			if neq == c.True && m.ValPath(x) == path {
				return true
			}
		}
	}
	return false
}

// NilAt reports whether a dominating branch establishes that the value named by path IS nil in block b.
func (m *Module) NilAt(b *ssa.BasicBlock, path string) bool {
	for _, c := range CondsAt(b) {
		if x, neq, ok := NilCmp(c.V); ok {
			if neq != c.True && m.ValPath(x) == path {
				return true
			}
		}
	}
	return false
}

// CommaOk decodes a condition that is the ok component of a comma-ok instruction; returns the tuple instruction.
func CommaOk(v ssa.Value) (tuple ssa.Value, ok bool) {
	e, isE := v.(*ssa.Extract)
	if !isE || e.Index != 1 {
		return nil, false
	}
	switch t := e.Tuple.(type) {
	case *ssa.TypeAssert:
		if t.CommaOk {
			return t, true
		}
	case *ssa.Lookup:
		if t.CommaOk {
			return t, true
		}
	case *ssa.UnOp:
		if t.CommaOk {
			return t, true
		}
	}
	return nil, false
}

// ConstInt returns the integer value of a constant.
func ConstInt(v ssa.Value) (int64, bool) {
	c, ok := v.(*ssa.Const)
	if !ok || c.Value == nil || c.Value.Kind() != constant.Int {
		return 0, false
	}
	i, exact := constant.Int64Val(c.Value)
	return i, exact
}

// ConstString returns the string value of a constant.
func ConstString(v ssa.Value) (string, bool) {
	c, ok := v.(*ssa.Const)
	if !ok || c.Value == nil || c.Value.Kind() != constant.String {
		return "", false
	}
	return constant.StringVal(c.Value), true
}

// ReturnsOf lists the Return instructions of fn.
func ReturnsOf(fn *ssa.Function) []*ssa.Return {
	var out []*ssa.Return
	for _, b := range fn.Blocks {
		if len(b.Instrs) == 0 {
			continue
		}
		if r, ok := b.Instrs[len(b.Instrs)-1].(*ssa.Return); ok {
			if b == fn.Recover && len(b.Preds) == 0 {
				continue // only reached after a recovered panic
			}
			out = append(out, r)
		}
	}
	return out
}

// ErrorResultIndex returns the index of the last result if it is of type error, else -1.
func ErrorResultIndex(sig *types.Signature) int {
	n := sig.Results().Len()
	if n == 0 {
		return -1
	}
	if IsErrorType(sig.Results().At(n - 1).Type()) {
		return n - 1
	}
	return -1
}

func IsErrorType(t types.Type) bool {
	n, ok := t.(*types.Named)
	return ok && n.Obj().Pkg() == nil && n.Obj().Name() == "error"
}

// Unwrap strips value-preserving wrappers (ChangeType, ChangeInterface, MakeInterface).
func Unwrap(v ssa.Value) ssa.Value {
	for {
		switch x := v.(type) {
		case *ssa.ChangeType:
			v = x.X
		case *ssa.ChangeInterface:
			v = x.X
		case *ssa.MakeInterface:
			v = x.X
		default:
			return v
		}
	}
}

// RetVal returns result #i of a Return, looking through the spill that go/ssa introduces for functions with
// defers (`*t0 = v; rundefers; t1 = *t0; return t1`): if the result is a load from a local whose last store in
// the same block precedes it, the stored value is returned.
func RetVal(r *ssa.Return, i int) ssa.Value {
	v := r.Results[i]
	ld, ok := v.(*ssa.UnOp)
	if !ok || ld.Op != token.MUL {
		return v
	}
	al, ok := ld.X.(*ssa.Alloc)
	if !ok {
		return v
	}
	var last ssa.Value
	for _, in := range r.Block().Instrs {
		if in == ssa.Instruction(ld) {
			break
		}
		if st, ok := in.(*ssa.Store); ok && st.Addr == ssa.Value(al) {
			last = st.Val
		}
	}
	if last != nil {
		return last
	}
	return v
}

// MustHold computes, for a fact established by branch conditions, the blocks on whose entry the fact holds on
// every path: in[b] = AND over predecessors p of (in[p] OR the edge p->b carries a condition accepted by est).
// Greatest fixpoint; the entry block starts false. Unlike CondsAt (dominator ancestors only) this also covers
// join points all of whose incoming edges establish the fact (`case A, B:`, fallthrough, `a || b`).
// kill (optional) names blocks that invalidate the fact for their successors.
func MustHold(fn *ssa.Function, est func(Cond) bool) map[*ssa.BasicBlock]bool {
	in := map[*ssa.BasicBlock]bool{}
	if len(fn.Blocks) == 0 {
		return in
	}
	for _, b := range fn.Blocks {
		in[b] = true
	}
	in[fn.Blocks[0]] = false
	if fn.Recover != nil {
		in[fn.Recover] = false
	}
	edge := func(p, b *ssa.BasicBlock) bool {
		if len(p.Instrs) == 0 {
			return false
		}
		ifi, ok := p.Instrs[len(p.Instrs)-1].(*ssa.If)
		if !ok || p.Succs[0] == p.Succs[1] {
			return false
		}
		for _, c := range expandCond(ifi.Cond, p.Succs[0] == b, 0) {
			if est(c) {
				return true
			}
		}
		return false
	}
	for changed := true; changed; {
		changed = false
		for _, b := range fn.Blocks {
			if !in[b] || b == fn.Blocks[0] {
				continue
			}
			ok := len(b.Preds) > 0
			for _, p := range b.Preds {
				if !(in[p] || edge(p, b)) {
					ok = false
					break
				}
			}
			if !ok {
				in[b] = false
				changed = true
			}
		}
	}
	return in
}

// EdgesWhere returns the blocks that are entered over a branch edge on which v is known to have the given truth
// (directly, or through negations, comparisons with a bool constant and the phis of short-circuit operators used as
// values - what `case a && b:` of a tagless switch becomes).
func EdgesWhere(fn *ssa.Function, v ssa.Value, truth bool) []*ssa.BasicBlock {
	var out []*ssa.BasicBlock
	for _, p := range fn.Blocks {
		if len(p.Instrs) == 0 {
			continue
		}
		ifi, ok := p.Instrs[len(p.Instrs)-1].(*ssa.If)
		if !ok || p.Succs[0] == p.Succs[1] {
			continue
		}
		for i, s := range p.Succs {
			for _, c := range expandCond(ifi.Cond, i == 0, 0) {
				if c.V == v && c.True == truth {
					out = append(out, s)
					break
				}
			}
		}
	}
	return out
}
