package core

import (
	"go/types"
	"sort"
	"strings"

	"golang.org/x/tools/go/ssa"
)

// TypeSet is the set of dynamic types an interface-typed value may hold.
type TypeSet struct {
	Top bool // unknown
	// TopNonNil: every unknown contribution is known not to be the nil interface (e.g. Interface() of a freshly made
	// reflect value); only meaningful when Top is set
	TopNonNil bool
	MayNil    bool // the nil interface value may flow here
	Types     []types.Type
	Why       []string // provenance notes for reports
}

func (t *TypeSet) add(ty types.Type) bool {
	for _, x := range t.Types {
		if types.Identical(x, ty) {
			return false
		}
	}
	t.Types = append(t.Types, ty)
	return true
}

func (t *TypeSet) union(o TypeSet) bool {
	ch := false
	if o.Top {
		if !t.Top {
			t.Top = true
			t.TopNonNil = o.TopNonNil
			ch = true
		} else if t.TopNonNil && !o.TopNonNil {
			t.TopNonNil = false
			ch = true
		}
	}
	if o.MayNil && !t.MayNil {
		t.MayNil = true
		ch = true
	}
	for _, x := range o.Types {
		if t.add(x) {
			ch = true
		}
	}
	return ch
}

func (t TypeSet) String() string {
	var s []string
	for _, x := range t.Types {
		s = append(s, x.String())
	}
	sort.Strings(s)
	if t.MayNil {
		s = append(s, "<nil>")
	}
	if t.Top && t.TopNonNil {
		s = append(s, "<unknown non-nil>")
	} else if t.Top {
		s = append(s, "<unknown>")
	}
	return "{" + strings.Join(s, ", ") + "}"
}

// DynTypes computes dynamic-type provenance with interprocedural return summaries.
type DynTypes struct {
	m       *Module
	summary map[string]*TypeSet // fnKey#idx#excl
	active  map[string]bool
	cyclic  bool
}

func NewDynTypes(m *Module) *DynTypes {
	return &DynTypes{m: m, summary: map[string]*TypeSet{}, active: map[string]bool{}}
}

// Of returns the dynamic types of v as observed at block `at` (facts at that block refine call results:
// if the error result of the producing call is known to be nil there, error returns of the callee are excluded).
func (d *DynTypes) Of(v ssa.Value, at *ssa.BasicBlock) TypeSet {
	for i := 0; i < 6; i++ {
		d.cyclic = false
		before := d.snapshot()
		r := d.of(v, at, 0)
		if !d.cyclic || before == d.snapshot() {
			return r
		}
	}
	return TypeSet{Top: true}
}

func (d *DynTypes) snapshot() string {
	var keys []string
	for k, v := range d.summary {
		keys = append(keys, k+v.String())
	}
	sort.Strings(keys)
	return strings.Join(keys, ";")
}

func (d *DynTypes) of(v ssa.Value, at *ssa.BasicBlock, depth int) TypeSet {
	if depth > 30 {
		return TypeSet{Top: true}
	}
	switch x := v.(type) {
	case *ssa.MakeInterface:
		if _, isTP := x.X.Type().(*types.TypeParam); isTP {
			return TypeSet{Types: []types.Type{x.X.Type()}}
		}
		if _, isIface := x.X.Type().Underlying().(*types.Interface); isIface {
			return d.of(x.X, at, depth+1)
		}
		return TypeSet{Types: []types.Type{x.X.Type()}}
	case *ssa.Const:
		if x.Value == nil {
			return TypeSet{MayNil: true}
		}
		return TypeSet{Types: []types.Type{x.Type()}}
	case *ssa.ChangeInterface:
		return d.of(x.X, at, depth+1)
	case *ssa.ChangeType:
		return d.of(x.X, at, depth+1)
	case *ssa.Phi:
		var out TypeSet
		for _, e := range x.Edges {
			if e == v {
				continue
			}
			out.union(d.of(e, at, depth+1))
		}
		return out
	case *ssa.Extract:
		switch t := x.Tuple.(type) {
		case *ssa.Call:
			return d.ofCall(t, x.Index, at, depth)
		case *ssa.TypeAssert:
			if x.Index == 0 {
				if _, isIface := t.AssertedType.Underlying().(*types.Interface); !isIface {
					return TypeSet{Types: []types.Type{t.AssertedType}}
				}
				return d.of(t.X, at, depth+1)
			}
		}
	case *ssa.Call:
		return d.ofCall(x, 0, at, depth)
	case *ssa.TypeAssert:
		if !x.CommaOk {
			if _, isTP := x.AssertedType.(*types.TypeParam); isTP {
				return TypeSet{Types: []types.Type{x.AssertedType}}
			}
			if _, isIface := x.AssertedType.Underlying().(*types.Interface); !isIface {
				return TypeSet{Types: []types.Type{x.AssertedType}}
			}
			return d.of(x.X, at, depth+1)
		}
	case *ssa.UnOp:
		// load from a local that is assigned in several places: union of the stored values
		if x.Op.String() == "*" {
			if al, ok := x.X.(*ssa.Alloc); ok {
				if refs := al.Referrers(); refs != nil {
					var out TypeSet
					n := 0
					for _, r := range *refs {
						switch st := r.(type) {
						case *ssa.Store:
							if st.Addr == al {
								out.union(d.of(st.Val, at, depth+1))
								n++
							}
						case *ssa.UnOp:
						case *ssa.MakeClosure:
							// the cell is captured: stores made by the closure count too
							cf, _ := st.Fn.(*ssa.Function)
							for bi, bnd := range st.Bindings {
								if bnd != ssa.Value(al) || cf == nil || bi >= len(cf.FreeVars) {
									continue
								}
								fv := cf.FreeVars[bi]
								for _, cb := range cf.Blocks {
									for _, cin := range cb.Instrs {
										if cs, ok := cin.(*ssa.Store); ok && cs.Addr == ssa.Value(fv) {
											out.union(d.of(cs.Val, nil, depth+1))
											n++
										}
									}
								}
								// the zero value the cell starts with is the nil interface unless a store dominates the read;
								// reads after an immediately invoked closure that returned normally see its store - the
								// callers only use the value when the accompanying error is nil
							}
						default:
							return TypeSet{Top: true}
						}
					}
					if n > 0 {
						return out
					}
				}
			}
		}
	}
	return TypeSet{Top: true}
}

func (d *DynTypes) ofCall(c *ssa.Call, idx int, at *ssa.BasicBlock, depth int) TypeSet {
	// reflect pattern: v.Convert(reflect.TypeOf(z)).Interface()
	name := StaticCalleeName(&c.Call)
	if name == "(reflect.Value).Interface" && len(c.Call.Args) == 1 {
		if conv, ok := c.Call.Args[0].(*ssa.Call); ok && StaticCalleeName(&conv.Call) == "(reflect.Value).Convert" && len(conv.Call.Args) == 2 {
			if ty := reflectTypeOfStatic(conv.Call.Args[1]); ty != nil {
				return TypeSet{Types: []types.Type{ty}}
			}
		}
		if reflFresh(c.Call.Args[0], 0) {
			return TypeSet{Top: true, TopNonNil: true}
		}
		return TypeSet{Top: true}
	}
	callees := d.m.Callees(&c.Call)
	if len(callees) == 0 {
		return TypeSet{Top: true}
	}
	excl := false
	if at != nil {
		sig := c.Call.Signature()
		ei := ErrorResultIndex(sig)
		if ei >= 0 && ei != idx {
			excl = errNilAt(at, c, ei)
		}
	}
	var out TypeSet
	for _, callee := range callees {
		out.union(d.ofResult(callee, idx, excl, depth))
	}
	return out
}

// errNilAt: a dominating branch establishes that result #ei of call c is nil at block b.
func errNilAt(b *ssa.BasicBlock, c *ssa.Call, ei int) bool {
	for _, cond := range CondsAt(b) {
		x, neq, ok := NilCmp(cond.V)
		if !ok || neq == cond.True {
			continue
		}
		if isResultOf(x, c, ei, 0) {
			return true
		}
	}
	return false
}

func isResultOf(x ssa.Value, c *ssa.Call, ei int, depth int) bool {
	if depth > 4 {
		return false
	}
	if e, ok := x.(*ssa.Extract); ok && e.Tuple == c && e.Index == ei {
		return true
	}
	if x == ssa.Value(c) && ei == 0 {
		return true
	}
	// the error may have been stored in a named result / local and re-loaded
	if u, ok := x.(*ssa.UnOp); ok && u.Op.String() == "*" {
		if al, ok := u.X.(*ssa.Alloc); ok {
			if refs := al.Referrers(); refs != nil {
				// the last store before the load in the same block, or the only store
				var stores []*ssa.Store
				for _, r := range *refs {
					if st, ok := r.(*ssa.Store); ok && st.Addr == al {
						stores = append(stores, st)
					}
				}
				for _, st := range stores {
					if st.Block() == u.Block() && isResultOf(st.Val, c, ei, depth+1) {
						// ensure no later store to al between st and u in this block
						after := false
						clobber := false
						for _, in := range u.Block().Instrs {
							if in == ssa.Instruction(st) {
								after = true
								continue
							}
							if in == ssa.Instruction(u) {
								break
							}
							if after {
								if s2, ok := in.(*ssa.Store); ok && s2.Addr == al {
									clobber = true
								}
							}
						}
						if !clobber {
							return true
						}
					}
				}
			}
		}
	}
	return false
}

// reflectTypeOfStatic: v is reflect.TypeOf(MakeInterface(z:T)) (possibly through a local) -> T.
// ReflectTypeOfStatic: v is reflect.TypeOf(<value of a statically known non-interface type>); returns that type.
func ReflectTypeOfStatic(v ssa.Value) types.Type { return reflectTypeOfStatic(v) }

func reflectTypeOfStatic(v ssa.Value) types.Type {
	c, ok := v.(*ssa.Call)
	if !ok || StaticCalleeName(&c.Call) != "reflect.TypeOf" || len(c.Call.Args) != 1 {
		return nil
	}
	if mi, ok := c.Call.Args[0].(*ssa.MakeInterface); ok {
		if _, isTP := mi.X.Type().(*types.TypeParam); isTP {
			return mi.X.Type()
		}
		if _, isIface := mi.X.Type().Underlying().(*types.Interface); !isIface {
			return mi.X.Type()
		}
	}
	return nil
}

// ofResult: the dynamic types of result #idx of fn over its returns (excluding provable error returns if excl).
func (d *DynTypes) ofResult(fn *ssa.Function, idx int, excl bool, depth int) TypeSet {
	k := d.m.Key(fn) + "#" + string(rune('0'+idx))
	if excl {
		k += "#noerr"
	}
	if d.active[k] {
		d.cyclic = true
		if s := d.summary[k]; s != nil {
			return *s
		}
		return TypeSet{}
	}
	d.active[k] = true
	defer delete(d.active, k)
	var out TypeSet
	if s := d.summary[k]; s != nil {
		out = *s
	}
	ei := ErrorResultIndex(fn.Signature)
	for _, ret := range ReturnsOf(fn) {
		if idx >= len(ret.Results) {
			out.Top = true
			continue
		}
		if excl && ei >= 0 && ei < len(ret.Results) && d.m.RetNonNil(ret, ei) {
			continue
		}
		// pass-through `return f(x)`: the caller's error is the callee's error, so the exclusion carries over
		if excl && ei >= 0 && ei < len(ret.Results) && ei != idx {
			if e0, ok := RetVal(ret, idx).(*ssa.Extract); ok {
				if e1, ok := RetVal(ret, ei).(*ssa.Extract); ok && e0.Tuple == e1.Tuple {
					if call, ok := e0.Tuple.(*ssa.Call); ok && e1.Index == ErrorResultIndex(call.Call.Signature()) {
						if cs := d.m.Callees(&call.Call); len(cs) > 0 {
							for _, callee := range cs {
								out.union(d.ofResult(callee, e0.Index, true, depth+1))
							}
							continue
						}
					}
				}
			}
		}
		out.union(d.of(RetVal(ret, idx), ret.Block(), depth+1))
	}
	cp := out
	d.summary[k] = &cp
	return out
}

// ProvablyNonNilError: the error value v is certainly non-nil at block b.
func (m *Module) ProvablyNonNilError(v ssa.Value, b *ssa.BasicBlock) bool {
	return m.provablyNonNil(v, b, 0)
}

func (m *Module) provablyNonNil(v ssa.Value, b *ssa.BasicBlock, depth int) bool {
	if depth > 6 {
		return false
	}
	switch x := v.(type) {
	case *ssa.Alloc, *ssa.MakeMap, *ssa.MakeSlice, *ssa.MakeChan, *ssa.MakeClosure, *ssa.FieldAddr, *ssa.IndexAddr:
		return true
	case *ssa.MakeInterface:
		// boxing any concrete-typed value (even a nil pointer) yields a non-nil interface value
		if _, isIface := x.X.Type().Underlying().(*types.Interface); !isIface {
			if _, isTP := x.X.Type().(*types.TypeParam); !isTP {
				return true
			}
		}
		return m.provablyNonNil(x.X, b, depth+1)
	case *ssa.ChangeInterface:
		return m.provablyNonNil(x.X, b, depth+1)
	case *ssa.Call:
		switch StaticCalleeName(&x.Call) {
		case "fmt.Errorf", "errors.New":
			return true
		}
		cs := m.Callees(&x.Call)
		if len(cs) == 1 && !x.Call.IsInvoke() && x.Call.Signature().Results().Len() == 1 {
			// every return of the callee is non-nil, or is a parameter whose argument is non-nil at this call
			rets := ReturnsOf(cs[0])
			all := len(rets) > 0
			for _, r := range rets {
				if m.provablyNonNil(RetVal(r, 0), r.Block(), depth+1) {
					continue
				}
				okParam := false
				for i, p := range cs[0].Params {
					if RetVal(r, 0) == ssa.Value(p) && i < len(x.Call.Args) && m.provablyNonNil(x.Call.Args[i], b, depth+1) {
						okParam = true
					}
				}
				if !okParam {
					all = false
				}
			}
			if all {
				return true
			}
		}
	case *ssa.Phi:
		all := len(x.Edges) > 0
		for _, e := range x.Edges {
			if !m.provablyNonNil(e, b, depth+1) {
				all = false
				break
			}
		}
		if all {
			return true
		}
	}
	// a dominating `v != nil` fact on the very same SSA value (or same path)
	if b != nil {
		for _, c := range CondsAt(b) {
			if y, neq, ok := NilCmp(c.V); ok && neq == c.True {
				if y == v || (m.ValPath(y) == m.ValPath(v) && !strings.HasPrefix(m.ValPath(v), "%")) {
					return true
				}
			}
		}
	}
	return false
}

// ResultOf returns the dynamic types of result #idx of fn over all its returns (excluding returns whose error
// result is provably non-nil when exclErr is set).
func (d *DynTypes) ResultOf(fn *ssa.Function, idx int, exclErr bool) TypeSet {
	for i := 0; i < 6; i++ {
		d.cyclic = false
		before := d.snapshot()
		r := d.ofResult(fn, idx, exclErr, 0)
		if !d.cyclic || before == d.snapshot() {
			return r
		}
	}
	return TypeSet{Top: true}
}

// reflFresh: the reflect.Value is valid and does not hold a nil interface: it was made by reflect.New / MakeSlice /
// MakeMap(WithSize) / Zero-free constructors, is the Elem / Slice of such a value, or the result of Convert on
// reflect.ValueOf(x) (ValueOf unpacks interfaces, so a successful Convert of it yields a non-nil value).
func reflFresh(v ssa.Value, depth int) bool {
	if depth > 6 {
		return false
	}
	switch x := v.(type) {
	case *ssa.Call:
		switch StaticCalleeName(&x.Call) {
		case "reflect.New", "reflect.MakeSlice", "reflect.MakeMapWithSize", "reflect.MakeMap", "reflect.Append", "reflect.AppendSlice":
			return true
		case "(reflect.Value).Elem", "(reflect.Value).Slice", "(reflect.Value).Addr":
			return reflFresh(x.Call.Args[0], depth+1)
		case "(reflect.Value).Convert":
			if src, ok := x.Call.Args[0].(*ssa.Call); ok && StaticCalleeName(&src.Call) == "reflect.ValueOf" {
				return true
			}
			return reflFresh(x.Call.Args[0], depth+1)
		}
	case *ssa.Phi:
		for _, e := range x.Edges {
			if !reflFresh(e, depth+1) {
				return false
			}
		}
		return len(x.Edges) > 0
	case *ssa.UnOp:
		if al, ok := x.X.(*ssa.Alloc); ok {
			n := 0
			for _, r := range *al.Referrers() {
				if st, ok := r.(*ssa.Store); ok && st.Addr == ssa.Value(al) {
					n++
					if !reflFresh(st.Val, depth+1) {
						return false
					}
				}
			}
			return n > 0
		}
	}
	return false
}
