package core

import (
	"go/constant"
	"go/token"
	"go/types"

	"golang.org/x/tools/go/ssa"
)

// This file carries branch facts across the boundary of a call, so that moving a group of checks into a helper, or
// the body of a function into an unexported worker, does not change what the rules can establish:
//
//   - callee -> caller: a condition that tests the result of a static call to a function of the module
//     (`if err := c.check(); err != nil`, `if !s.ready()`) implies the conditions that hold on every way out of the
//     callee that can produce that result (outcomeFacts);
//   - caller -> callee: on entry to an unexported function whose every use is a plain static call, the conditions that
//     hold at every one of its call sites hold (entryFacts, and the entry clause of MustHold).
//
// Conditions are SSA values of the function they were tested in; the rules recognise them by shape (a load of a named
// field, a lookup of a named table), exactly as they do for conditions of the function they examine.

// loaded lists the modules the process has loaded: the free functions of this package find the module of a function
// here.
var loaded []*Module

func moduleOf(fn *ssa.Function) *Module {
	for _, m := range loaded {
		if _, ok := m.keyOf[fn]; ok {
			return m
		}
	}
	return nil
}

// staticBody: the source function that a static call runs (nil for dynamic calls and calls out of the module).
func staticBody(cc *ssa.CallCommon) *ssa.Function {
	if cc.IsInvoke() {
		return nil
	}
	f := cc.StaticCallee()
	if f == nil {
		return nil
	}
	for _, m := range loaded {
		if s := m.Source(f); s != nil {
			if _, ok := m.keyOf[s]; ok {
				return s
			}
		}
	}
	return nil
}

// StaticBody is the exported form.
func StaticBody(cc *ssa.CallCommon) *ssa.Function { return staticBody(cc) }

// CallResult decodes v as result #idx of a call instruction.
func CallResult(v ssa.Value) (*ssa.Call, int, bool) {
	switch x := v.(type) {
	case *ssa.Call:
		if x.Call.Signature().Results().Len() == 1 {
			return x, 0, true
		}
	case *ssa.Extract:
		if c, ok := x.Tuple.(*ssa.Call); ok {
			return c, x.Index, true
		}
	}
	return nil, 0, false
}

// RetSite is one way out of a function for one of its results: the value returned, with the phis at the return
// resolved into the edges they merge (`var result T; if c { result = a } else { result = b }; return result` has two
// ways out, like `if c { return a }; return b`).
type RetSite struct {
	Ret *ssa.Return
	Val ssa.Value
	// Path leads from the block in which the value was chosen to the block of the return; a single block when the
	// return names the value itself.
	Path []*ssa.BasicBlock
}

// Conds are the branch conditions that hold on this way out.
func (s RetSite) Conds() []Cond { return s.conds(0) }

func (s RetSite) conds(depth int) []Cond {
	out := condsAt(s.Path[0], depth)
	for i := 0; i+1 < len(s.Path); i++ {
		out = append(out, edgeConds(s.Path[i], s.Path[i+1], depth)...)
	}
	return out
}

// Block is the block in which the value was chosen.
func (s RetSite) Block() *ssa.BasicBlock { return s.Path[0] }

func edgeConds(p, b *ssa.BasicBlock, depth int) []Cond {
	if len(p.Instrs) == 0 {
		return nil
	}
	ifi, ok := p.Instrs[len(p.Instrs)-1].(*ssa.If)
	if !ok || p.Succs[0] == p.Succs[1] {
		return nil
	}
	return expandCond(ifi.Cond, p.Succs[0] == b, depth)
}

// RetSites lists the ways out of fn for result #idx.
func RetSites(fn *ssa.Function, idx int) []RetSite {
	var out []RetSite
	for _, r := range ReturnsOf(fn) {
		if idx >= len(r.Results) {
			continue
		}
		path := []*ssa.BasicBlock{r.Block()}
		if r.Merged() {
			path = append(path, r.RetBlock())
		}
		out = append(out, resolveRet(r.Return, r.Val(idx), path, 0)...)
	}
	return out
}

func resolveRet(r *ssa.Return, v ssa.Value, path []*ssa.BasicBlock, depth int) []RetSite {
	phi, ok := v.(*ssa.Phi)
	if !ok || phi.Block() != path[0] || depth > 6 || len(path) > 12 {
		return []RetSite{{Ret: r, Val: v, Path: path}}
	}
	for _, b := range path[1:] {
		if b == path[0] {
			// a loop: the phi is not a merge of ways out
			return []RetSite{{Ret: r, Val: v, Path: path}}
		}
	}
	var out []RetSite
	for i, e := range phi.Edges {
		np := append([]*ssa.BasicBlock{phi.Block().Preds[i]}, path...)
		out = append(out, resolveRet(r, e, np, depth+1)...)
	}
	return out
}

// nesting counts the call boundaries the computation in progress has crossed (the analyses of this package are not
// concurrent); maxNesting bounds it: facts are carried across at most that many boundaries.
var nesting int

const maxNesting = 3

type outcome int

const (
	outNil outcome = iota
	outNonNil
	outTrue
	outFalse
	outEqConst  // the result equals the constant wantConst
	outNeqConst // the result differs from it
)

// wantConst is the constant of an outEqConst / outNeqConst query in progress (the analyses are not concurrent).
var wantConst constant.Value

// cannotBe: the value is certainly not the constant k - another constant, or a text that is certainly not empty when k
// is the empty string (a formatted text whose format holds more than verbs, a concatenation with such a text).
func cannotBe(v ssa.Value, k constant.Value, depth int) bool {
	if depth > 4 {
		return false
	}
	if c, ok := v.(*ssa.Const); ok {
		return c.Value != nil && k != nil && c.Value.Kind() == k.Kind() && !constant.Compare(c.Value, token.EQL, k)
	}
	if k == nil || k.Kind() != constant.String || constant.StringVal(k) != "" {
		return false
	}
	switch x := v.(type) {
	case *ssa.Call:
		if n := StaticCalleeName(&x.Call); (n == "fmt.Sprintf" || n == "fmt.Errorf") && len(x.Call.Args) > 0 {
			if f, ok := ConstString(x.Call.Args[0]); ok {
				// any character outside a verb makes the result non-empty
				for i := 0; i < len(f); i++ {
					if f[i] != '%' {
						return true
					}
					// skip the verb: flags, width, precision, the verb letter
					i++
					for i < len(f) && !((f[i] >= 'a' && f[i] <= 'z') || (f[i] >= 'A' && f[i] <= 'Z') || f[i] == '%') {
						i++
					}
					if i < len(f) && f[i] == '%' {
						return true
					}
				}
			}
		}
	case *ssa.BinOp:
		if x.Op == token.ADD {
			return cannotBe(x.X, k, depth+1) || cannotBe(x.Y, k, depth+1)
		}
	case *ssa.Phi:
		for _, e := range x.Edges {
			if !cannotBe(e, k, depth+1) {
				return false
			}
		}
		return len(x.Edges) > 0
	}
	return false
}

// outcomeFacts: the conditions that hold, in the callee, on every way out that can give result #idx the outcome.
// Nil if nothing is known.
type outcomeKey struct {
	fn      *ssa.Function
	idx     int
	want    outcome
	k       string
	nesting int
}

var outcomeMemo = map[outcomeKey][]Cond{}

func outcomeFacts(call *ssa.Call, idx int, want outcome, depth int) []Cond {
	if depth > 6 || nesting >= maxNesting {
		return nil
	}
	callee := staticBody(&call.Call)
	if callee == nil || idx >= callee.Signature.Results().Len() {
		return nil
	}
	key := outcomeKey{fn: callee, idx: idx, want: want, nesting: nesting}
	if (want == outEqConst || want == outNeqConst) && wantConst != nil {
		key.k = wantConst.ExactString()
	}
	if facts, done := outcomeMemo[key]; done {
		return facts
	}
	outcomeMemo[key] = nil // in progress: a recursive helper learns nothing from itself
	facts := outcomeFactsOf(callee, idx, want, depth)
	outcomeMemo[key] = facts
	return facts
}

func outcomeFactsOf(callee *ssa.Function, idx int, want outcome, depth int) []Cond {
	nesting++
	defer func() { nesting-- }()
	m := moduleOf(callee)
	if m == nil {
		return nil
	}
	var common map[Cond]bool
	var order []Cond
	n := 0
	for _, s := range RetSites(callee, idx) {
		var own []Cond
		switch want {
		case outNil:
			if m.provablyNonNil(s.Val, s.Block(), 0) {
				continue
			}
			if c, i, ok := CallResult(Unwrap(s.Val)); ok && !isNilConst(s.Val) {
				own = outcomeFacts(c, i, outNil, depth+1)
			}
		case outNonNil:
			if isNilConst(s.Val) {
				continue
			}
			if c, i, ok := CallResult(Unwrap(s.Val)); ok {
				own = outcomeFacts(c, i, outNonNil, depth+1)
			}
		case outEqConst:
			if cannotBe(s.Val, wantConst, 0) {
				continue
			}
		case outNeqConst:
			if c, ok := s.Val.(*ssa.Const); ok && c.Value != nil && wantConst != nil && c.Value.Kind() == wantConst.Kind() && constant.Compare(c.Value, token.EQL, wantConst) {
				continue
			}
		case outTrue, outFalse:
			if k, ok := s.Val.(*ssa.Const); ok && k.Value != nil && k.Value.Kind() == constant.Bool {
				if constant.BoolVal(k.Value) != (want == outTrue) {
					continue
				}
			} else {
				own = expandCond(s.Val, want == outTrue, depth+1)
			}
		}
		facts := append(s.conds(depth+1), own...)
		for i := range facts {
			facts[i].Via, facts[i].Entry = nil, false
		}
		n++
		if common == nil {
			common = map[Cond]bool{}
			for _, f := range facts {
				if !common[f] {
					common[f] = true
					order = append(order, f)
				}
			}
			continue
		}
		here := map[Cond]bool{}
		for _, f := range facts {
			here[f] = true
		}
		for f := range common {
			if !here[f] {
				delete(common, f)
			}
		}
	}
	if n == 0 {
		return nil
	}
	var out []Cond
	for _, f := range order {
		if common[f] {
			out = append(out, f)
		}
	}
	// a bool result that is one merged value (`ok := a && b; ...; return ok`): the outcome is the truth of that value,
	// whatever its alternatives have in common - the rules that understand a merged condition get it as it is
	if want == outTrue || want == outFalse {
		var merged ssa.Value
		same := true
		for _, r := range ReturnInstrs(callee) {
			if idx >= len(r.Results) {
				same = false
				break
			}
			v := rawRetVal(r, idx)
			if merged == nil {
				merged = v
			} else if merged != v {
				same = false
			}
		}
		if _, isPhi := merged.(*ssa.Phi); same && isPhi {
			out = append(out, Cond{V: merged, True: want == outTrue})
		}
	}
	return out
}

// via marks conditions of a callee as implied by the outcome of the call.
func via(conds []Cond, call *ssa.Call) []Cond {
	out := make([]Cond, 0, len(conds))
	for _, c := range conds {
		c.Via, c.Entry = call, false
		out = append(out, c)
	}
	return out
}

// resultFacts: what testing the value v (with the given truth) says about the callee that produced it.
func resultFacts(v ssa.Value, truth bool, depth int) []Cond {
	if x, neq, ok := NilCmp(v); ok {
		if c, i, ok := CallResult(Unwrap(x)); ok {
			want := outNil
			if neq == truth {
				want = outNonNil
			}
			return via(outcomeFacts(c, i, want, depth), c)
		}
		return nil
	}
	// `helper(...) == "const"`: the result compared with a constant
	if bin, ok := v.(*ssa.BinOp); ok && (bin.Op == token.EQL || bin.Op == token.NEQ) {
		for _, pair := range [][2]ssa.Value{{bin.X, bin.Y}, {bin.Y, bin.X}} {
			k, isConst := pair[1].(*ssa.Const)
			if !isConst || k.Value == nil || k.Value.Kind() == constant.Bool {
				continue
			}
			if c, i, ok := CallResult(pair[0]); ok {
				want := outNeqConst
				if (bin.Op == token.EQL) == truth {
					want = outEqConst
				}
				saved := wantConst
				wantConst = k.Value
				facts := via(outcomeFacts(c, i, want, depth), c)
				wantConst = saved
				return facts
			}
		}
		return nil
	}
	if b, ok := v.Type().Underlying().(*types.Basic); ok && b.Info()&types.IsBoolean != 0 {
		if c, i, ok := CallResult(v); ok {
			want := outFalse
			if truth {
				want = outTrue
			}
			return via(outcomeFacts(c, i, want, depth), c)
		}
	}
	return nil
}

// callSites indexes, per module, the call instructions that may run a function.
type siteIndex struct {
	sites     map[*ssa.Function][]ssa.CallInstruction
	addrTaken map[*ssa.Function]bool
}

func (m *Module) siteIndex() *siteIndex {
	if m.sites != nil {
		return m.sites
	}
	idx := &siteIndex{sites: map[*ssa.Function][]ssa.CallInstruction{}, addrTaken: map[*ssa.Function]bool{}}
	m.sites = idx
	for _, g := range m.Funcs {
		for _, b := range g.Blocks {
			for _, in := range b.Instrs {
				var callValue ssa.Value
				if ci, ok := in.(ssa.CallInstruction); ok {
					callValue = ci.Common().Value
					for _, callee := range m.calleesBase(ci.Common()) {
						idx.sites[callee] = append(idx.sites[callee], ci)
					}
				}
				var ops []*ssa.Value
				for _, op := range in.Operands(ops) {
					if op == nil || *op == nil {
						continue
					}
					f, isFn := (*op).(*ssa.Function)
					if !isFn || (*op == callValue && callValue != nil) {
						continue
					}
					// used as a value: a method value, a callback, a function kept in a table
					if s := m.Source(f); s != nil {
						idx.addrTaken[s] = true
					}
				}
			}
		}
	}
	return idx
}

// PlainSites: the call sites of fn if fn is an unexported function or method of the module that is only ever run by
// plain static calls (no go, no defer, not through an interface, never used as a value); nil otherwise. What holds at
// every one of them holds on entry to fn.
var plainSitesMemo = map[*ssa.Function][]*ssa.Call{}

func PlainSites(fn *ssa.Function) []*ssa.Call {
	if sites, done := plainSitesMemo[fn]; done {
		return sites
	}
	sites := plainSitesOf(fn)
	plainSitesMemo[fn] = sites
	return sites
}

func plainSitesOf(fn *ssa.Function) []*ssa.Call {
	m := moduleOf(fn)
	if m == nil || fn.Parent() != nil || token.IsExported(fn.Name()) || fn.Name() == "init" || fn.Name() == "main" {
		return nil
	}
	idx := m.siteIndex()
	if idx.addrTaken[fn] || len(idx.sites[fn]) == 0 {
		return nil
	}
	var out []*ssa.Call
	for _, ci := range idx.sites[fn] {
		call, ok := ci.(*ssa.Call)
		if !ok || call.Call.IsInvoke() || staticBody(&call.Call) != fn {
			return nil
		}
		out = append(out, call)
	}
	return out
}

// entryFacts: the conditions that hold on entry to fn because they hold at every call site.
type entryKey struct {
	fn      *ssa.Function
	nesting int
}

var entryMemo = map[entryKey][]Cond{}

func entryFacts(fn *ssa.Function, depth int) []Cond {
	if depth > 6 || nesting >= maxNesting {
		return nil
	}
	key := entryKey{fn, nesting}
	if facts, done := entryMemo[key]; done {
		return facts
	}
	entryMemo[key] = nil
	facts := entryFactsOf(fn, depth)
	entryMemo[key] = facts
	return facts
}

func entryFactsOf(fn *ssa.Function, depth int) []Cond {
	nesting++
	defer func() { nesting-- }()
	sites := PlainSites(fn)
	if len(sites) == 0 {
		return nil
	}
	var common map[Cond]bool
	var order []Cond
	for _, call := range sites {
		facts := condsAt(call.Block(), depth+1)
		for i := range facts {
			facts[i].Via, facts[i].Entry = nil, true
		}
		if common == nil {
			common = map[Cond]bool{}
			for _, f := range facts {
				if !common[f] {
					common[f] = true
					order = append(order, f)
				}
			}
			continue
		}
		here := map[Cond]bool{}
		for _, f := range facts {
			here[f] = true
		}
		for f := range common {
			if !here[f] {
				delete(common, f)
			}
		}
	}
	var out []Cond
	for _, f := range order {
		if common[f] {
			out = append(out, f)
		}
	}
	return out
}

func parentOf(v ssa.Value) *ssa.Function {
	switch x := v.(type) {
	case *ssa.Parameter:
		return x.Parent()
	case *ssa.FreeVar:
		return x.Parent()
	case ssa.Instruction:
		return x.Parent()
	}
	return nil
}

func splitRoot(p string) (root, rest string) {
	for i := 0; i < len(p); i++ {
		if p[i] == '.' || p[i] == '[' {
			return p[:i], p[i:]
		}
	}
	return p, ""
}

// CondPath names v - a value of the function in which the condition was tested - by its access path in the function
// under examination, fn: through the arguments of the call whose outcome implies the condition, or through the
// parameters that the (single) call site fills. A value that has no such name gets one that equals no other.
func (m *Module) CondPath(fn *ssa.Function, c Cond, v ssa.Value) string {
	p := m.ValPath(v)
	switch {
	case c.Via != nil:
		callee := staticBody(&c.Via.Call)
		if callee == nil || parentOf(v) != callee {
			if _, isConst := v.(*ssa.Const); isConst {
				return p
			}
			return "%foreign:" + p
		}
		root, rest := splitRoot(p)
		for i, prm := range callee.Params {
			if prm.Name() == root && i < len(c.Via.Call.Args) {
				return m.ValPath(c.Via.Call.Args[i]) + rest
			}
		}
		return "%foreign:" + p
	case c.Entry:
		if _, isConst := v.(*ssa.Const); isConst {
			return p
		}
		sites := PlainSites(fn)
		if len(sites) != 1 || parentOf(v) != sites[0].Parent() {
			return "%foreign:" + p
		}
		for i, a := range sites[0].Call.Args {
			ap := m.ValPath(a)
			if i < len(fn.Params) && ap != "" && ap[0] != '%' && (p == ap || (len(p) > len(ap) && p[:len(ap)] == ap && (p[len(ap)] == '.' || p[len(ap)] == '['))) {
				return fn.Params[i].Name() + p[len(ap):]
			}
		}
		return "%foreign:" + p
	}
	return p
}

// PassesOn: every way out of fn returns, as result #idx, result #calleeIdx of a call to one and the same function of
// the module - fn is a wrapper around it (takes a lock for it, logs, adapts the arguments) as far as this result goes.
func PassesOn(fn *ssa.Function, idx int) (callee *ssa.Function, calleeIdx int, ok bool) {
	sites := RetSites(fn, idx)
	if len(sites) == 0 {
		return nil, 0, false
	}
	ei := ErrorResultIndex(fn.Signature)
	m := moduleOf(fn)
	n := 0
	for _, s := range sites {
		if ei >= 0 && ei != idx && m != nil {
			// a way out that reports an error: its other results are not used
			failed := false
			for _, r := range ReturnsOf(fn) {
				if r.Return == s.Ret && r.Block() == s.Block() && m.provablyNonNil(r.Val(ei), r.Block(), 0) {
					failed = true
				}
			}
			if failed {
				continue
			}
		}
		n++
		call, i, isCall := CallResult(Unwrap(s.Val))
		if !isCall {
			return nil, 0, false
		}
		body := staticBody(&call.Call)
		if body == nil || body == fn || (callee != nil && (body != callee || i != calleeIdx)) {
			return nil, 0, false
		}
		callee, calleeIdx = body, i
	}
	return callee, calleeIdx, n > 0 && callee != nil
}

// EdgeConds: the conditions that hold on the branch edge p->b (normalised like those of CondsAt).
func EdgeConds(p, b *ssa.BasicBlock) []Cond { return edgeConds(p, b, 0) }

// ParamSources: the values a parameter of an unexported function stands for - the arguments at every one of its call
// sites (PlainSites), resolved through the callers' own parameters; v itself if it is no such parameter.
func ParamSources(v ssa.Value) []ssa.Value {
	return paramSources(v, 0)
}

func paramSources(v ssa.Value, depth int) []ssa.Value {
	p, isParam := v.(*ssa.Parameter)
	if !isParam || p.Parent() == nil || depth > 3 {
		return []ssa.Value{v}
	}
	sites := PlainSites(p.Parent())
	idx := -1
	for i, q := range p.Parent().Params {
		if q == p {
			idx = i
		}
	}
	if len(sites) == 0 || idx < 0 {
		return []ssa.Value{v}
	}
	var out []ssa.Value
	for _, call := range sites {
		if idx >= len(call.Call.Args) {
			return []ssa.Value{v}
		}
		out = append(out, paramSources(call.Call.Args[idx], depth+1)...)
	}
	return out
}

// WaysOut lists the ways out of fn like ReturnsOf, but a way out that hands on the results of one call of a function of
// the module, all of them and as they are (`return l.worker(v, t)`), is replaced by the ways out of that function: the
// values that fn returns are made there.
func WaysOut(fn *ssa.Function) []Ret {
	return waysOut(fn, map[*ssa.Function]bool{}, 0)
}

func waysOut(fn *ssa.Function, seen map[*ssa.Function]bool, depth int) []Ret {
	if seen[fn] || depth > 3 {
		return ReturnsOf(fn)
	}
	seen[fn] = true
	var out []Ret
	for _, r := range ReturnsOf(fn) {
		var call *ssa.Call
		handsOn := len(r.vals) > 0
		for i, v := range r.vals {
			c, idx, ok := CallResult(v)
			if !ok || idx != i || (call != nil && c != call) || c.Call.Signature().Results().Len() != len(r.vals) {
				handsOn = false
				break
			}
			call = c
		}
		if handsOn && call != nil {
			if worker := staticBody(&call.Call); worker != nil && worker != fn {
				out = append(out, waysOut(worker, seen, depth+1)...)
				continue
			}
		}
		out = append(out, r)
	}
	return out
}

// FieldSources: v reads field #f of a struct value that is a local composite (or, through a parameter of an unexported
// function, one that every caller builds): the values stored into that field. ok is false if v is no such read or the
// struct is built in a way this does not follow.
func FieldSources(v *ssa.Field) (srcs []ssa.Value, ok bool) {
	return FieldSourcesOf(v.X, v.Field)
}

// FieldSourcesOf is FieldSources for field #field of the struct value x; x may also be the local that a struct
// parameter is copied into (`t0 = local T (p); *t0 = p; &t0.f`).
func FieldSourcesOf(x ssa.Value, field int) (srcs []ssa.Value, ok bool) {
	if al, isAlloc := x.(*ssa.Alloc); isAlloc {
		var stored ssa.Value
		n := 0
		if refs := al.Referrers(); refs != nil {
			for _, r := range *refs {
				if st, isStore := r.(*ssa.Store); isStore && st.Addr == ssa.Value(al) {
					n++
					stored = st.Val
				}
			}
		}
		if _, isParam := stored.(*ssa.Parameter); n != 1 || !isParam {
			return nil, false
		}
		x = stored
	}
	v := struct {
		X     ssa.Value
		Field int
	}{x, field}
	for _, s := range ParamSources(v.X) {
		ld, isLoad := s.(*ssa.UnOp)
		if !isLoad || ld.Op != token.MUL {
			return nil, false
		}
		al, isAlloc := ld.X.(*ssa.Alloc)
		if !isAlloc || al.Referrers() == nil {
			return nil, false
		}
		found := false
		for _, ref := range *al.Referrers() {
			fa, isFA := ref.(*ssa.FieldAddr)
			if !isFA || fa.Field != v.Field || fa.Referrers() == nil {
				continue
			}
			for _, r2 := range *fa.Referrers() {
				if st, isStore := r2.(*ssa.Store); isStore && st.Addr == ssa.Value(fa) {
					srcs = append(srcs, st.Val)
					found = true
				}
			}
		}
		if !found {
			return nil, false
		}
	}
	return srcs, len(srcs) > 0
}
