package core

import (
	"strings"

	"golang.org/x/tools/go/ssa"
)

// NonNilFlow is a forward must-analysis ("the value at access path P is non-nil on every path reaching here")
// over the CFG of one function. Gen: the non-nil edge of a nil comparison on P; a store of a provably non-nil
// value to P; a call to a repo function that ensures param.field non-nil on all its returns (lazy-init idiom).
// Kill: any other store to P or to a prefix of P. Meet: conjunction.
type NonNilFlow struct {
	m       *Module
	ensures map[string]int // fnKey|field -> 0 unknown(in progress) 1 yes 2 no
}

func NewNonNilFlow(m *Module) *NonNilFlow { return &NonNilFlow{m: m, ensures: map[string]int{}} }

// libraryNonNil: calls that never return nil.
var libraryNonNil = map[string]bool{
	"regexp.MustCompile": true, "fmt.Errorf": true, "errors.New": true, "reflect.TypeOf": false,
}

func (f *NonNilFlow) valueNonNil(v ssa.Value, b *ssa.BasicBlock) bool {
	switch x := v.(type) {
	case *ssa.Alloc, *ssa.MakeMap, *ssa.MakeSlice, *ssa.MakeChan, *ssa.MakeClosure:
		return true
	case *ssa.Call:
		if libraryNonNil[StaticCalleeName(&x.Call)] {
			return true
		}
	case *ssa.FieldAddr, *ssa.IndexAddr:
		return true
	case *ssa.Extract:
		// v, err := lib(...) with err == nil established: the library's (value, error) convention
		if call, ok := x.Tuple.(*ssa.Call); ok && libraryNonNilOnNilErr[StaticCalleeName(&call.Call)] {
			ei := ErrorResultIndex(call.Call.Signature())
			if ei >= 0 && ei != x.Index && errNilAt(b, call, ei) {
				return true
			}
		}
	}
	return f.m.provablyNonNil(v, b, 0)
}

// At reports whether path is certainly non-nil immediately before instruction at (in function fn).
func (f *NonNilFlow) At(fn *ssa.Function, at ssa.Instruction, path string) bool {
	in := f.solve(fn, path)
	b := at.Block()
	st := in[b.Index]
	for _, ins := range b.Instrs {
		if ins == at {
			return st
		}
		st = f.transfer(ins, path, st)
	}
	return st
}

func (f *NonNilFlow) transfer(ins ssa.Instruction, path string, st bool) bool {
	switch x := ins.(type) {
	case *ssa.Store:
		if al, ok := x.Addr.(*ssa.Alloc); ok && singleStore(al) != nil {
			return st
		}
		ap := f.m.AddrPath(x.Addr)
		if ap == path {
			return f.valueNonNil(x.Val, x.Block())
		}
		if strings.HasPrefix(path, ap+".") || strings.HasPrefix(path, ap+"[") {
			return false
		}
	case ssa.CallInstruction:
		if _, isGo := ins.(*ssa.Go); isGo {
			return st
		}
		cc := x.Common()
		if cc.IsInvoke() || len(cc.Args) == 0 {
			return st
		}
		cs := f.m.Callees(cc)
		if len(cs) != 1 {
			return st
		}
		// path == <arg0 path>.<field>  and callee ensures param0.field
		recv := f.m.ValPath(cc.Args[0])
		if strings.HasPrefix(path, recv+".") {
			field := path[len(recv)+1:]
			if !strings.ContainsAny(field, ".[*") && f.Ensures(cs[0], field) {
				return true
			}
		}
	}
	return st
}

func (f *NonNilFlow) solve(fn *ssa.Function, path string) []bool {
	n := len(fn.Blocks)
	in := make([]bool, n)
	out := make([]bool, n)
	for i := range in {
		in[i], out[i] = true, true
	}
	if n > 0 {
		in[0] = false
	}
	changed := true
	for iter := 0; changed && iter < 50; iter++ {
		changed = false
		for _, b := range fn.Blocks {
			var st bool
			if b.Index == 0 {
				st = false
			} else {
				st = true
				if len(b.Preds) == 0 {
					st = false
				}
				for _, p := range b.Preds {
					e := out[p.Index]
					// edge refinement
					if len(p.Instrs) > 0 {
						if ifi, ok := p.Instrs[len(p.Instrs)-1].(*ssa.If); ok && p.Succs[0] != p.Succs[1] {
							for _, c := range expandCond(ifi.Cond, p.Succs[0] == b, 0) {
								if x, neq, ok := NilCmp(c.V); ok && neq == c.True && f.m.ValPath(x) == path {
									e = true
								}
								// `if err := recv.init(); err != nil { return }`: on the err == nil edge the callee's
								// conditional guarantee holds
								if x, neq, ok := NilCmp(c.V); ok && neq != c.True && f.ensuredOnNilErr(x, path) {
									e = true
								}
							}
						}
					}
					st = st && e
				}
			}
			if st != in[b.Index] {
				in[b.Index] = st
				changed = true
			}
			o := st
			for _, ins := range b.Instrs {
				o = f.transfer(ins, path, o)
			}
			if o != out[b.Index] {
				out[b.Index] = o
				changed = true
			}
		}
	}
	return in
}

// Ensures: every return of fn is reached with param0.field non-nil.
func (f *NonNilFlow) Ensures(fn *ssa.Function, field string) bool {
	if len(fn.Params) == 0 {
		return false
	}
	k := f.m.Key(fn) + "|" + field
	switch f.ensures[k] {
	case 1:
		return true
	case 2:
		return false
	}
	if _, inProgress := f.ensures[k]; inProgress {
		return false
	}
	f.ensures[k] = 0
	path := fn.Params[0].Name() + "." + field
	ok := true
	rets := ReturnsOf(fn)
	if len(rets) == 0 {
		ok = false
	}
	for _, r := range rets {
		if !f.At(fn, r, path) {
			ok = false
		}
	}
	if ok {
		f.ensures[k] = 1
	} else {
		f.ensures[k] = 2
	}
	return ok
}

// EnsuresOnNilErr: every return of g whose error result may be nil is reached with param0.<field> non-nil
// (the conditional form of Ensures for initialisers that can fail).
func (f *NonNilFlow) EnsuresOnNilErr(g *ssa.Function, field string) bool {
	ei := ErrorResultIndex(g.Signature)
	if ei < 0 || len(g.Params) == 0 {
		return false
	}
	k := f.m.Key(g) + "|onnil|" + field
	switch f.ensures[k] {
	case 1:
		return true
	case 2:
		return false
	}
	if _, inProgress := f.ensures[k]; inProgress {
		return false
	}
	f.ensures[k] = 0
	gpath := g.Params[0].Name() + "." + field
	ok, n := true, 0
	for _, r := range ReturnsOf(g) {
		if f.m.RetNonNil(r, ei) {
			continue
		}
		n++
		if !f.At(g, r, gpath) {
			ok = false
		}
	}
	if n == 0 {
		ok = false
	}
	if ok {
		f.ensures[k] = 1
	} else {
		f.ensures[k] = 2
	}
	return ok
}

// ensuredOnNilErr: errVal is the error result of a static call recv.g(...) with path == recv.<field>, and every return
// of g whose error may be nil is reached with param0.<field> non-nil.
func (f *NonNilFlow) ensuredOnNilErr(errVal ssa.Value, path string) bool {
	v := Unwrap(errVal)
	var call *ssa.Call
	switch x := v.(type) {
	case *ssa.Call:
		call = x
	case *ssa.Extract:
		if c, ok := x.Tuple.(*ssa.Call); ok && x.Index == ErrorResultIndex(c.Call.Signature()) {
			call = c
		}
	}
	if call == nil || call.Call.IsInvoke() || len(call.Call.Args) == 0 {
		return false
	}
	cs := f.m.Callees(&call.Call)
	if len(cs) != 1 {
		return false
	}
	recv := f.m.ValPath(call.Call.Args[0])
	if !strings.HasPrefix(path, recv+".") {
		return false
	}
	field := path[len(recv)+1:]
	if strings.ContainsAny(field, ".[*") {
		return false
	}
	return f.EnsuresOnNilErr(cs[0], field)
}

// libraryNonNilOnNilErr: library constructors whose first result is non-nil whenever their error is nil.
var libraryNonNilOnNilErr = map[string]bool{
	"regexp.Compile": true, "regexp.CompilePOSIX": true,
}
