package rules

import (
	"go/token"
	"go/types"
	"strings"

	"golang.org/x/tools/go/ssa"

	"verifcheck/internal/core"
)

// Rules written after the ninth hunt: one per class of defect that was demonstrated and repaired.

// R-STABLEID (C04 / C10 / C15 "terminates"): the walks that must not come to the same object twice - the sub-object
// defaults, the check of a default value that applies itself, the pairs of a compatibility check - tell objects apart
// by their address, and every one of them gets its objects from ConvertToObjectSchema. A function of the package that
// hands out an object (result type Object or *ObjectSchema, not a constructor) may hand out the address of a copy it
// made only where it found that the original has no address to give (reflect's CanAddr() false): a copy is another
// object on every call, and a walk that waits to meet an object again never does.
func (c *Ctx) ruleStableID(rule string) {
	n := 0
	for _, fn := range c.M.SortedFuncs(c.scopePkg("schema")) {
		if fn.Parent() != nil || strings.HasPrefix(fn.Name(), "New") || strings.HasPrefix(fn.Name(), "new") || fn.Signature.Results().Len() == 0 {
			continue
		}
		rt := typeStr(fn.Signature.Results().At(0).Type())
		if rt != "schema.Object" && rt != "*schema.ObjectSchema" {
			continue
		}
		cnt := 0
		for _, r := range core.ReturnsOf(fn) {
			v := core.Unwrap(core.RetVal(r, 0))
			al, isAlloc := v.(*ssa.Alloc)
			if !isAlloc || !al.Heap || typeStr(al.Type()) != "*schema.ObjectSchema" {
				continue
			}
			n++
			cnt++
			k := key(rule, c.M.Key(fn), sprintf("copy #%d of an object is handed out only where the original has no address", cnt))
			noAddr := false
			for _, cond := range r.Conds() {
				if call, ok := cond.V.(*ssa.Call); ok && !cond.True && reflectValueMethod(call) == "CanAddr" {
					noAddr = true
				}
			}
			if noAddr {
				c.R.Ok(rule, k, c.M.InstrPos(r), "an object handed out as a copy", "only where CanAddr() of the embedded object was found false: there is no original to point to")
			} else {
				c.R.Bad(rule, k, c.M.InstrPos(r), "an object is handed out as a fresh copy on every call",
					"the walks that tell objects apart by their address (sub-object defaults, the check of a default that applies itself, the pairs of a compatibility check) never meet the same object twice: for a typed object the check of a default value that applies itself does not end, and eats memory until the process dies")
			}
		}
	}
	if n == 0 {
		c.R.Ok(rule, key(rule, "schema", "no function hands out a copy of an object"), "-", "object accessors", "no way out of an accessor returns the address of a local copy of an ObjectSchema")
	}
}

// R-SERVAL (C02 "Validate and Serialize enforce the same constraints on values that are already in native form"): a
// Serialize that first asks the same receiver's Validate and then refuses something on its own account refuses a value
// its Validate accepts. Obligation, for every type whose Serialize calls its own Validate: every rejection that
// Serialize constructs itself (a fresh error, not one handed up from a child) has a counterpart in Validate - a rejection
// constructed there with the same message text.
func (c *Ctx) ruleSerVal(rule string) {
	n := 0
	for _, named := range c.serializableTypes() {
		ser, val := c.methodFn(named, "Serialize"), c.methodFn(named, "Validate")
		if ser == nil || val == nil || len(ser.Blocks) == 0 || len(val.Blocks) == 0 {
			continue
		}
		if !strings.HasPrefix(c.M.Key(ser), "schema."+named.Obj().Name()+".") {
			continue // declared by an embedded type: examined there
		}
		asks := false
		for _, b := range ser.Blocks {
			for _, in := range b.Instrs {
				if call, ok := in.(*ssa.Call); ok && core.StaticBody(&call.Call) == val {
					asks = true
				}
			}
		}
		if !asks {
			continue
		}
		valTexts := map[string]bool{}
		for _, t := range c.ownRejections(val) {
			valTexts[t.text] = true
		}
		for i, rej := range c.ownRejections(ser) {
			n++
			k := key(rule, c.M.Key(ser), sprintf("own rejection #%d (%q) is made by Validate as well", i+1, rej.text))
			if valTexts[rej.text] {
				c.R.Ok(rule, k, rej.pos, "a rejection that Serialize makes on its own account", "Validate of the same type constructs a rejection with the same text")
			} else {
				c.R.Bad(rule, k, rej.pos, "Serialize refuses, on its own account, something its Validate does not look at",
					"Serialize asks Validate first and then refuses more: a value that Validate accepts is refused by Serialize of the same schema (two keys of a map that denote the same key were)")
			}
		}
	}
	if n == 0 {
		c.R.Ok(rule, key(rule, "schema", "no Serialize refuses more than the Validate it asks"), "-", "Serialize / Validate pairs", "no Serialize that calls its own Validate constructs a rejection of its own")
	}
}

type ownRejection struct {
	text string
	pos  string
}

// ownRejections: the message texts (constant format strings, or constant messages) of the ConstraintErrors fn
// constructs itself.
func (c *Ctx) ownRejections(fn *ssa.Function) []ownRejection {
	var out []ownRejection
	for _, b := range fn.Blocks {
		for _, in := range b.Instrs {
			st, ok := in.(*ssa.Store)
			if !ok {
				continue
			}
			fa, ok := st.Addr.(*ssa.FieldAddr)
			if !ok || !strings.HasSuffix(typeStr(fa.X.Type()), "ConstraintError") {
				continue
			}
			f := structField(fa.X.Type(), fa.Field)
			if f == nil || f.Name() != "Message" {
				continue
			}
			text := ""
			switch v := st.Val.(type) {
			case *ssa.Const:
				text, _ = core.ConstString(v)
			case *ssa.Call:
				if core.StaticCalleeName(&v.Call) == "fmt.Sprintf" && len(v.Call.Args) > 0 {
					text, _ = core.ConstString(v.Call.Args[0])
				}
			}
			if text == "" {
				text = "<computed>"
			}
			out = append(out, ownRejection{text, c.M.InstrPos(st)})
		}
	}
	return out
}

// R-DEFERUNLOCK, schema clause (C13 "every call returns what it would return in isolation" / C07): the schemas are used
// by steps whose panics the server catches - the process lives on. A mutex of a schema that is held while anything is
// called (which may panic: a nil entry of a received definition) and released by hand stays locked for ever after such
// a panic: every later use of that schema blocks. Obligation: in package schema, a critical section that makes a call
// (other than builtins and the mutex operations themselves) is released by a deferred unlock.
func (c *Ctx) ruleDeferUnlockSchema(rule string) {
	n := 0
	for _, fn := range c.M.SortedFuncs(c.scopePkg("schema")) {
		cnt := 0
		for _, b := range fn.Blocks {
			for i, in := range b.Instrs {
				call, ok := in.(*ssa.Call)
				if !ok || mutexOp(&call.Call) != "lock" {
					continue
				}
				mutex := c.M.ValPath(call.Call.Args[0])
				deferred := false
				for _, db := range fn.Blocks {
					for _, din := range db.Instrs {
						if d, ok := din.(*ssa.Defer); ok && mutexOp(&d.Call) == "unlock" && len(d.Call.Args) > 0 && c.M.ValPath(d.Call.Args[0]) == mutex {
							deferred = true
						}
					}
				}
				// calls inside the section
				var inside ssa.Instruction
				seen := map[*ssa.BasicBlock]bool{}
				var walk func(wb *ssa.BasicBlock, from int)
				walk = func(wb *ssa.BasicBlock, from int) {
					for j := from; j < len(wb.Instrs); j++ {
						x, isCall := wb.Instrs[j].(*ssa.Call)
						if !isCall {
							continue
						}
						if mutexOp(&x.Call) == "unlock" && len(x.Call.Args) > 0 && c.M.ValPath(x.Call.Args[0]) == mutex {
							return
						}
						if _, isBuiltin := x.Call.Value.(*ssa.Builtin); isBuiltin || mutexOp(&x.Call) != "" {
							continue
						}
						if inside == nil {
							inside = x
						}
					}
					for _, s := range wb.Succs {
						if !seen[s] {
							seen[s] = true
							walk(s, 0)
						}
					}
				}
				walk(b, i+1)
				if inside == nil {
					continue
				}
				n++
				cnt++
				k := key(rule, c.M.Key(fn), sprintf("critical section #%d of a schema that makes calls is released by a deferred unlock", cnt))
				if deferred {
					c.R.Ok(rule, k, c.M.InstrPos(call), "critical section of a schema", "the unlock is deferred: a panic inside the section releases the mutex on its way up")
				} else {
					c.R.Bad(rule, k, c.M.InstrPos(inside), "a mutex of a schema is held across a call and released by hand",
						"a panic of the called code (a nil entry in a received units definition) is caught by the server, the process lives on, and the mutex stays locked: every later parse or format on that definition - every later step that touches the property - blocks for ever")
				}
			}
		}
	}
	if n == 0 {
		c.R.Unresolved(rule, "critical sections of package schema that make calls")
	}
}

// R-CLOSEONCE (C07 "answers each accepted run exactly once"): the server's input is closed by the read loop (the client
// is done), and by the closure handler (cancellation, giving up) - whichever comes first. Closing an *os.File twice is
// an error, which the closure handler took for a failure of the server and returned at once, dropping the reports of
// the steps still running. Obligation: every Close of the session's input is made inside a function handed to
// (*sync.Once).Do.
func (c *Ctx) ruleCloseOnce(rule string) {
	n := 0
	for _, fn := range c.M.SortedFuncs(c.scopePkg("atp")) {
		cnt := 0
		for _, b := range fn.Blocks {
			for _, in := range b.Instrs {
				call, ok := in.(*ssa.Call)
				if !ok || !call.Call.IsInvoke() || call.Call.Method.Name() != "Close" {
					continue
				}
				// the receiver is loaded from a field of the server session whose type is an io.ReadCloser
				ld, ok := call.Call.Value.(*ssa.UnOp)
				if !ok {
					continue
				}
				fa, ok := ld.X.(*ssa.FieldAddr)
				if !ok || !strings.HasSuffix(typeStr(fa.X.Type()), "atpServerSession") || !strings.HasSuffix(typeStr(ld.Type()), "ReadCloser") {
					continue
				}
				n++
				cnt++
				k := key(rule, c.M.Key(fn), sprintf("close #%d of the server's input is made at most once", cnt))
				once := false
				if fn.Parent() != nil {
					// the closure is handed to Once.Do by its parent
					for _, pb := range fn.Parent().Blocks {
						for _, pin := range pb.Instrs {
							pc, isCall := pin.(*ssa.Call)
							if !isCall || core.StaticCalleeName(&pc.Call) != "(*sync.Once).Do" || len(pc.Call.Args) != 2 {
								continue
							}
							if mc, isClosure := pc.Call.Args[1].(*ssa.MakeClosure); isClosure && mc.Fn == ssa.Value(fn) {
								once = true
							}
						}
					}
				}
				if once {
					c.R.Ok(rule, k, c.M.InstrPos(call), "closing the server's input", "made by a function handed to (*sync.Once).Do: whoever comes first closes, nobody closes twice")
				} else {
					c.R.Bad(rule, k, c.M.InstrPos(call), "the server's input can be closed a second time",
						"the read loop closes it on client done, the closure handler on cancellation: the second Close of an *os.File is an error, which is returned as a server-fatal failure at once - the failures of the steps still running are neither written to the output nor returned")
				}
			}
		}
	}
	if n == 0 {
		c.R.Unresolved(rule, "Close of the server session's input")
	}
}

// R-FMTPREC, units clause (C16 "formatting followed by parsing returns the original"): a float amount that is printed
// with a fixed number of decimals (the verb %f, FormatFloat with a fixed precision) loses what lies beyond them: 400
// nanoseconds in a seconds-based float came back as zero. Obligation: in the unit code, a float rendering whose text is
// printed (not only parsed back as a trial) carries all the digits it takes: FormatFloat(x, 'f', -1, ..).
func (c *Ctx) ruleFmtPrecUnits(rule string) {
	n := 0
	for _, fn := range c.unitFuncs() {
		cnt := 0
		for _, b := range fn.Blocks {
			for _, in := range b.Instrs {
				call, ok := in.(*ssa.Call)
				if !ok {
					continue
				}
				name := core.StaticCalleeName(&call.Call)
				bad := ""
				switch {
				case name == "fmt.Sprintf" && len(call.Call.Args) > 0 && mayBeFloatVerb(call.Call.Args[0], 0):
					bad = "the verb %f (six decimals)"
				case name == "strconv.FormatFloat" && len(call.Call.Args) == 4:
					prec, isConst := core.ConstInt(call.Call.Args[2])
					if (!isConst || prec >= 0) && !c.onlyReparsed(call) {
						bad = "a fixed precision"
					}
				default:
					continue
				}
				n++
				cnt++
				k := key(rule, c.M.Key(fn), sprintf("float rendering #%d keeps all the digits of the amount", cnt))
				if bad == "" {
					c.R.Ok(rule, k, c.M.InstrPos(call), "rendering of a float amount", "all the digits it takes to read the same number back (precision -1), or a trial that is only parsed back")
				} else {
					c.R.Bad(rule, k, c.M.InstrPos(call), "a float amount is printed with "+bad,
						"everything beyond the fixed decimals is cut off: 1.5 microseconds in a seconds-based float is printed as \"0.000002s\", 400 nanoseconds as \"0s\" - the parser reads another number than the one that was formatted")
				}
			}
		}
	}
	if n == 0 {
		c.R.Unresolved(rule, "float renderings of the unit formatters")
	}
}

// R-JSONNUM (C03 "absent properties that declare a default receive that default"): encoding/json decodes every number
// into a float64 when the target is an interface value - integers beyond 2^53 come out as other integers, the largest
// int64 as 2^63. Obligation: in package schema no json.Unmarshal has a target of type *any, and a json.Decoder that
// decodes into one has UseNumber called on it in the same function.
func (c *Ctx) ruleJSONNum(rule string) {
	n := 0
	isAnyTarget := func(v ssa.Value) bool {
		if mi, ok := v.(*ssa.MakeInterface); ok {
			v = mi.X
		}
		p, ok := v.Type().Underlying().(*types.Pointer)
		if !ok {
			return false
		}
		// *any, or a pointer to a pointer to any (a `value any` parameter that holds one)
		for i := 0; i < 2; i++ {
			if it, isIface := p.Elem().Underlying().(*types.Interface); isIface && it.NumMethods() == 0 {
				return true
			}
			inner, isPtr := p.Elem().Underlying().(*types.Pointer)
			if !isPtr {
				return false
			}
			p = inner
		}
		return false
	}
	for _, fn := range c.M.SortedFuncs(c.scopePkg("schema")) {
		cnt := 0
		for _, b := range fn.Blocks {
			for _, in := range b.Instrs {
				call, ok := in.(*ssa.Call)
				if !ok {
					continue
				}
				name := core.StaticCalleeName(&call.Call)
				var target ssa.Value
				switch name {
				case "encoding/json.Unmarshal":
					if len(call.Call.Args) == 2 {
						target = call.Call.Args[1]
					}
				case "(*encoding/json.Decoder).Decode":
					if len(call.Call.Args) == 2 {
						target = call.Call.Args[1]
					}
				default:
					continue
				}
				if target == nil || (!isAnyTarget(target) && !strings.HasSuffix(typeStr(target.Type()), "any") && typeStr(target.Type()) != "interface{}") {
					continue
				}
				n++
				cnt++
				k := key(rule, c.M.Key(fn), sprintf("JSON decoded into an untyped value #%d keeps integers exact", cnt))
				exact := false
				if name == "(*encoding/json.Decoder).Decode" {
					for _, ub := range fn.Blocks {
						for _, uin := range ub.Instrs {
							if uc, isCall := uin.(*ssa.Call); isCall && core.StaticCalleeName(&uc.Call) == "(*encoding/json.Decoder).UseNumber" && uc.Call.Args[0] == call.Call.Args[0] && instrDominates(uc, call) {
								exact = true
							}
						}
					}
				}
				if exact {
					c.R.Ok(rule, k, c.M.InstrPos(call), "decoding of a default value", "the decoder keeps numbers as text (UseNumber) until their kind is known")
				} else {
					c.R.Bad(rule, k, c.M.InstrPos(call), "JSON is decoded into an untyped value with every number as a float64",
						"an integer default value beyond 2^53 is applied as another integer; the largest int64 as a default rounds to 2^63, which the integer type refuses: the object refuses every input that leaves the property out")
				}
			}
		}
	}
	if n == 0 {
		c.R.Unresolved(rule, "JSON decoding of default values in package schema")
	}
}

// R-SUBOBJRULES (C03 "after defaulting every required, required-if, required-if-not and conflicts rule holds"): a
// struct-mapped object builds the value of an unset sub-object from that sub-object's defaults. What it builds is then
// unserialized like input - and refused, for a property nobody wrote, if the defaults alone break a presence rule of the
// sub-object. Obligation: the function that fills the sub-object in stores the built map into the caller's map only
// where the sub-object's presence rules (validateFieldInterdependencies, on the built map) were evaluated and held.
func (c *Ctx) ruleSubObjRules(rule string) {
	fn := c.fn(rule, "schema.ObjectSchema.applySubObjectDefaultValues")
	if fn == nil {
		return
	}
	n := 0
	for _, b := range fn.Blocks {
		for _, in := range b.Instrs {
			mu, ok := in.(*ssa.MapUpdate)
			if !ok {
				continue
			}
			if _, isParam := mu.Map.(*ssa.Parameter); !isParam {
				continue
			}
			built := mu.Value
			if mi, isMI := built.(*ssa.MakeInterface); isMI {
				built = mi.X
			}
			n++
			k := key(rule, c.M.Key(fn), sprintf("built sub-object #%d is stored only where its presence rules hold", n))
			held := core.MustHold(fn, func(cond core.Cond) bool {
				x, neq, isNil := core.NilCmp(cond.V)
				if !isNil || neq == cond.True {
					return false
				}
				call, _, isCall := core.CallResult(core.Unwrap(x))
				if !isCall {
					return false
				}
				callee := core.StaticBody(&call.Call)
				if callee == nil || !strings.HasSuffix(c.M.Key(callee), ".validateFieldInterdependencies") {
					return false
				}
				for _, a := range call.Call.Args {
					if sameMapValue(a, built) {
						return true
					}
				}
				return false
			})
			// ... and what was checked is what is stored: between the check and the store nothing more is put into the map -
			// no store into it, no call that is handed it (the descent into the sub-objects below, which fills them in:
			// a sub-object that appears after the check can switch on a required_if or a conflicts rule of this level)
			changedAfter := ""
			if held[b] {
				for _, b2 := range fn.Blocks {
					for _, in2 := range b2.Instrs {
						check, isCall := in2.(*ssa.Call)
						if !isCall {
							continue
						}
						callee := core.StaticBody(&check.Call)
						if callee == nil || !strings.HasSuffix(c.M.Key(callee), ".validateFieldInterdependencies") {
							continue
						}
						checks := false
						for _, a := range check.Call.Args {
							if sameMapValue(a, built) {
								checks = true
							}
						}
						if !checks {
							continue
						}
						// instructions that can run after the check and before the store
						for _, b3 := range fn.Blocks {
							for _, in3 := range b3.Instrs {
								if in3 == ssa.Instruction(check) || in3 == ssa.Instruction(mu) {
									continue
								}
								after := (b3 == b2 && instrBefore(check, in3)) || (b3 != b2 && blockReaches(b2, b3, nil))
								before := (b3 == b && instrBefore(in3, mu)) || (b3 != b && blockReaches(b3, b, nil))
								if !after || !before {
									continue
								}
								switch y := in3.(type) {
								case *ssa.MapUpdate:
									if sameMapValue(y.Map, built) {
										changedAfter = c.M.InstrPos(y)
									}
								case *ssa.Call:
									if _, isBuiltin := y.Call.Value.(*ssa.Builtin); isBuiltin {
										continue
									}
									for _, a := range y.Call.Args {
										if sameMapValue(a, built) {
											changedAfter = c.M.InstrPos(y)
										}
									}
								}
							}
						}
					}
				}
			}
			if held[b] && changedAfter != "" {
				c.R.Bad(rule, k, c.M.InstrPos(mu), "the map built for an unset sub-object is filled further after its presence rules were evaluated",
					"at "+changedAfter+" the map that was checked is handed to a call (or stored into) before it is stored: a sub-object that is filled in after the check can make a required_if or conflicts rule of the level apply, the half-made value is stored all the same, and an input whose only fault is a missing required sub-object is refused for a property inside it that nobody wrote")
			} else if held[b] {
				c.R.Ok(rule, k, c.M.InstrPos(mu), "value built for an unset sub-object", "stored only where validateFieldInterdependencies of the built map returned nil, and nothing is put into the map between that check and the store")
			} else {
				c.R.Bad(rule, k, c.M.InstrPos(mu), "a sub-object built from defaults is stored without its presence rules having been evaluated",
					"an optional sub-object that the input left out is built from its defaults although they break a required / required_if / required_if_not rule of the sub-object: the input is refused for a property inside the sub-object that nobody wrote (the map-based twin accepts it)")
			}
		}
	}
	if n == 0 {
		c.R.Unresolved(rule, "store of the built sub-object in applySubObjectDefaultValues")
	}
}

// sameMapValue: the two values are the same map (the same SSA value, or merges that share a source).
func sameMapValue(a, b ssa.Value) bool {
	if a == b {
		return true
	}
	srcs := func(v ssa.Value) map[ssa.Value]bool {
		out := map[ssa.Value]bool{}
		var walk func(x ssa.Value, d int)
		walk = func(x ssa.Value, d int) {
			if d > 4 || out[x] {
				return
			}
			out[x] = true
			if phi, ok := x.(*ssa.Phi); ok {
				for _, e := range phi.Edges {
					walk(e, d+1)
				}
			}
		}
		walk(v, 0)
		return out
	}
	sa, sb := srcs(a), srcs(b)
	for x := range sa {
		if _, isPhi := x.(*ssa.Phi); !isPhi && sb[x] {
			return true
		}
	}
	return false
}

// R-FITS (C01 "the result passes Validate"): the struct mapper converts a validated number into the type of the field.
// reflect's Convert wraps around for a narrower or unsigned type (-1 becomes 18446744073709551615 in a uint field): the
// value handed out is another number than the one that was validated. Obligation: in the struct mapping function every
// Convert whose result is Set into a field is made where a check of the package that consults reflect's OverflowInt,
// OverflowUint and OverflowFloat returned no error for the value.
func (c *Ctx) ruleFits(rule string) {
	n := 0
	consultsOverflow := func(g *ssa.Function) bool {
		seen := map[string]bool{}
		for _, b := range g.Blocks {
			for _, in := range b.Instrs {
				if call, ok := in.(*ssa.Call); ok {
					if m := reflectValueMethod(call); strings.HasPrefix(m, "Overflow") {
						seen[m] = true
					}
				}
			}
		}
		return seen["OverflowInt"] && seen["OverflowUint"] && seen["OverflowFloat"]
	}
	for _, fn := range c.M.SortedFuncs(c.scopePkg("schema")) {
		root := fn
		for root.Parent() != nil {
			root = root.Parent()
		}
		// (wherever the struct mapper keeps the conversion: in the mapping function, in a closure of it, in a helper
		// that is handed the field and the value - any Convert of the package whose result is Set)
		cnt := 0
		for _, b := range fn.Blocks {
			for _, in := range b.Instrs {
				conv, ok := in.(*ssa.Call)
				if !ok || reflectValueMethod(conv) != "Convert" || conv.Referrers() == nil {
					continue
				}
				isSet := false
				for _, r := range *conv.Referrers() {
					if sc, isCall := r.(*ssa.Call); isCall && reflectValueMethod(sc) == "Set" {
						isSet = true
					}
				}
				if !isSet {
					continue
				}
				n++
				cnt++
				k := key(rule, c.M.Key(root), sprintf("conversion #%d into a field type is made only for a number the type can hold", cnt))
				checked := core.MustHold(fn, func(cond core.Cond) bool {
					x, neq, isNil := core.NilCmp(cond.V)
					if !isNil || neq == cond.True {
						return false
					}
					call, _, isCall := core.CallResult(core.Unwrap(x))
					if !isCall {
						return false
					}
					g := core.StaticBody(&call.Call)
					if g == nil || !consultsOverflow(g) {
						return false
					}
					for _, a := range call.Call.Args {
						if sameValue(a, conv.Call.Args[0]) {
							// round 17 (C01-CA): ... and the type the check was given is not the type of the pointer where the
							// conversion goes into the pointee (the same chain of Type / Elem calls at another Elem depth: the
							// check then looks at a Pointer kind, finds no numeric case and lets every number through)
							if len(conv.Call.Args) > 1 {
								ct, cd := typeChainShape(conv.Call.Args[1], 0)
								for _, ta := range call.Call.Args {
									if ta == a {
										continue
									}
									if tt, td := typeChainShape(ta, 0); ct != "" && tt == ct && td != cd {
										return false
									}
								}
							}
							return true
						}
					}
					return false
				})
				if checked[b] {
					c.R.Ok(rule, k, c.M.InstrPos(conv), "conversion of a validated number into the field's type", "made only where a check that consults OverflowInt / OverflowUint / OverflowFloat found that the type can hold the number")
				} else {
					c.R.Bad(rule, k, c.M.InstrPos(conv), "a validated number is converted into the field's type without an overflow check",
						"reflect's Convert wraps around: -1 in a uint field becomes 18446744073709551615 and 300 in a uint8 field 44 - Unserialize hands out a value its own Validate refuses, or another number than the one that was sent")
				}
			}
		}
	}
	if n == 0 {
		c.R.Unresolved(rule, "conversions into field types in the struct mapper")
	}
}

// typeChainShape: for a reflect.Type worked out by a chain of Type() / Elem() calls from a loaded variable, the variable
// (as the address it is loaded from) and the number of Elem steps; "" where the value has another form.
func typeChainShape(v ssa.Value, depth int) (string, int) {
	if depth > 6 {
		return "", 0
	}
	switch x := v.(type) {
	case *ssa.Call:
		name := reflectValueMethod(x)
		var recv ssa.Value
		if name != "" && len(x.Call.Args) > 0 {
			recv = x.Call.Args[0]
		} else if x.Call.IsInvoke() {
			name, recv = x.Call.Method.Name(), x.Call.Value
		}
		if recv == nil || (name != "Type" && name != "Elem") {
			return "", 0
		}
		base, n := typeChainShape(recv, depth+1)
		if base == "" {
			return "", 0
		}
		if name == "Elem" {
			n++
		}
		return base, n
	case *ssa.UnOp:
		if x.Op == token.MUL {
			switch a := x.X.(type) {
			case *ssa.Alloc, *ssa.FreeVar:
				return "*" + a.Name() + "@" + a.Parent().String(), 0
			}
		}
	case *ssa.Parameter:
		return x.Name() + "@" + x.Parent().String(), 0
	}
	return "", 0
}

var _ = token.ADD
