package rules

import (
	"go/types"
	"sort"
	"strings"

	"golang.org/x/tools/go/ssa"

	"verifcheck/internal/core"
)

// R-LOCKSET (guarded-by): for each struct with a sync.Mutex field, a field is *guarded* when it is accessed under
// that mutex at least once and is mutable after construction (stored to outside the constructing function, or its
// referent - a map, an encoder - is mutated). Every access to a guarded field outside construction must hold the
// mutex (locksets are a must-dataflow over the CFG; unexported helpers inherit the locks held at all their call
// sites; a goroutine spawned inside a critical section and joined before the unlock counts as inside it).

type fieldAccess struct {
	fn      *ssa.Function
	in      ssa.Instruction
	fa      *ssa.FieldAddr
	field   string
	locked  bool
	assoc   bool // the accessing function (or the function it is a closure of) locks this struct's mutex somewhere
	write   bool // store to the field itself
	mutates bool // mutates what the field refers to
	constr  bool // on a freshly allocated struct (construction)
}

func structOf(t types.Type) *types.Named {
	if p, ok := t.Underlying().(*types.Pointer); ok {
		t = p.Elem()
	}
	if n, ok := t.(*types.Named); ok {
		if _, isStruct := n.Underlying().(*types.Struct); isStruct {
			return n.Origin()
		}
	}
	return nil
}

func (c *Ctx) collectAccesses(target *types.Named, mutex string) []fieldAccess {
	var out []fieldAccess
	for _, fn := range c.M.Funcs {
		for _, b := range fn.Blocks {
			for _, in := range b.Instrs {
				fa, ok := in.(*ssa.FieldAddr)
				if !ok {
					continue
				}
				sn := structOf(fa.X.Type())
				if sn == nil || sn.Obj() != target.Obj() {
					continue
				}
				fname := fieldName(fa.X.Type(), fa.Field)
				if fname == mutex {
					continue
				}
				acc := fieldAccess{fn: fn, in: in, fa: fa, field: fname}
				if _, isAlloc := fa.X.(*ssa.Alloc); isAlloc {
					acc.constr = true
				}
				lockPath := c.M.ValPath(fa.X) + "." + mutex
				for _, l := range c.lockedAt(fn, in) {
					if l == lockPath {
						acc.locked = true
					}
				}
				if !acc.locked && c.insideJoinedSection(fn, lockPath) {
					acc.locked = true
				}
				acc.assoc = acc.locked || c.locksMutexOf(fn, target, mutex)
				// classify uses
				if refs := fa.Referrers(); refs != nil {
					for _, r := range *refs {
						switch x := r.(type) {
						case *ssa.Store:
							if x.Addr == ssa.Value(fa) {
								acc.write = true
							}
						case *ssa.UnOp:
							if x.Op.String() == "*" && c.referentMutated(x) {
								acc.mutates = true
							}
						case ssa.CallInstruction:
							// address of the field passed as receiver (sync.WaitGroup, sync.Cond): has its own synchronisation
						}
					}
				}
				out = append(out, acc)
			}
		}
	}
	return out
}

// referentMutated: the loaded map / pointer is written through (map update, delete, close, Encode).
func (c *Ctx) referentMutated(v ssa.Value) bool {
	refs := v.Referrers()
	if refs == nil {
		return false
	}
	for _, r := range *refs {
		switch x := r.(type) {
		case *ssa.MapUpdate:
			if x.Map == v {
				return true
			}
		case ssa.CallInstruction:
			cc := x.Common()
			if bi, ok := cc.Value.(*ssa.Builtin); ok && (bi.Name() == "delete" || bi.Name() == "close") && len(cc.Args) > 0 && cc.Args[0] == v {
				return true
			}
			n := core.StaticCalleeName(cc)
			if strings.HasSuffix(n, "cbor/v2.Encoder).Encode") && len(cc.Args) > 0 && cc.Args[0] == v {
				return true
			}
		}
	}
	return false
}

// insideJoinedSection: fn is a closure started with `go` at a point where lockPath (translated to the parent's
// names) is held, and the parent receives from a channel the closure sends on / closes on every path before the
// lock is released (sendRuntimeMessage idiom). lockPath is relative to the closure ("^s.encoderMutex").
func (c *Ctx) insideJoinedSection(fn *ssa.Function, lockPath string) bool {
	parent := fn.Parent()
	if parent == nil {
		return false
	}
	for _, b := range parent.Blocks {
		for _, in := range b.Instrs {
			g, ok := in.(*ssa.Go)
			if !ok {
				continue
			}
			mc, ok := g.Call.Value.(*ssa.MakeClosure)
			if !ok || mc.Fn != ssa.Value(fn) {
				continue
			}
			// translate parent locks to closure names and compare
			held := false
			var parentLock string
			for _, l := range c.lockedAt(parent, g) {
				if t, ok := c.translatePath(l, g, fn); ok && t == lockPath {
					held = true
					parentLock = l
				}
			}
			if !held {
				return false
			}
			// channels the closure sends on or closes (free variables)
			chans := map[string]bool{}
			for _, cb := range fn.Blocks {
				for _, ci := range cb.Instrs {
					switch x := ci.(type) {
					case *ssa.Send:
						chans[c.M.ValPath(x.Chan)] = true
					case ssa.CallInstruction:
						if bi, ok := x.Common().Value.(*ssa.Builtin); ok && bi.Name() == "close" {
							chans[c.M.ValPath(x.Common().Args[0])] = true
						}
					}
				}
			}
			// translate to parent names
			pchans := map[string]bool{}
			for i, bnd := range mc.Bindings {
				if i < len(fn.FreeVars) {
					name := "^" + fn.FreeVars[i].Name()
					if chans[name] {
						pchans[c.M.AddrPath(bnd)] = true
						pchans[c.M.ValPath(bnd)] = true
					}
				}
			}
			if c.joinedBeforeRelease(parent, g, parentLock, pchans) {
				return true
			}
			// the goroutine is started by a helper that hands the channel back: the lock is one that every caller of the
			// helper holds, and every caller waits on the channel it gets before it releases the lock
			returnsChan := false
			for _, r := range core.ReturnInstrs(parent) {
				for _, res := range r.Results {
					if pchans[c.M.ValPath(res)] || pchans[c.M.AddrPath(res)] {
						returnsChan = true
					}
					if ct, ok := res.(*ssa.ChangeType); ok && (pchans[c.M.ValPath(ct.X)] || pchans[c.M.AddrPath(ct.X)]) {
						returnsChan = true
					}
				}
			}
			sites := core.PlainSites(parent)
			if !returnsChan || len(sites) == 0 || parent.Signature.Results().Len() != 1 {
				return false
			}
			for _, site := range sites {
				callerLock := ""
				for _, l := range c.lockedAt(site.Parent(), site) {
					if t, ok := c.translatePath(l, site, parent); ok && t == parentLock {
						callerLock = l
					}
				}
				if callerLock == "" || !c.joinedBeforeRelease(site.Parent(), site, callerLock, map[string]bool{c.M.ValPath(site): true}) {
					return false
				}
			}
			return true
		}
	}
	return false
}

// joinedBeforeRelease: every path from `from` to a release of lock (explicit Unlock, or function return) passes a
// receive (or a select with a receive arm) on one of chans.
func (c *Ctx) joinedBeforeRelease(fn *ssa.Function, from ssa.Instruction, lock string, chans map[string]bool) bool {
	isJoin := func(in ssa.Instruction) bool {
		switch x := in.(type) {
		case *ssa.UnOp:
			if x.Op.String() == "<-" && chans[c.M.ValPath(x.X)] {
				return true
			}
		case *ssa.Select:
			for _, st := range x.States {
				if st.Dir == types.RecvOnly && chans[c.M.ValPath(st.Chan)] {
					return true
				}
			}
		}
		return false
	}
	isRelease := func(in ssa.Instruction) bool {
		switch x := in.(type) {
		case *ssa.Return:
			return true
		case *ssa.Call:
			if mutexOp(&x.Call) == "unlock" && c.M.AddrPath(x.Call.Args[0]) == lock {
				return true
			}
		}
		return false
	}
	seen := map[*ssa.BasicBlock]bool{}
	var walk func(b *ssa.BasicBlock, start int) bool
	walk = func(b *ssa.BasicBlock, start int) bool {
		for i := start; i < len(b.Instrs); i++ {
			in := b.Instrs[i]
			if isJoin(in) {
				return true
			}
			if isRelease(in) {
				return false
			}
		}
		for _, s := range b.Succs {
			if seen[s] {
				continue
			}
			seen[s] = true
			if !walk(s, 0) {
				return false
			}
		}
		return true
	}
	b := from.Block()
	idx := 0
	for i, in := range b.Instrs {
		if in == from {
			idx = i + 1
		}
	}
	return walk(b, idx)
}

func (c *Ctx) ruleLockset(rule string, targets map[*types.Named]string) {
	var names []*types.Named
	for n := range targets {
		names = append(names, n)
	}
	sort.Slice(names, func(i, j int) bool { return names[i].Obj().Name() < names[j].Obj().Name() })
	type pair struct {
		target *types.Named
		mutex  string
	}
	var pairs []pair
	for _, target := range names {
		for _, m := range allMutexFields(target) {
			pairs = append(pairs, pair{target, m})
		}
	}
	for _, pr := range pairs {
		target, mutex := pr.target, pr.mutex
		accs := c.collectAccesses(target, mutex)
		// role-required guarded fields (independent of where locks are taken today): shared cbor encoders, and the
		// client's pending table, signal-channel table and running flag. With several mutexes in one struct a required
		// field belongs to the mutex under which it is accessed somewhere; to the first mutex if to none.
		required := map[string]bool{}
		if st, ok := target.Underlying().(*types.Struct); ok {
			for i := 0; i < st.NumFields(); i++ {
				if isNamed(st.Field(i).Type(), "cbor/v2", "Encoder") {
					required[st.Field(i).Name()] = true
				}
			}
		}
		if ro := c.roles(); ro.ok && ro.clientT != nil && ro.clientT.Obj() == target.Obj() {
			required[ro.pending], required[ro.sigTable], required[ro.runFlag] = true, true, true
			delete(required, "")
		}
		if ms := allMutexFields(target); len(ms) > 1 {
			for f := range required {
				owner := ms[0]
				for _, m := range ms {
					for _, a := range c.collectAccesses(target, m) {
						if a.field == f && a.locked && !a.constr {
							owner = m
						}
					}
				}
				if owner != mutex {
					delete(required, f)
				}
			}
		}
		// With several mutexes in one struct, an access can sit under two of them (a turn-taking mutex around a
		// critical section of the state mutex). The field belongs to the mutex that covers more: if every access made
		// under this mutex is also made under another one, which covers further accesses besides, that one guards it.
		dominated := map[string]bool{}
		if ms := allMutexFields(target); len(ms) > 1 {
			mine := map[string]map[ssa.Instruction]bool{}
			for _, a := range accs {
				if a.locked && !a.constr {
					if mine[a.field] == nil {
						mine[a.field] = map[ssa.Instruction]bool{}
					}
					mine[a.field][a.in] = true
				}
			}
			for _, m := range ms {
				if m == mutex {
					continue
				}
				theirs := map[string]map[ssa.Instruction]bool{}
				for _, a := range c.collectAccesses(target, m) {
					if a.locked && !a.constr {
						if theirs[a.field] == nil {
							theirs[a.field] = map[ssa.Instruction]bool{}
						}
						theirs[a.field][a.in] = true
					}
				}
				for f, set := range mine {
					if len(theirs[f]) <= len(set) {
						continue
					}
					subset := true
					for in := range set {
						if !theirs[f][in] {
							subset = false
						}
					}
					if subset {
						dominated[f] = true
					}
				}
			}
		}
		type info struct{ underLock, mutable bool }
		fields := map[string]*info{}
		for _, a := range accs {
			if fields[a.field] == nil {
				fields[a.field] = &info{}
			}
			if a.constr {
				continue
			}
			if (a.locked && !dominated[a.field]) || required[a.field] {
				fields[a.field].underLock = true
			}
			if a.write || a.mutates {
				fields[a.field].mutable = true
			}
		}
		var guarded []string
		for f, i := range fields {
			if i.underLock && i.mutable {
				guarded = append(guarded, f)
			}
		}
		sort.Strings(guarded)
		tname := target.Obj().Pkg().Name() + "." + target.Obj().Name()
		c.R.Note("%s: %s.%s guards {%s}", rule, tname, mutex, strings.Join(guarded, ", "))
		if len(guarded) == 0 && c.heldAcrossStreamOp(target, mutex) {
			c.R.Ok(rule, key(rule, tname+"."+mutex, "serialises the connection"), "-", "mutex without guarded fields", "a read from / write to the connection's CBOR stream is executed with it held: it serialises the use of the stream, not a field")
		} else if len(guarded) == 0 {
			c.R.Bad(rule, key(rule, tname+"."+mutex, "guards nothing"), "-", "mutex "+tname+"."+mutex+" guards no field",
				"no mutable field of the struct is accessed while this mutex is held: the accesses it used to serialise are unprotected")
		}
		isGuarded := map[string]bool{}
		for _, g := range guarded {
			isGuarded[g] = true
		}
		seen := map[string]bool{}
		for _, a := range accs {
			if !isGuarded[a.field] || a.constr {
				continue
			}
			kind := "read"
			if a.write {
				kind = "write"
			} else if a.mutates {
				kind = "mutation of referent"
			}
			k := key(rule, tname+"."+a.field, c.M.Key(a.fn), kind)
			if seen[k] && a.locked {
				continue
			}
			pos := c.M.InstrPos(a.in)
			what := kind + " of " + tname + "." + a.field + " (guarded by " + mutex + ")"
			if a.locked {
				seen[k] = true
				c.R.Ok(rule, k, pos, what, "the mutex is held on every path to this access")
				continue
			}
			if why, ok := c.locksetException(a, target, mutex); ok {
				seen[k] = true
				c.R.Except(rule, k, pos, what, why)
				continue
			}
			seen[k] = true
			c.R.Bad(rule, k, pos, what+" without the lock",
				"the field is accessed under "+mutex+" elsewhere and is mutable after construction, but no path-insensitive must-lockset holds the mutex here: concurrent callers race / interleave")
		}
	}
}

func (c *Ctx) locksetException(a fieldAccess, target *types.Named, mutex string) (string, bool) {
	// E-ACCESSOR: exported trivial getter handing the raw field to the caller
	if f, ok := c.M.GetterField(a.fn); ok && f == a.field && ast_IsExported(a.fn.Name()) {
		return "E-ACCESSOR: exported accessor that hands the raw field to the caller; what callers do with it is outside the property's premise", true
	}
	// E-PREFORK: the accessing function has a single call site, which dominates every call in its caller that can
	// reach a `go` statement: no other goroutine of this session exists yet.
	var sites []ssa.CallInstruction
	var callers []*ssa.Function
	for _, g := range c.M.Funcs {
		for _, b := range g.Blocks {
			for _, in := range b.Instrs {
				if ci, ok := in.(ssa.CallInstruction); ok {
					for _, callee := range c.M.Callees(ci.Common()) {
						if callee == a.fn {
							sites = append(sites, ci)
							callers = append(callers, g)
						}
					}
				}
			}
		}
	}
	if len(sites) == 1 {
		caller := callers[0]
		site := sites[0]
		if _, isGo := site.(*ssa.Go); !isGo {
			okAll := true
			spawners := 0
			for _, b := range caller.Blocks {
				for _, in := range b.Instrs {
					ci, ok := in.(ssa.CallInstruction)
					if !ok || ci == site {
						continue
					}
					if _, isDefer := in.(*ssa.Defer); isDefer {
						continue
					}
					reachesGo := false
					if _, isGo := in.(*ssa.Go); isGo {
						reachesGo = true
					}
					for _, callee := range c.M.Callees(ci.Common()) {
						for f := range c.M.Reachable([]*ssa.Function{callee}, nil) {
							if hasGo(f) {
								reachesGo = true
							}
						}
					}
					if reachesGo {
						spawners++
						if !instrDominates(site, in) {
							okAll = false
						}
					}
				}
			}
			if okAll && spawners > 0 && !reachesGoFn(c, a.fn) && !c.calledInLoop(caller, 0, map[*ssa.Function]bool{}) {
				return "E-PREFORK: " + c.M.Key(a.fn) + " has a single call site in " + c.M.Key(caller) + ", which dominates every call that can start a goroutine; no concurrent writer exists yet (re-verified)", true
			}
		}
	}
	// E-PREFORK, the access itself: it sits in the function that starts the session's goroutines, and dominates every
	// call of that function that can start one (the value is read there and handed to a helper as an argument).
	if a.in != nil && a.fn.Parent() == nil {
		okAll := true
		spawners := 0
		for _, b := range a.fn.Blocks {
			for _, in := range b.Instrs {
				ci, ok := in.(ssa.CallInstruction)
				if !ok {
					continue
				}
				if _, isDefer := in.(*ssa.Defer); isDefer {
					continue
				}
				reachesGo := false
				if _, isGo := in.(*ssa.Go); isGo {
					reachesGo = true
				}
				for _, callee := range c.M.Callees(ci.Common()) {
					for f := range c.M.Reachable([]*ssa.Function{callee}, nil) {
						if hasGo(f) {
							reachesGo = true
						}
					}
				}
				if reachesGo {
					spawners++
					if !instrDominates(a.in, in) {
						okAll = false
					}
				}
			}
		}
		if okAll && spawners > 0 && len(sites) == 1 && !c.calledInLoop(a.fn, 0, map[*ssa.Function]bool{}) {
			return "E-PREFORK: the access in " + c.M.Key(a.fn) + " dominates every call of that function that can start a goroutine, and the function has a single call site; no concurrent writer exists yet (re-verified)", true
		}
	}
	return "", false
}

// calledInLoop: some call site of fn - or of a function it is called from, up to four levels, closures counted with the
// function that makes them - lies inside a loop: fn can run more than once in a session, so "before the goroutines are
// started" says nothing about its later runs.
func (c *Ctx) calledInLoop(fn *ssa.Function, depth int, seen map[*ssa.Function]bool) bool {
	if seen[fn] || depth > 4 {
		return false
	}
	seen[fn] = true
	if fn.Parent() != nil {
		// a closure runs where it is made / started: look at the instruction that makes it
		for _, b := range fn.Parent().Blocks {
			for _, in := range b.Instrs {
				if mc, ok := in.(*ssa.MakeClosure); ok && mc.Fn == ssa.Value(fn) && blockInLoop(b) {
					return true
				}
			}
		}
		return c.calledInLoop(fn.Parent(), depth+1, seen)
	}
	for _, g := range c.M.Funcs {
		for _, b := range g.Blocks {
			for _, in := range b.Instrs {
				ci, ok := in.(ssa.CallInstruction)
				if !ok {
					continue
				}
				for _, callee := range c.M.Callees(ci.Common()) {
					if callee != fn {
						continue
					}
					if blockInLoop(b) {
						return true
					}
					if c.M.IsHandedCall(ci.Common()) {
						// fn runs here because a call site handed it over: that call site is where it is "called"
						if hs := c.M.HandingSites(fn); len(hs) > 0 {
							for _, h := range hs {
								if blockInLoop(h.Block()) || c.calledInLoop(h.Parent(), depth+1, seen) {
									return true
								}
							}
							continue
						}
					}
					if c.calledInLoop(g, depth+1, seen) {
						return true
					}
				}
			}
		}
	}
	return false
}

func hasGo(f *ssa.Function) bool {
	for _, b := range f.Blocks {
		for _, in := range b.Instrs {
			if _, ok := in.(*ssa.Go); ok {
				return true
			}
		}
	}
	return false
}

func reachesGoFn(c *Ctx, fn *ssa.Function) bool {
	for f := range c.M.Reachable([]*ssa.Function{fn}, nil) {
		if hasGo(f) {
			return true
		}
	}
	return false
}

// locksMutexOf: fn, or a function it is lexically nested in, contains a Lock call on the mutex field of target.
func (c *Ctx) locksMutexOf(fn *ssa.Function, target *types.Named, mutex string) bool {
	for f := fn; f != nil; f = f.Parent() {
		for _, b := range f.Blocks {
			for _, in := range b.Instrs {
				call, ok := in.(*ssa.Call)
				if !ok || mutexOp(&call.Call) != "lock" {
					continue
				}
				if fa, ok := call.Call.Args[0].(*ssa.FieldAddr); ok {
					if sn := structOf(fa.X.Type()); sn != nil && sn.Obj() == target.Obj() && fieldName(fa.X.Type(), fa.Field) == mutex {
						return true
					}
				}
			}
		}
	}
	return false
}

// heldAcrossStreamOp: some Decode / Encode on a CBOR stream in the methods of target is executed with mutex held.
func (c *Ctx) heldAcrossStreamOp(target *types.Named, mutex string) bool {
	for _, fn := range c.M.Funcs {
		if !c.methodOrClosureOf(fn, target) {
			continue
		}
		for _, b := range fn.Blocks {
			for _, in := range b.Instrs {
				call, ok := in.(*ssa.Call)
				if !ok {
					continue
				}
				n := core.StaticCalleeName(&call.Call)
				if !strings.HasSuffix(n, "cbor/v2.Decoder).Decode") && !strings.HasSuffix(n, "cbor/v2.Encoder).Encode") {
					continue
				}
				for _, l := range c.lockedAt(fn, call) {
					if strings.HasSuffix(l, "."+mutex) {
						return true
					}
				}
			}
		}
	}
	return false
}
