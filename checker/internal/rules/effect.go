package rules

import (
	"sort"
	"strings"

	"golang.org/x/tools/go/ssa"

	"verifcheck/internal/core"
)

// R-EFFECT: no function of the pure API may write memory that is reachable from its receiver, from its arguments or
// from a package-level variable. Every write instruction (store, map update, delete, append into a non-fresh slice,
// mutating library call such as sort.* / maps.Copy / reflect.Value.Set) in the reachable functions is classified by
// the origin of the written location; writes to memory allocated during the call are fine. For the concurrency
// variant (C13) a write is also fine when it happens while a mutex field of the same receiver is held.
func (c *Ctx) ruleEffect(rule string, entries []*ssa.Function, allowLocked bool, allowLazyInit bool) {
	eff := core.NewEffects(c.M)
	if allowLocked {
		eff.Guarded = func(ws *core.WriteSite) bool { return c.underReceiverLock(ws) }
	}
	eff.Summaries()
	var unk []string
	for n := range eff.Unknown {
		unk = append(unk, n)
	}
	sort.Strings(unk)
	for _, n := range unk {
		c.R.Bad(rule, key(rule, "library", n), "-", "unclassified library call "+n,
			"the effect table has no entry for this function; its effect on arguments is undecided (undecided = fail)")
	}
	reach := c.M.Reachable(entries, nil)
	// violating sites: site -> entries + roots
	type hit struct {
		entries map[string]bool
		roots   map[string]bool
	}
	hits := map[*core.WriteSite]*hit{}
	for _, ent := range entries {
		for root, sites := range eff.ModOf(ent) {
			if root.Kind == "fresh" {
				continue
			}
			rootDesc := root.String()
			if root.Kind == "param" {
				if root.Idx == 0 && ent.Signature.Recv() != nil {
					rootDesc = "the receiver"
				} else if root.Idx < len(ent.Params) {
					rootDesc = "argument " + ent.Params[root.Idx].Name()
				}
			}
			for _, ws := range sites {
				h := hits[ws]
				if h == nil {
					h = &hit{map[string]bool{}, map[string]bool{}}
					hits[ws] = h
				}
				h.entries[c.M.Key(ent)] = true
				h.roots[rootDesc] = true
			}
		}
	}
	seenKey := map[string]bool{}
	for _, ws := range eff.AllSites {
		if !reach[ws.Fn] {
			continue
		}
		k := key(rule, c.M.Key(ws.Fn), c.stable(ws.Fn, ws.What))
		if seenKey[k] {
			// several instructions of the same construct: keep the worst
			if hits[ws] == nil {
				continue
			}
		}
		seenKey[k] = true
		pos := c.M.InstrPos(ws.In)
		if h := hits[ws]; h != nil {
			if allowLazyInit {
				if why, ok := c.isLazyInitSite(ws); ok {
					c.R.Ok(rule, k, pos, "write: "+c.stable(ws.Fn, ws.What), why)
					continue
				}
			}
			c.R.Bad(rule, k, pos, "write to caller-visible memory from a pure operation: "+c.stable(ws.Fn, ws.What),
				"the written location is reachable from "+joinKeys(h.roots)+" of "+firstN(h.entries, 4)+
					"; the operation must leave its schema and its argument unchanged (and unsynchronised shared writes race)")
			continue
		}
		if allowLocked && c.underReceiverLock(ws) {
			c.R.Ok(rule, k, pos, "write: "+c.stable(ws.Fn, ws.What), "performed while a mutex field of the same receiver is held on every path")
			continue
		}
		c.R.Ok(rule, k, pos, "write: "+c.stable(ws.Fn, ws.What), "the written memory is allocated during the call (fresh) at every entry that reaches it")
	}
}

func joinKeys(m map[string]bool) string {
	var s []string
	for k := range m {
		s = append(s, k)
	}
	sort.Strings(s)
	return strings.Join(s, " / ")
}

func firstN(m map[string]bool, n int) string {
	var s []string
	for k := range m {
		s = append(s, k)
	}
	sort.Strings(s)
	if len(s) > n {
		return strings.Join(s[:n], ", ") + sprintf(" and %d more entries", len(s)-n)
	}
	return strings.Join(s, ", ")
}

// underReceiverLock: the write site is dominated by recv.<mutex>.Lock() with a deferred Unlock (or no Unlock
// between) in its own function, and the written location is rooted at the same receiver.
func (c *Ctx) underReceiverLock(ws *core.WriteSite) bool {
	fn := ws.Fn
	if len(fn.Params) == 0 {
		return false
	}
	recv := fn.Params[0].Name()
	if writesGlobal(ws.In) {
		// a mutex of one receiver does not serialise writes to package-level memory shared by all receivers
		return false
	}
	held := c.lockedAt(fn, ws.In)
	for _, l := range held {
		if strings.HasPrefix(l, recv+".") {
			return true
		}
	}
	return false
}

// isLazyInitSite: the write fills a cache of the receiver that is only written while it is still nil, inside a
// function that takes nothing but the receiver (so the stored value cannot depend on the operation's argument).
// Such a write does not change what the schema describes or how it behaves, which is all that purity (C12) asks;
// that it is unsynchronised is a separate matter (C13 does not accept this discharge).
func (c *Ctx) isLazyInitSite(ws *core.WriteSite) (string, bool) {
	fn := ws.Fn
	if fn.Signature.Recv() == nil || len(fn.Params) != 1 {
		return "", false
	}
	recv := fn.Params[0].Name()
	// (1) the site itself is dominated by `recv.F == nil` for the field F it stores
	if st, ok := ws.In.(*ssa.Store); ok {
		if fa, ok := st.Addr.(*ssa.FieldAddr); ok && c.M.ValPath(fa.X) == recv {
			path := c.M.AddrPath(fa)
			if c.M.NilAt(st.Block(), path) {
				return "lazy cache fill: the store to " + path + " is dominated by " + path + " == nil, in a function whose only input is the receiver; behaviour-invisible", true
			}
		}
	}
	// (2) the enclosing function is an initialiser: every call site is dominated by `recv.G == nil` for a field G
	//     that the function ensures non-nil on all its returns
	flow := core.NewNonNilFlow(c.M)
	n := 0
	for _, g := range c.M.Funcs {
		for _, b := range g.Blocks {
			for _, in := range b.Instrs {
				call, ok := in.(*ssa.Call)
				if !ok {
					continue
				}
				for _, callee := range c.M.Callees(&call.Call) {
					if callee != fn {
						continue
					}
					n++
					if len(call.Call.Args) == 0 {
						return "", false
					}
					ap := c.M.ValPath(call.Call.Args[0])
					okSite := false
					for _, cond := range core.CondsAt(b) {
						x, neq, isNil := core.NilCmp(cond.V)
						if !isNil || neq == cond.True {
							continue
						}
						p := c.M.ValPath(x)
						if strings.HasPrefix(p, ap+".") {
							field := p[len(ap)+1:]
							if !strings.ContainsAny(field, ".[*") && (flow.Ensures(fn, field) || flow.EnsuresOnNilErr(fn, field)) {
								okSite = true
							}
						}
					}
					if !okSite {
						return "", false
					}
				}
			}
		}
	}
	if n == 0 {
		return "", false
	}
	// the written location must be a field of the receiver, or a map/slice loaded from a receiver field that this
	// function itself assigned a fresh value to
	var target string
	switch x := ws.In.(type) {
	case *ssa.Store:
		target = c.M.AddrPath(x.Addr)
	case *ssa.MapUpdate:
		target = c.M.ValPath(x.Map)
	default:
		return "", false
	}
	if !strings.HasPrefix(target, recv+".") || strings.ContainsAny(target[len(recv)+1:], ".[*%") {
		return "", false
	}
	return "lazy cache fill: " + c.M.Key(fn) + " takes only the receiver and every call of it is dominated by a nil test of the cache field it initialises; behaviour-invisible", true
}

// writesGlobal: the written location is (inside) a package-level variable.
func writesGlobal(in ssa.Instruction) bool {
	var target ssa.Value
	switch x := in.(type) {
	case *ssa.Store:
		target = x.Addr
	case *ssa.MapUpdate:
		target = x.Map
	default:
		return false
	}
	for i := 0; i < 8 && target != nil; i++ {
		switch x := target.(type) {
		case *ssa.Global:
			return true
		case *ssa.UnOp:
			target = x.X
		case *ssa.FieldAddr:
			target = x.X
		case *ssa.IndexAddr:
			target = x.X
		case *ssa.ChangeType:
			target = x.X
		default:
			return false
		}
	}
	return false
}
