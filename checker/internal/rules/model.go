package rules

import (
	"go/types"
	"sort"
	"strings"

	"golang.org/x/tools/go/ssa"

	"verifcheck/internal/core"
)

// Entry sets are identified by exported API identity (DESIGN §2.2).

var dataMethodNames = []string{
	"Unserialize", "Validate", "Serialize", "ValidateCompatibility",
	"UnserializeType", "ValidateType", "SerializeType", "ReflectedType", "TypeID",
}

// serializableTypes returns the named types of package schema implementing schema.Serializable (by method names).
func (c *Ctx) serializableTypes() []*types.Named {
	sp := c.M.Types["schema"]
	if sp == nil {
		return nil
	}
	obj := sp.Scope().Lookup("Serializable")
	if obj == nil {
		c.R.Unresolved("MODEL", "interface schema.Serializable")
		return nil
	}
	impls := c.M.Implementers(obj.Type())
	var out []*types.Named
	for _, n := range impls {
		if n.Obj().Pkg() == sp {
			out = append(out, n)
		}
	}
	sort.Slice(out, func(i, j int) bool { return out[i].Obj().Name() < out[j].Obj().Name() })
	return out
}

// methodFn returns the source function of method `name` in the (pointer) method set of named, following promotion.
func (c *Ctx) methodFn(named *types.Named, name string) *ssa.Function {
	ms := types.NewMethodSet(types.NewPointer(named))
	for i := 0; i < ms.Len(); i++ {
		if f, ok := ms.At(i).Obj().(*types.Func); ok && f.Name() == name {
			fn := c.M.Prog.FuncValue(f.Origin())
			if fn == nil {
				return nil
			}
			return c.M.Source(fn)
		}
	}
	return nil
}

// entryData: the data-facing API of every Serializable implementer.
func (c *Ctx) entryData(names ...string) []*ssa.Function {
	if len(names) == 0 {
		names = dataMethodNames
	}
	seen := map[*ssa.Function]bool{}
	var out []*ssa.Function
	for _, n := range c.serializableTypes() {
		for _, mn := range names {
			if f := c.methodFn(n, mn); f != nil && !seen[f] && f.Blocks != nil {
				seen[f] = true
				out = append(out, f)
			}
		}
	}
	return out
}

func (c *Ctx) funcsByKeys(rule string, keys ...string) []*ssa.Function {
	var out []*ssa.Function
	for _, k := range keys {
		if f := c.fn(rule, k); f != nil {
			out = append(out, f)
		}
	}
	return out
}

// entryStep: step / signal calling API.
func (c *Ctx) entryStep() []*ssa.Function {
	var out []*ssa.Function
	for _, k := range []string{"schema.CallableSchema.CallStep", "schema.CallableSchema.CallSignal", "schema.CallableSchema.SelfSerialize",
		"schema.CallableStepSchema.Call", "schema.CallableStepSchema.CallSignal", "schema.CallableSignalSchema.Call"} {
		if f := c.fn("MODEL", k); f != nil {
			out = append(out, f)
		}
	}
	return out
}

// entryLoad: the loaders of wire-built schemas.
func (c *Ctx) entryLoad() []*ssa.Function {
	return c.funcsByKeys("MODEL", "schema.UnserializeSchema", "schema.UnserializeScope", "atp.client.ReadSchema")
}

// entryUnits: exported methods of UnitsDefinition and UnitDefinition.
func (c *Ctx) entryUnits() []*ssa.Function {
	var out []*ssa.Function
	for _, f := range c.M.Funcs {
		k := c.M.Key(f)
		if strings.HasPrefix(k, "schema.UnitsDefinition.") || strings.HasPrefix(k, "schema.UnitDefinition.") {
			if !strings.Contains(k, "$") && ast_IsExported(k[strings.LastIndex(k, ".")+1:]) {
				out = append(out, f)
			}
		}
	}
	return out
}

func ast_IsExported(name string) bool {
	return name != "" && name[0] >= 'A' && name[0] <= 'Z'
}

// isRecoverScope: fn has a deferred closure calling recover().
func isRecoverScope(fn *ssa.Function) bool {
	for _, b := range fn.Blocks {
		for _, in := range b.Instrs {
			d, ok := in.(*ssa.Defer)
			if !ok {
				continue
			}
			var target *ssa.Function
			switch v := d.Call.Value.(type) {
			case *ssa.MakeClosure:
				target, _ = v.Fn.(*ssa.Function)
			case *ssa.Function:
				target = v
			}
			if target != nil && callsRecover(target) {
				return true
			}
		}
	}
	return false
}

func callsRecover(fn *ssa.Function) bool {
	for _, b := range fn.Blocks {
		for _, in := range b.Instrs {
			if c, ok := in.(*ssa.Call); ok {
				if bi, ok := c.Call.Value.(*ssa.Builtin); ok && bi.Name() == "recover" {
					return true
				}
			}
		}
	}
	return false
}

// reachableOutsideRecover: functions reachable from roots, not descending below recover scopes
// (the recover scope itself is included, its callees are not: a panic below it is caught).
func (c *Ctx) reachableOutsideRecover(roots []*ssa.Function) map[*ssa.Function]bool {
	return c.M.Reachable(roots, isRecoverScope)
}

// funcShort gives "Type.method" without the package for messages.
func (c *Ctx) short(fn *ssa.Function) string { return c.M.Key(fn) }

var _ = core.Discharged
