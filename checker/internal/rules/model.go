package rules

import (
	"go/types"
	"sort"
	"strings"

	"golang.org/x/tools/go/ssa"

	"verifcheck/internal/core"
)

// Entry sets are identified by exported API identity (DESIGN §2.2).

var dataMethodNames = []string{
	"Unserialize", "Validate", "Serialize", "ValidateCompatibility",
	"UnserializeType", "ValidateType", "SerializeType", "ReflectedType", "TypeID",
}

// serializableTypes returns the named types of package schema implementing schema.Serializable (by method names).
func (c *Ctx) serializableTypes() []*types.Named {
	sp := c.M.Types["schema"]
	if sp == nil {
		return nil
	}
	obj := sp.Scope().Lookup("Serializable")
	if obj == nil {
		c.R.Unresolved("MODEL", "interface schema.Serializable")
		return nil
	}
	impls := c.M.Implementers(obj.Type())
	var out []*types.Named
	for _, n := range impls {
		if n.Obj().Pkg() == sp {
			out = append(out, n)
		}
	}
	sort.Slice(out, func(i, j int) bool { return out[i].Obj().Name() < out[j].Obj().Name() })
	return out
}

// methodFn returns the source function of method `name` in the (pointer) method set of named, following promotion.
func (c *Ctx) methodFn(named *types.Named, name string) *ssa.Function {
	ms := types.NewMethodSet(types.NewPointer(named))
	for i := 0; i < ms.Len(); i++ {
		if f, ok := ms.At(i).Obj().(*types.Func); ok && f.Name() == name {
			fn := c.M.Prog.FuncValue(f.Origin())
			if fn == nil {
				return nil
			}
			return c.M.Source(fn)
		}
	}
	return nil
}

// methodBody is methodFn seen through a trampoline (see trampolineTarget): where the work of the method is done.
func (c *Ctx) methodBody(named *types.Named, name string) *ssa.Function {
	return c.trampolineTarget(c.methodFn(named, name))
}

// trampolineTarget: a method whose whole body is `return recv.other(params..., <fresh values>)` - the public face of an
// operation whose work is done by a same-receiver method that takes some context in addition (ValidateCompatibility ->
// validateCompatibilityIn, which carries the set of object pairs under comparison) - stands for that method: the rules
// anchor on the body, whatever it is called.
func (c *Ctx) trampolineTarget(fn *ssa.Function) *ssa.Function {
	return trampolineOf(c.M, fn)
}

// trampolineOf: fn, or the function its whole body hands over to - a single static call of a function of the module
// that receives every parameter of fn (plus, possibly, fresh values, globals or fields: `return worker(p, os.Args)`)
// and whose results are returned as they are.
func trampolineOf(m *core.Module, fn *ssa.Function) *ssa.Function {
	for hop := 0; hop < 3; hop++ {
		next := trampolineStep(m, fn)
		if next == fn {
			return fn
		}
		fn = next
	}
	return fn
}

func trampolineStep(m *core.Module, fn *ssa.Function) *ssa.Function {
	if fn == nil || len(fn.Blocks) != 1 {
		return fn
	}
	var call *ssa.Call
	for _, in := range fn.Blocks[0].Instrs {
		switch x := in.(type) {
		case *ssa.Call:
			if call != nil {
				return fn
			}
			call = x
		case *ssa.Return:
			if call == nil {
				return fn
			}
			switch {
			case len(x.Results) == 0 && call.Call.Signature().Results().Len() == 0:
			case len(x.Results) == 1 && x.Results[0] == ssa.Value(call):
			default:
				// `return worker(...)` with several results: each is the extract of the same index
				for i, r := range x.Results {
					ex, ok := r.(*ssa.Extract)
					if !ok || ex.Tuple != ssa.Value(call) || ex.Index != i {
						return fn
					}
				}
			}
		case *ssa.MakeMap, *ssa.MakeInterface, *ssa.Alloc, *ssa.Store, *ssa.UnOp, *ssa.ChangeType, *ssa.Extract, *ssa.FieldAddr, *ssa.Field:
			// building the fresh context argument, copying a value receiver, loading a global or a field to hand over
		case *ssa.DebugRef:
		default:
			return fn
		}
	}
	if call == nil {
		return fn
	}
	callee := core.StaticBody(&call.Call)
	if callee == nil || callee == fn || len(call.Call.Args) < len(fn.Params) {
		return fn
	}
	if (callee.Signature.Recv() == nil) != (fn.Signature.Recv() == nil) {
		return fn
	}
	// (compared on the function as it is called: for a method of a generic type that is the instance whose receiver is
	// spelled with the caller's own type parameters)
	if inst := call.Call.StaticCallee(); fn.Signature.Recv() != nil && (inst == nil || inst.Signature.Recv() == nil ||
		!types.Identical(inst.Signature.Recv().Type(), fn.Signature.Recv().Type())) {
		return fn
	}
	// every parameter is handed on (a method hands on its receiver first)
	for i, p := range fn.Params {
		handed := false
		for j, a := range call.Call.Args {
			if a == ssa.Value(p) {
				handed = true
			}
			// a value receiver is passed on as a copy loaded from a local
			if ld, ok := a.(*ssa.UnOp); ok && i == 0 && j == 0 && fn.Signature.Recv() != nil {
				if _, isAlloc := ld.X.(*ssa.Alloc); isAlloc {
					handed = true
				}
			}
		}
		if !handed {
			return fn
		}
	}
	if fn.Signature.Recv() != nil && call.Call.Args[0] != ssa.Value(fn.Params[0]) {
		if ld, ok := call.Call.Args[0].(*ssa.UnOp); !ok {
			return fn
		} else if _, isAlloc := ld.X.(*ssa.Alloc); !isAlloc {
			return fn
		}
	}
	return callee
}

// compatName normalises the names under which the compatibility operation appears in calls.
func compatName(n string) string {
	if n == "validateCompatibilityIn" {
		return "ValidateCompatibility"
	}
	return n
}

// isOpDispatcher: a package-level function that performs a data operation on its first parameter on the caller's
// behalf: its body invokes (or, after a type assertion, calls) the operation on that parameter and hands the result
// back. `validateCompatibilityIn(schema, typeOrData, compared)` is the one there is.
func (c *Ctx) isOpDispatcher(fn *ssa.Function) (string, bool) {
	if fn == nil || fn.Signature.Recv() != nil || len(fn.Params) < 2 || fn.Blocks == nil {
		return "", false
	}
	if v, ok := c.dispatchMemo[fn]; ok {
		return v, v != ""
	}
	if c.dispatchMemo == nil {
		c.dispatchMemo = map[*ssa.Function]string{}
	}
	name := ""
	for _, b := range fn.Blocks {
		for _, in := range b.Instrs {
			call, ok := in.(*ssa.Call)
			if !ok || !call.Call.IsInvoke() {
				continue
			}
			recv := call.Call.Value
			if ta, ok := recv.(*ssa.TypeAssert); ok {
				recv = ta.X
			}
			if ex, ok := recv.(*ssa.Extract); ok {
				if ta, ok := ex.Tuple.(*ssa.TypeAssert); ok {
					recv = ta.X
				}
			}
			if recv != ssa.Value(fn.Params[0]) {
				continue
			}
			switch n := compatName(call.Call.Method.Name()); n {
			case "Unserialize", "Validate", "Serialize", "ValidateCompatibility":
				if len(call.Call.Args) >= 1 && call.Call.Args[0] == ssa.Value(fn.Params[1]) {
					name = n
				}
			}
		}
	}
	c.dispatchMemo[fn] = name
	return name, name != ""
}

// opCall: the data operation a call performs on a schema value, under its public name: an invoke or a static method call
// of Unserialize / Validate / Serialize / ValidateCompatibility (validateCompatibilityIn is reported as
// ValidateCompatibility), or a call of a dispatcher. recv is the schema value operated on, arg the data / schema handed
// to it.
func (c *Ctx) opCall(cc *ssa.CallCommon) (name string, recv, arg ssa.Value, ok bool) {
	switch {
	case cc.IsInvoke():
		name, recv = compatName(cc.Method.Name()), cc.Value
		if len(cc.Args) > 0 {
			arg = cc.Args[0]
		}
	default:
		sc := cc.StaticCallee()
		if sc == nil {
			return "", nil, nil, false
		}
		if n, isDisp := c.isOpDispatcher(sc); isDisp {
			return n, cc.Args[0], cc.Args[1], true
		}
		if sc.Signature.Recv() == nil || len(cc.Args) == 0 {
			return "", nil, nil, false
		}
		name, recv = compatName(sc.Name()), cc.Args[0]
		if len(cc.Args) > 1 {
			arg = cc.Args[1]
		}
	}
	switch name {
	case "Unserialize", "Validate", "Serialize", "ValidateCompatibility":
		return name, recv, arg, true
	}
	return "", nil, nil, false
}

// entryData: the data-facing API of every Serializable implementer.
func (c *Ctx) entryData(names ...string) []*ssa.Function {
	if len(names) == 0 {
		names = dataMethodNames
	}
	seen := map[*ssa.Function]bool{}
	var out []*ssa.Function
	for _, n := range c.serializableTypes() {
		for _, mn := range names {
			if f := c.methodFn(n, mn); f != nil && !seen[f] && f.Blocks != nil {
				seen[f] = true
				out = append(out, f)
			}
		}
	}
	return out
}

func (c *Ctx) funcsByKeys(rule string, keys ...string) []*ssa.Function {
	var out []*ssa.Function
	for _, k := range keys {
		if f := c.fn(rule, k); f != nil {
			out = append(out, f)
		}
	}
	return out
}

// entryStep: step / signal calling API.
func (c *Ctx) entryStep() []*ssa.Function {
	var out []*ssa.Function
	for _, k := range []string{"schema.CallableSchema.CallStep", "schema.CallableSchema.CallSignal", "schema.CallableSchema.SelfSerialize",
		"schema.CallableStepSchema.Call", "schema.CallableStepSchema.CallSignal", "schema.CallableSignalSchema.Call"} {
		if f := c.fn("MODEL", k); f != nil {
			out = append(out, f)
		}
	}
	return out
}

// entryLoad: the loaders of wire-built schemas.
func (c *Ctx) entryLoad() []*ssa.Function {
	return c.funcsByKeys("MODEL", "schema.UnserializeSchema", "schema.UnserializeScope", "atp.client.ReadSchema")
}

// entryUnits: exported methods of UnitsDefinition and UnitDefinition.
func (c *Ctx) entryUnits() []*ssa.Function {
	var out []*ssa.Function
	for _, f := range c.M.Funcs {
		k := c.M.Key(f)
		if strings.HasPrefix(k, "schema.UnitsDefinition.") || strings.HasPrefix(k, "schema.UnitDefinition.") {
			if !strings.Contains(k, "$") && ast_IsExported(k[strings.LastIndex(k, ".")+1:]) {
				out = append(out, f)
			}
		}
	}
	return out
}

func ast_IsExported(name string) bool {
	return name != "" && name[0] >= 'A' && name[0] <= 'Z'
}

// isRecoverScope: fn has a deferred closure calling recover().
func isRecoverScope(fn *ssa.Function) bool {
	for _, b := range fn.Blocks {
		for _, in := range b.Instrs {
			d, ok := in.(*ssa.Defer)
			if !ok {
				continue
			}
			var target *ssa.Function
			switch v := d.Call.Value.(type) {
			case *ssa.MakeClosure:
				target, _ = v.Fn.(*ssa.Function)
			case *ssa.Function:
				target = v
			}
			if target != nil && callsRecover(target) {
				return true
			}
		}
	}
	return false
}

func callsRecover(fn *ssa.Function) bool {
	for _, b := range fn.Blocks {
		for _, in := range b.Instrs {
			if c, ok := in.(*ssa.Call); ok {
				if bi, ok := c.Call.Value.(*ssa.Builtin); ok && bi.Name() == "recover" {
					return true
				}
			}
		}
	}
	return false
}

// reachableOutsideRecover: functions reachable from roots, not descending below recover scopes
// (the recover scope itself is included, its callees are not: a panic below it is caught).
func (c *Ctx) reachableOutsideRecover(roots []*ssa.Function) map[*ssa.Function]bool {
	return c.M.Reachable(roots, isRecoverScope)
}

// funcShort gives "Type.method" without the package for messages.
func (c *Ctx) short(fn *ssa.Function) string { return c.M.Key(fn) }

var _ = core.Discharged

// opCallStatic is opCall for callers without a Ctx: dispatchers are recognised by shape only (a package-level function
// named like the operation's internal form).
func opCallStatic(cc *ssa.CallCommon) (name string, recv, arg ssa.Value, ok bool) {
	if cc.IsInvoke() {
		name, recv = compatName(cc.Method.Name()), cc.Value
		if len(cc.Args) > 0 {
			arg = cc.Args[0]
		}
	} else if sc := cc.StaticCallee(); sc != nil && len(cc.Args) > 0 {
		name, recv = compatName(sc.Name()), cc.Args[0]
		if len(cc.Args) > 1 {
			arg = cc.Args[1]
		}
	}
	switch name {
	case "Unserialize", "Validate", "Serialize", "ValidateCompatibility":
		return name, recv, arg, true
	}
	return "", nil, nil, false
}
