package rules

import (
	"go/token"
	"go/types"
	"strings"

	"golang.org/x/tools/go/ssa"

	"verifcheck/internal/core"
)

// R-DISABLED: "no disabled property is in use" is a presence rule of the object, and the four data operations apply
// the same presence rules. Every method of PropertySchema that hands data to its TypeValue (Unserialize, Validate,
// Serialize, data-mode ValidateCompatibility) is an obligation: every return of that method whose error may be nil is
// reached only with the receiver's Disabled flag known to be false. The flag is known false
//   - on the false edge of a branch on a load of receiver.Disabled,
//   - on the nil edge of a comparison of h(receiver)'s result, or when h(receiver)'s result is returned as the error,
//     for a helper h all of whose possibly-nil returns are themselves reached only with Disabled false.
// Returns dominated by a successful type assertion of the argument to a schema type are schema mode and exempt.
// Sibling rule: the four methods are compared with each other; nothing is keyed on statement text or position.

func (c *Ctx) ruleDisabled(rule string) {
	var methods []*ssa.Function
	for _, fn := range c.M.SortedFuncs(c.scopePkg("schema")) {
		if fn.Signature.Recv() == nil || len(fn.Params) == 0 || !isNamedPtr(fn.Params[0].Type(), "PropertySchema") {
			continue
		}
		if forwardsDataToTypeValue(fn) {
			methods = append(methods, fn)
		}
	}
	memo := map[*ssa.Function]int{}
	for _, fn := range methods {
		ei := core.ErrorResultIndex(fn.Signature)
		if ei < 0 {
			continue
		}
		k := key(rule, c.M.Key(fn), "a disabled property is refused on every accepting return")
		enabled := core.MustHold(fn, c.enabledFact(fn, memo))
		bad := ""
		n := 0
		for _, r := range core.ReturnsOf(fn) {
			n++
			e := core.RetVal(r, ei)
			switch {
			case errDefinitelyNonNil(e, r.Block()):
			case enabled[r.Key()]:
			case c.isEnablednessHelperCall(e, fn, memo):
			case schemaModeAt(r.Block(), fn):
			default:
				bad = c.M.InstrPos(r)
			}
		}
		if bad == "" {
			c.R.Ok(rule, k, c.M.Pos(fn.Pos()), "data operation of a property", sprintf("%d returns: each is rejecting, schema mode, or reached only with Disabled == false", n))
		} else {
			c.R.Bad(rule, k, bad, "this return can accept data although the property is disabled",
				c.M.Key(fn)+" hands the data to the property's type and may return a nil error without having looked at Disabled: the sibling operations refuse a disabled property, so a value accepted here is refused by them (Serialize emits what Unserialize of the same schema rejects)")
		}
	}
	// schema mode (C15 "a producer that can never be consumed is always rejected"): a property that refuses every use
	// of it cannot consume a producer that always supplies it. In the schema-mode part of the property's compatibility
	// check, an accepting return is reached with Disabled false (flag test or the enabledness helper), or only where
	// the producer's property was found not required.
	for _, fn := range methods {
		if compatName(fn.Name()) != "ValidateCompatibility" {
			continue
		}
		ei := core.ErrorResultIndex(fn.Signature)
		enabled := core.MustHold(fn, c.enabledFact(fn, memo))
		// the producer does not always supply the property: its property is not required, or is disabled itself (it
		// refuses to emit any value that uses it - and a schema stays compatible with itself)
		neverSupplied := core.MustHold(fn, func(cond core.Cond) bool {
			switch x := cond.V.(type) {
			case *ssa.Call:
				callee := x.Call.StaticCallee()
				return !cond.True && callee != nil && callee.Name() == "Required" && len(x.Call.Args) == 1 && x.Call.Args[0] != ssa.Value(fn.Params[0])
			case *ssa.UnOp:
				if fa, ok := x.X.(*ssa.FieldAddr); ok && cond.True && fa.X != ssa.Value(fn.Params[0]) {
					if p, ok := fa.X.Type().Underlying().(*types.Pointer); ok {
						if st, ok := p.Elem().Underlying().(*types.Struct); ok && st.Field(fa.Field).Name() == "Disabled" {
							return true
						}
					}
				}
			}
			return false
		})
		k := key(rule, c.M.Key(fn), "a disabled property does not accept a producer that requires it")
		bad, n := "", 0
		for _, r := range core.ReturnsOf(fn) {
			if !schemaModeAt(r.Block(), fn) {
				continue
			}
			e := core.RetVal(r, ei)
			if errDefinitelyNonNil(e, r.Block()) {
				continue
			}
			n++
			if !(enabled[r.Key()] || c.isEnablednessHelperCall(e, fn, memo) || neverSupplied[r.Key()]) {
				bad = c.M.InstrPos(r)
			}
		}
		switch {
		case n == 0:
			c.R.Unresolved(rule, "accepting returns in the schema-mode part of PropertySchema.ValidateCompatibility")
		case bad == "":
			c.R.Ok(rule, k, c.M.Pos(fn.Pos()), "schema-mode compatibility of a property", sprintf("%d accepting returns: each carries the disabled rule's verdict, is reached with Disabled == false, or only where the producer's property is not required or is disabled itself", n))
		default:
			c.R.Bad(rule, k, bad, "a disabled property is reported compatible with a producer that requires the property",
				"every value such a producer emits sets the property, and Unserialize, Validate, Serialize and the data-mode check of the consumer refuse every value that does: the producer can never be consumed")
		}
	}
	// schema mode, the mirror image: a producer that declares a property but has it disabled never supplies it (its own
	// Serialize refuses every value that uses it). Where the object comparison decides whether a property the consumer
	// requires is supplied - a loop over the consumer's properties that calls Required() on the entry and rejects - the
	// decision must look at the Disabled flag of the producer's property, not only at its presence.
	for _, fn := range c.compatFuncs() {
		for _, l := range c.findMapLoops(c.M, fn) {
			if l.kind != "range" || len(fn.Params) == 0 || !reachedFrom(l.mapVal, fn.Params[0], 0) {
				continue
			}
			mt, ok := l.mapVal.Type().Underlying().(*types.Map)
			if !ok || !isNamedPtr(mt.Elem(), "PropertySchema") {
				continue
			}
			isEntry := func(v ssa.Value) bool {
				ex, ok := core.Unwrap(v).(*ssa.Extract)
				if !ok || ex.Index != 2 {
					return false
				}
				nx, ok := ex.Tuple.(*ssa.Next)
				return ok && nx.Block() == l.header
			}
			requiredAsked, rejects := false, false
			var flagRead ssa.Instruction
			for b := range l.blocks {
				for _, in := range b.Instrs {
					switch x := in.(type) {
					case *ssa.Call:
						if sc := x.Call.StaticCallee(); sc != nil && sc.Name() == "Required" && len(x.Call.Args) == 1 && isEntry(x.Call.Args[0]) {
							requiredAsked = true
						}
						// a helper of the package that is asked about what the producer offers and reads its Disabled flag,
						// with the loop branching on the answer
						if h := core.StaticBody(&x.Call); h != nil && h.Pkg == fn.Pkg && x.Referrers() != nil {
							branched := false
							for _, r := range *x.Referrers() {
								switch y := r.(type) {
								case *ssa.If:
									branched = true
								case *ssa.UnOp:
									if y.Op == token.NOT && y.Referrers() != nil {
										for _, r2 := range *y.Referrers() {
											if _, isIf := r2.(*ssa.If); isIf {
												branched = true
											}
										}
									}
								}
							}
							if branched {
								for ai, a := range x.Call.Args {
									if ai >= len(h.Params) || isEntry(a) || reachedFrom(a, fn.Params[0], 0) {
										continue
									}
									prm := h.Params[ai]
									for _, hb := range h.Blocks {
										for _, hin := range hb.Instrs {
											ld, ok := hin.(*ssa.UnOp)
											if !ok {
												continue
											}
											fa, ok := ld.X.(*ssa.FieldAddr)
											if !ok || !isNamedPtr(fa.X.Type(), "PropertySchema") || fieldName(fa.X.Type(), fa.Field) != "Disabled" {
												continue
											}
											if derivedFrom(fa.X, func(v ssa.Value) bool { return v == ssa.Value(prm) }) {
												flagRead = x
											}
										}
									}
								}
							}
						}
					case *ssa.Return:
						if ei := core.ErrorResultIndex(fn.Signature); ei >= 0 && errDefinitelyNonNil(core.RetVal(x, ei), b) {
							rejects = true
						}
					case *ssa.UnOp:
						fa, ok := x.X.(*ssa.FieldAddr)
						if !ok || !isNamedPtr(fa.X.Type(), "PropertySchema") || fieldName(fa.X.Type(), fa.Field) != "Disabled" {
							continue
						}
						if isEntry(fa.X) || reachedFrom(fa.X, fn.Params[0], 0) {
							continue // the consumer's own flag
						}
						// used as a branch condition
						if refs := x.Referrers(); refs != nil {
							for _, r := range *refs {
								if _, isIf := r.(*ssa.If); isIf {
									flagRead = x
								}
							}
						}
					}
				}
			}
			if !requiredAsked || !rejects {
				continue
			}
			// no accepting return goes round the test: each lies behind the loop's exit
			if ei := core.ErrorResultIndex(fn.Signature); ei >= 0 {
				k2 := key(rule, c.M.Key(fn), "no accepting return goes round the presence test of the required properties")
				exit := l.exitBlock()
				bad := ""
				nAcc := 0
				for _, r := range core.ReturnsOf(fn) {
					if !core.IsNilConst(core.RetVal(r, ei)) {
						continue
					}
					nAcc++
					if exit == nil || !(exit == r.Block() || exit.Dominates(r.Block())) {
						bad = c.M.InstrPos(r)
					}
				}
				if bad == "" {
					c.R.Ok(rule, k2, c.M.Pos(l.pos), "presence test for the consumer's required properties", sprintf("%d accepting return(s), each behind the exit of the loop over the required properties", nAcc))
				} else {
					c.R.Bad(rule, k2, bad, "the object comparison can accept without having looked for the consumer's required properties",
						"this return is reached without the loop that refuses a producer lacking a required property - or declaring it but never supplying it (disabled): an early exit \"as many fields as properties, so none is missing\" counts keys, and the rule is not about keys")
				}
			}
			k := key(rule, c.M.Key(fn), "a required property is not counted as supplied by a producer that has it disabled")
			if flagRead != nil {
				c.R.Ok(rule, k, c.M.InstrPos(flagRead), "presence test for the consumer's required properties (schema mode)", "the loop branches on the Disabled flag of the producer's property")
			} else {
				c.R.Bad(rule, k, c.M.Pos(l.pos), "the presence test for a required property never looks at the producer's Disabled flag",
					"a producer that declares the property but has it disabled never emits it (its Serialize refuses every value that uses it): the consumer, which requires it, refuses everything the producer can emit, and the two are reported compatible")
			}
		}
	}
	c.R.Floor(rule, 4)
}

func isNamedPtr(t types.Type, name string) bool {
	p, ok := t.Underlying().(*types.Pointer)
	if !ok {
		return false
	}
	n, ok := p.Elem().(*types.Named)
	return ok && n.Obj().Name() == name
}

// forwardsDataToTypeValue: the method invokes a data operation on the value loaded from receiver.TypeValue.
func forwardsDataToTypeValue(fn *ssa.Function) bool {
	for _, b := range fn.Blocks {
		for _, in := range b.Instrs {
			call, ok := in.(*ssa.Call)
			if !ok {
				continue
			}
			_, opRecv, _, isOp := opCallStatic(&call.Call)
			if !isOp {
				continue
			}
			if ci, ok := opRecv.(*ssa.ChangeInterface); ok {
				opRecv = ci.X
			}
			if ld, ok := opRecv.(*ssa.UnOp); ok && ld.Op == token.MUL {
				if fa, ok := ld.X.(*ssa.FieldAddr); ok && fa.X == ssa.Value(fn.Params[0]) && fieldName(fa.X.Type(), fa.Field) == "TypeValue" {
					return true
				}
			}
		}
	}
	return false
}

// enabledFact: the branch condition establishes receiver.Disabled == false.
func (c *Ctx) enabledFact(fn *ssa.Function, memo map[*ssa.Function]int) func(core.Cond) bool {
	recv := ssa.Value(fn.Params[0])
	return func(cond core.Cond) bool {
		if ld, ok := cond.V.(*ssa.UnOp); ok && ld.Op == token.MUL {
			if fa, ok := ld.X.(*ssa.FieldAddr); ok && fa.X == recv && fieldName(fa.X.Type(), fa.Field) == "Disabled" {
				return !cond.True
			}
		}
		if x, neq, ok := core.NilCmp(cond.V); ok {
			// err == nil edge: true edge of ==, false edge of !=
			if cond.True != neq && c.isEnablednessHelperCall(x, fn, memo) {
				return true
			}
		}
		return false
	}
}

// isEnablednessHelperCall: v is the error result of h(receiver) where h returns nil only if Disabled is false.
func (c *Ctx) isEnablednessHelperCall(v ssa.Value, fn *ssa.Function, memo map[*ssa.Function]int) bool {
	call, ok := v.(*ssa.Call)
	if !ok {
		return false
	}
	h, ok := call.Call.Value.(*ssa.Function)
	if !ok || len(h.Blocks) == 0 || len(call.Call.Args) == 0 || call.Call.Args[0] != ssa.Value(fn.Params[0]) {
		return false
	}
	if len(h.Params) == 0 || !isNamedPtr(h.Params[0].Type(), "PropertySchema") || h.Signature.Results().Len() != 1 || !core.IsErrorType(h.Signature.Results().At(0).Type()) {
		return false
	}
	switch memo[h] {
	case 1:
		return true
	case 2, 3:
		return false
	}
	memo[h] = 3 // in progress: recursion is not a proof
	enabled := core.MustHold(h, c.enabledFact(h, memo))
	good := true
	for _, r := range core.ReturnsOf(h) {
		e := core.RetVal(r, 0)
		if errDefinitelyNonNil(e, r.Block()) || enabled[r.Key()] || c.isEnablednessHelperCall(e, h, memo) {
			continue
		}
		good = false
	}
	if good {
		memo[h] = 1
	} else {
		memo[h] = 2
	}
	return good
}

// errDefinitelyNonNil: the returned error is a freshly built value, or is known non-nil by a branch condition.
func errDefinitelyNonNil(e ssa.Value, b *ssa.BasicBlock) bool {
	switch x := e.(type) {
	case *ssa.MakeInterface:
		switch y := x.X.(type) {
		case *ssa.Alloc:
			return true
		case *ssa.UnOp:
			// a struct value loaded from a fresh alloc (BadArgumentError{...})
			_, ok := y.X.(*ssa.Alloc)
			return ok
		}
		if _, isPtr := x.X.Type().Underlying().(*types.Pointer); !isPtr {
			return true // a non-pointer concrete value in an interface is never a nil interface
		}
		return false
	case *ssa.Call:
		switch core.StaticCalleeName(&x.Call) {
		case "fmt.Errorf", "errors.New":
			return true
		}
	case *ssa.Phi:
		for _, ed := range x.Edges {
			if !errDefinitelyNonNil(ed, b) {
				return false
			}
		}
		return len(x.Edges) > 0
	}
	for _, cond := range core.CondsAt(b) {
		if x, neq, ok := core.NilCmp(cond.V); ok && x == e && cond.True == neq {
			return true
		}
	}
	return false
}

// schemaModeAt: the block is reached only after a successful type assertion of a parameter to an SDK schema type.
func schemaModeAt(b *ssa.BasicBlock, fn *ssa.Function) bool {
	for _, cond := range core.CondsAt(b) {
		if !cond.True {
			continue
		}
		tup, ok := core.CommaOk(cond.V)
		if !ok {
			continue
		}
		ta, ok := tup.(*ssa.TypeAssert)
		if !ok {
			continue
		}
		isParam := false
		for _, p := range fn.Params[1:] {
			if ta.X == ssa.Value(p) {
				isParam = true
			}
		}
		if isParam && strings.Contains(ta.AssertedType.String(), "pluginsdk/schema.") {
			return true
		}
	}
	return false
}
