package rules

import (
	"go/token"
	"go/types"
	"sort"
	"strings"

	"golang.org/x/tools/go/ssa"

	"verifcheck/internal/core"
)

// Helpers of R-SIGCHAN: the hand-over marker protocol, critical sections, and the clauses that tie the end of a run to
// the close of the caller's signal channel.

// instrBefore: a comes before b in the same block, or a's block strictly dominates b's.
func instrBefore(a, b ssa.Instruction) bool {
	if a.Block() == b.Block() {
		for _, in := range a.Block().Instrs {
			if in == a {
				return true
			}
			if in == b {
				return false
			}
		}
		return false
	}
	return a.Block().Dominates(b.Block())
}

// stateLocked: the state mutex of the ATP client is certainly held at in.
func (c *Ctx) stateLocked(fn *ssa.Function, in ssa.Instruction, ro *atpRoles) bool {
	m := ro.mutexOf[ro.clientT]
	for _, l := range c.lockedAt(fn, in) {
		if strings.HasSuffix(l, "."+m) {
			return true
		}
	}
	return false
}

// condInSectionOf: the condition was established in the critical section (of the client's state mutex) in which `in`
// runs: by an instruction of fn, by a call of fn whose outcome implies it, or by the callers that hold the mutex when
// they call fn.
func (c *Ctx) condInSectionOf(fn *ssa.Function, cond core.Cond, in ssa.Instruction, ro *atpRoles) bool {
	if anchor := cond.Anchor(); anchor != nil {
		return anchor.Parent() == fn && c.sameCriticalSection(fn, anchor, in, ro)
	}
	if !cond.Entry {
		return false
	}
	m := ro.mutexOf[ro.clientT]
	for _, l := range c.lockedAt(fn, in) {
		if strings.HasSuffix(l, "."+m) && c.sectionOf(fn, in, l) == c.entryMark(fn) {
			return true
		}
	}
	return false
}

// sameCriticalSection: a comes before b, the state mutex is held at both, and no path from a to b releases it.
func (c *Ctx) sameCriticalSection(fn *ssa.Function, a, b ssa.Instruction, ro *atpRoles) bool {
	// "before": a dominates b, or at least leads to it (the test sits in one case of a switch that merges before b; that
	// the fact holds on every path to b is the caller's business, here the question is only the section)
	if !(instrBefore(a, b) || (a.Block() != b.Block() && blockReaches(a.Block(), b.Block(), nil))) || !c.stateLocked(fn, a, ro) || !c.stateLocked(fn, b, ro) {
		return false
	}
	m := ro.mutexOf[ro.clientT]
	isUnlock := func(in ssa.Instruction) bool {
		call, ok := in.(*ssa.Call)
		return ok && mutexOp(&call.Call) == "unlock" && strings.HasSuffix(c.M.AddrPath(call.Call.Args[0]), "."+m)
	}
	after := func(in ssa.Instruction) int {
		for i, x := range in.Block().Instrs {
			if x == in {
				return i + 1
			}
		}
		return 0
	}
	// releases reachable from a before b is reached
	var releases []ssa.Instruction
	seen := map[*ssa.BasicBlock]bool{}
	var walk func(blk *ssa.BasicBlock, from int)
	walk = func(blk *ssa.BasicBlock, from int) {
		for i := from; i < len(blk.Instrs); i++ {
			in := blk.Instrs[i]
			if in == b {
				return
			}
			if isUnlock(in) {
				releases = append(releases, in)
				return
			}
		}
		for _, s := range blk.Succs {
			if !seen[s] {
				seen[s] = true
				walk(s, 0)
			}
		}
	}
	walk(a.Block(), after(a))
	// b must not be reachable from any of them
	for _, r := range releases {
		seen2 := map[*ssa.BasicBlock]bool{}
		found := false
		var walk2 func(blk *ssa.BasicBlock, from int)
		walk2 = func(blk *ssa.BasicBlock, from int) {
			for i := from; i < len(blk.Instrs) && !found; i++ {
				if blk.Instrs[i] == b {
					found = true
				}
			}
			for _, s := range blk.Succs {
				if !seen2[s] && !found {
					seen2[s] = true
					walk2(s, 0)
				}
			}
		}
		walk2(r.Block(), after(r))
		if found {
			return false
		}
	}
	return true
}

// clientFieldStore: in stores to field `name` of the client struct (not of a value under construction).
func (c *Ctx) clientFieldStore(in ssa.Instruction, ro *atpRoles) (name string, val ssa.Value, ok bool) {
	st, isStore := in.(*ssa.Store)
	if !isStore {
		return "", nil, false
	}
	fa, isFA := st.Addr.(*ssa.FieldAddr)
	if !isFA || structOf(fa.X.Type()) == nil || structOf(fa.X.Type()).Obj() != ro.clientT.Obj() {
		return "", nil, false
	}
	if _, fresh := fa.X.(*ssa.Alloc); fresh {
		return "", nil, false
	}
	return fieldName(fa.X.Type(), fa.Field), st.Val, true
}

// reachesOnlyThrough: every path from the entry of fn to target passes `through`. Branches on a value already decided
// on the path are followed consistently (the same comma-ok is tested twice around an unlock).
func reachesOnlyThrough(fn *ssa.Function, target, through ssa.Instruction) bool {
	bad := false
	visited := map[string]bool{}
	var walk func(b *ssa.BasicBlock, known map[ssa.Value]bool, passed bool)
	walk = func(b *ssa.BasicBlock, known map[ssa.Value]bool, passed bool) {
		if bad {
			return
		}
		var ks []string
		for v, t := range known {
			ks = append(ks, sprintf("%s=%v", v.Name(), t))
		}
		sort.Strings(ks)
		sig := sprintf("%d/%v/%s", b.Index, passed, strings.Join(ks, ","))
		if visited[sig] {
			return
		}
		visited[sig] = true
		if len(visited) > 1<<16 {
			bad = true
			return
		}
		for _, in := range b.Instrs {
			if in == through {
				passed = true
			}
			if in == target {
				if !passed {
					bad = true
				}
				return
			}
		}
		if len(b.Instrs) == 0 {
			return
		}
		if ifi, ok := b.Instrs[len(b.Instrs)-1].(*ssa.If); ok {
			v, truth := ifi.Cond, true
			for {
				if u, ok := v.(*ssa.UnOp); ok && u.Op == token.NOT {
					v, truth = u.X, !truth
					continue
				}
				break
			}
			if t, decided := known[v]; decided {
				if t == truth {
					walk(b.Succs[0], known, passed)
				} else {
					walk(b.Succs[1], known, passed)
				}
				return
			}
			k1 := map[ssa.Value]bool{v: truth}
			k2 := map[ssa.Value]bool{v: !truth}
			for kv, kt := range known {
				k1[kv], k2[kv] = kt, kt
			}
			walk(b.Succs[0], k1, passed)
			walk(b.Succs[1], k2, passed)
			return
		}
		for _, s := range b.Succs {
			walk(s, known, passed)
		}
	}
	if len(fn.Blocks) == 0 {
		return false
	}
	walk(fn.Blocks[0], map[ssa.Value]bool{}, false)
	return !bad
}

// handOver describes the marker protocol around one send of the read loop on a caller's signal channel.
type handOver struct {
	fn     *ssa.Function
	send   ssa.Instruction
	ch     ssa.Value // the channel value sent on
	marker string    // client field that names the channel being handed over
	why    string    // "" if the protocol holds on the sending side
}

// sendSideMarker: the channel the read loop is about to send on is published in a field of the client, in the critical
// section of the table lookup that yielded it; the publication lies on every path to the send; the field is only ever
// changed again after the send, under the mutex, by the sending function itself.
func (c *Ctx) sendSideMarker(fn *ssa.Function, send ssa.Instruction, ch ssa.Value, ro *atpRoles) handOver {
	ho := handOver{fn: fn, send: send, ch: ch}
	var lookup ssa.Instruction
	if ex, ok := ch.(*ssa.Extract); ok {
		if lk, ok := ex.Tuple.(*ssa.Lookup); ok {
			lookup = lk
		}
	} else if lk, ok := ch.(*ssa.Lookup); ok {
		lookup = lk
	}
	if lookup == nil {
		ho.why = "the channel sent on is not the direct result of a table lookup in the sending function"
		return ho
	}
	var pub ssa.Instruction
	for _, b := range fn.Blocks {
		for _, in := range b.Instrs {
			if name, val, ok := c.clientFieldStore(in, ro); ok && val == ch {
				if _, isChan := val.Type().Underlying().(*types.Chan); isChan {
					pub, ho.marker = in, name
				}
			}
		}
	}
	if pub == nil {
		ho.why = "the channel being sent on is not published in a field of the client"
		return ho
	}
	if !c.sameCriticalSection(fn, lookup, pub, ro) {
		ho.why = "the channel is published in " + ho.marker + " outside the critical section of the table lookup that yielded it"
		return ho
	}
	if !reachesOnlyThrough(fn, send, pub) {
		ho.why = "a path reaches the send without publishing the channel in " + ho.marker
		return ho
	}
	for _, g := range c.M.SortedFuncs(c.scopePkg("atp")) {
		for _, b := range g.Blocks {
			for _, in := range b.Instrs {
				name, _, ok := c.clientFieldStore(in, ro)
				if !ok || name != ho.marker || in == pub {
					continue
				}
				if g != fn || !send.Block().Dominates(in.Block()) || in.Block() == send.Block() || !c.stateLocked(g, in, ro) {
					ho.why = "the marker " + ho.marker + " is changed at " + c.M.InstrPos(in) + ", which is not after the send in the sending function under the state mutex"
					return ho
				}
			}
		}
	}
	return ho
}

// closeSpares: the close (of channel value ch, in fn) sits on the not-equal outcome of a comparison of ch with the
// marker field, loaded in the same critical section.
func (c *Ctx) closeSpares(fn *ssa.Function, cl ssa.Instruction, ch ssa.Value, marker string, ro *atpRoles) bool {
	for _, cond := range core.CondsAt(cl.Block()) {
		bin, ok := cond.V.(*ssa.BinOp)
		if !ok || (bin.Op != token.EQL && bin.Op != token.NEQ) {
			continue
		}
		equalOutcome := (bin.Op == token.EQL) == cond.True
		if equalOutcome {
			continue
		}
		for _, pr := range [][2]ssa.Value{{bin.X, bin.Y}, {bin.Y, bin.X}} {
			if pr[0] != ch || !c.isFieldLoad(pr[1], ro.clientT, marker) {
				continue
			}
			if ld, ok := pr[1].(ssa.Instruction); ok && c.sameCriticalSection(fn, ld, cl, ro) {
				return true
			}
		}
	}
	return false
}

// deferredCloseFlag: on the equal outcome of the marker comparison, the closing function stores true to a bool field of
// the client (under the mutex); the sending function, after the send, on every path to its return loads that field under
// the mutex and closes the channel it sent on where the field is true. Returns the flag's name, "" if not established.
func (c *Ctx) deferredClose(fn *ssa.Function, ch ssa.Value, marker string, ho handOver, ro *atpRoles) (string, string) {
	flag := ""
	for _, b := range fn.Blocks {
		eq := false
		for _, cond := range core.CondsAt(b) {
			bin, ok := cond.V.(*ssa.BinOp)
			if !ok || (bin.Op != token.EQL && bin.Op != token.NEQ) || (bin.Op == token.EQL) != cond.True {
				continue
			}
			for _, pr := range [][2]ssa.Value{{bin.X, bin.Y}, {bin.Y, bin.X}} {
				if pr[0] == ch && c.isFieldLoad(pr[1], ro.clientT, marker) {
					eq = true
				}
			}
		}
		if !eq {
			continue
		}
		for _, in := range b.Instrs {
			if name, val, ok := c.clientFieldStore(in, ro); ok && c.stateLocked(fn, in, ro) {
				if cst, ok := val.(*ssa.Const); ok && cst.Value != nil && cst.Value.String() == "true" {
					flag = name
				}
			}
		}
	}
	if flag == "" {
		return "", "on the outcome 'this is the channel being handed over' nothing asks the read loop to close it"
	}
	// sending side: after the send, every path to a return passes a load of the flag under the mutex, and a close of
	// the sent channel exists on its true outcome
	var closes bool
	for _, b := range ho.fn.Blocks {
		for _, in := range b.Instrs {
			call, ok := in.(*ssa.Call)
			if !ok {
				continue
			}
			if bi, ok := call.Call.Value.(*ssa.Builtin); !ok || bi.Name() != "close" || call.Call.Args[0] != ho.ch {
				continue
			}
			for _, cond := range core.CondsAt(b) {
				if cond.True && c.isFieldLoad(cond.V, ro.clientT, flag) && c.stateLocked(ho.fn, in, ro) {
					closes = true
				}
			}
		}
	}
	if !closes {
		return flag, "the sending function never closes the channel it sent on where " + flag + " is set"
	}
	seen := map[*ssa.BasicBlock]bool{}
	var walk func(b *ssa.BasicBlock) bool
	walk = func(b *ssa.BasicBlock) bool {
		for _, in := range b.Instrs {
			if ld, ok := in.(*ssa.UnOp); ok && c.isFieldLoad(ld, ro.clientT, flag) && c.stateLocked(ho.fn, in, ro) {
				return true
			}
			switch in.(type) {
			case *ssa.Return:
				return false
			case *ssa.Panic:
				return true
			}
		}
		for _, s := range b.Succs {
			if seen[s] {
				continue
			}
			seen[s] = true
			if !walk(s) {
				return false
			}
		}
		return true
	}
	for _, s := range ho.send.Block().Succs {
		seen[s] = true
		if !walk(s) {
			return flag, "a path from the send to the end of the sending function does not look at " + flag
		}
	}
	return flag, ""
}

// tableDeleteNear: the close is accompanied, in its critical section, by the removal of an entry from the signal table
// (before or after it).
func (c *Ctx) tableDeleteNear(fn *ssa.Function, cl ssa.Instruction, ro *atpRoles) bool {
	for _, b := range fn.Blocks {
		for _, in := range b.Instrs {
			call, ok := in.(*ssa.Call)
			if !ok {
				continue
			}
			bi, ok := call.Call.Value.(*ssa.Builtin)
			if !ok || bi.Name() != "delete" || !strings.HasSuffix(c.M.ValPath(call.Call.Args[0]), "."+ro.sigTable) {
				continue
			}
			if c.sameCriticalSection(fn, in, cl, ro) || c.sameCriticalSection(fn, cl, in, ro) {
				return true
			}
		}
	}
	return false
}

// sigTableChan: v is a channel read from the client's signal table (possibly through the comma-ok form or a phi).
func (c *Ctx) sigTableChan(v ssa.Value, ro *atpRoles) bool {
	seen := map[ssa.Value]bool{}
	var walk func(v ssa.Value) bool
	walk = func(v ssa.Value) bool {
		if seen[v] {
			return false
		}
		seen[v] = true
		switch x := v.(type) {
		case *ssa.Extract:
			return walk(x.Tuple)
		case *ssa.Lookup:
			return strings.HasSuffix(c.M.ValPath(x.X), "."+ro.sigTable)
		case *ssa.Phi:
			for _, e := range x.Edges {
				if walk(e) {
					return true
				}
			}
		case *ssa.ChangeType:
			return walk(x.X)
		}
		return false
	}
	return walk(v)
}

// lookupOf: the table lookup instruction a channel value comes from directly.
func lookupOf(v ssa.Value) ssa.Instruction {
	if ex, ok := v.(*ssa.Extract); ok {
		if lk, ok := ex.Tuple.(*ssa.Lookup); ok {
			return lk
		}
	}
	if lk, ok := v.(*ssa.Lookup); ok {
		return lk
	}
	return nil
}

// everyPathClosesSig: every path from `from` to the end of the critical section (release of the state mutex, return)
// passes a close of a signal-table channel, the hand-over of that close to the read loop (a store of true to a bool
// field of the client on the outcome "this is the channel being handed over"), or the outcome "the run has no signal
// channel" of a comma-ok lookup in the signal table.
func (c *Ctx) everyPathClosesSig(fn *ssa.Function, from ssa.Instruction, ro *atpRoles) bool {
	m := ro.mutexOf[ro.clientT]
	handedOver := func(b *ssa.BasicBlock) bool {
		for _, cond := range core.CondsAt(b) {
			bin, ok := cond.V.(*ssa.BinOp)
			if !ok || (bin.Op != token.EQL && bin.Op != token.NEQ) || (bin.Op == token.EQL) != cond.True {
				continue
			}
			for _, pr := range [][2]ssa.Value{{bin.X, bin.Y}, {bin.Y, bin.X}} {
				if !c.sigTableChan(pr[0], ro) {
					continue
				}
				if ld, ok := pr[1].(*ssa.UnOp); ok {
					if fa, ok := ld.X.(*ssa.FieldAddr); ok && structOf(fa.X.Type()) != nil && structOf(fa.X.Type()).Obj() == ro.clientT.Obj() {
						return true
					}
				}
			}
		}
		return false
	}
	seen := map[*ssa.BasicBlock]bool{}
	var walk func(b *ssa.BasicBlock, idx int) bool
	walk = func(b *ssa.BasicBlock, idx int) bool {
		for i := idx; i < len(b.Instrs); i++ {
			switch x := b.Instrs[i].(type) {
			case *ssa.Call:
				if bi, ok := x.Call.Value.(*ssa.Builtin); ok && bi.Name() == "close" && c.sigTableChan(x.Call.Args[0], ro) {
					return true
				}
				if mutexOp(&x.Call) == "unlock" && strings.HasSuffix(c.M.AddrPath(x.Call.Args[0]), "."+m) {
					return false
				}
			case *ssa.Store:
				if _, val, ok := c.clientFieldStore(x, ro); ok && handedOver(b) {
					if cst, ok := val.(*ssa.Const); ok && cst.Value != nil && cst.Value.String() == "true" {
						return true
					}
				}
			case *ssa.Return:
				return false
			case *ssa.Panic:
				return true
			case *ssa.If:
				v, truth := x.Cond, true
				for {
					if u, ok := v.(*ssa.UnOp); ok && u.Op == token.NOT {
						v, truth = u.X, !truth
						continue
					}
					break
				}
				if ex, ok := v.(*ssa.Extract); ok && ex.Index == 1 {
					if lk, ok := ex.Tuple.(*ssa.Lookup); ok && lk.CommaOk && strings.HasSuffix(c.M.ValPath(lk.X), "."+ro.sigTable) {
						found := b.Succs[0]
						if !truth {
							found = b.Succs[1]
						}
						if seen[found] {
							return true
						}
						seen[found] = true
						return walk(found, 0)
					}
				}
			}
		}
		for _, s := range b.Succs {
			if seen[s] {
				continue
			}
			seen[s] = true
			if !walk(s, 0) {
				return false
			}
		}
		return len(b.Succs) > 0
	}
	idx := 0
	for i, in := range from.Block().Instrs {
		if in == from {
			idx = i + 1
		}
	}
	return walk(from.Block(), idx)
}

// everyPathSat: every path from the start of `start` to a return passes an instruction for which sat holds (a panic
// ends a path harmlessly). A branch on a value that an earlier branch of the path decided is followed consistently:
// the same comma-ok is often tested on both sides of an unlock.
func everyPathSat(start *ssa.BasicBlock, sat func(b *ssa.BasicBlock, in ssa.Instruction) bool) bool {
	ok := true
	visited := map[string]bool{}
	var walk func(b *ssa.BasicBlock, known map[ssa.Value]bool)
	walk = func(b *ssa.BasicBlock, known map[ssa.Value]bool) {
		if !ok {
			return
		}
		var ks []string
		for v, t := range known {
			ks = append(ks, sprintf("%s=%v", v.Name(), t))
		}
		sort.Strings(ks)
		sig := sprintf("%d/%s", b.Index, strings.Join(ks, ","))
		if visited[sig] {
			return
		}
		visited[sig] = true
		if len(visited) > 1<<16 {
			ok = false
			return
		}
		for _, in := range b.Instrs {
			if sat(b, in) {
				return
			}
			switch in.(type) {
			case *ssa.Return:
				ok = false
				return
			case *ssa.Panic:
				return
			}
		}
		if len(b.Instrs) == 0 {
			return
		}
		if ifi, isIf := b.Instrs[len(b.Instrs)-1].(*ssa.If); isIf {
			v, truth := ifi.Cond, true
			for {
				if u, isNot := v.(*ssa.UnOp); isNot && u.Op == token.NOT {
					v, truth = u.X, !truth
					continue
				}
				break
			}
			if t, decided := known[v]; decided {
				if t == truth {
					walk(b.Succs[0], known)
				} else {
					walk(b.Succs[1], known)
				}
				return
			}
			k1 := map[ssa.Value]bool{v: truth}
			k2 := map[ssa.Value]bool{v: !truth}
			for kv, kt := range known {
				k1[kv], k2[kv] = kt, kt
			}
			walk(b.Succs[0], k1)
			walk(b.Succs[1], k2)
			return
		}
		for _, s := range b.Succs {
			walk(s, known)
		}
	}
	walk(start, map[ssa.Value]bool{})
	return ok
}

// R-STICKY (C08 "every pending or later Execute return an error rather than a fabricated result"): a stream that failed
// to decode cannot be used again - the decoder cannot find the start of the next message, and where replies are told
// apart by position only (ATP v1) one item too many or too few hands every later call the reply of another. The client
// keeps the first failure in an error-typed field; obligations:
//
//	(a) every failure of a read from the stream decoder (and, in the handshake, every error return after the hello
//	    message was read: unsupported version, schema that does not unserialize) records into that field on every path;
//	(b) every place where an execution starts to depend on the stream - the registration of a run for the read loop, a
//	    direct read of a reply - is reached only where the field was found nil: for a registration in the critical
//	    section of the insert, for a direct read under a mutex that is still held at the read;
//	(c) nothing stores a nil constant into the field.
func (c *Ctx) ruleSticky(rule string) {
	ro := c.roles()
	if !ro.ok {
		return
	}
	sticky := ""
	if st := fieldsOf(ro.clientT); st != nil {
		for i := 0; i < st.NumFields(); i++ {
			if types.Identical(st.Field(i).Type(), types.Universe.Lookup("error").Type()) {
				if sticky != "" {
					c.R.Unresolved(rule, "the one error-typed field of the ATP client that remembers a failed stream (several candidates)")
					return
				}
				sticky = st.Field(i).Name()
			}
		}
	}
	if sticky == "" {
		c.R.Bad(rule, key(rule, "atp.client", "the client remembers a failed stream"), "-", "the ATP client has no field that remembers that its stream has failed",
			"after a reply that did not decode, the next Execute reads from the middle of the damaged stream: on ATP v1, where replies carry no run ID, it and every later call return the reply of an earlier step as their own success")
		return
	}
	storesSticky := func(in ssa.Instruction) bool {
		name, _, ok := c.clientFieldStore(in, ro)
		return ok && name == sticky
	}
	// functions all of whose paths store into the field
	must := map[*ssa.Function]bool{}
	for round := 0; round < 4; round++ {
		for _, fn := range c.M.SortedFuncs(c.scopePkg("atp")) {
			if must[fn] || !c.methodOrClosureOf(fn, ro.clientT) || len(fn.Blocks) == 0 {
				continue
			}
			// "if field == nil { field = err }" records as well: the field is non-nil afterwards either way
			if everyPathSat(fn.Blocks[0], func(b *ssa.BasicBlock, in ssa.Instruction) bool {
				if storesSticky(in) {
					return true
				}
				if ifi, ok := in.(*ssa.If); ok {
					if v, _, isNil := core.NilCmp(ifi.Cond); isNil && c.isFieldLoad(core.Unwrap(v), ro.clientT, sticky) {
						for _, s := range b.Succs {
							for _, x := range s.Instrs {
								if storesSticky(x) {
									return true
								}
							}
						}
					}
				}
				if call, ok := in.(*ssa.Call); ok {
					for _, callee := range c.M.Callees(&call.Call) {
						if must[callee] {
							return true
						}
					}
				}
				return false
			}) {
				must[fn] = true
			}
		}
	}
	records := func(b *ssa.BasicBlock, in ssa.Instruction) bool {
		if storesSticky(in) {
			return true
		}
		if call, ok := in.(*ssa.Call); ok {
			for _, callee := range c.M.Callees(&call.Call) {
				if must[callee] {
					return true
				}
			}
		}
		return false
	}
	// (a)
	nA := 0
	for _, fn := range c.M.SortedFuncs(c.scopePkg("atp")) {
		if !c.methodOrClosureOf(fn, ro.clientT) {
			continue
		}
		cnt := 0
		for _, b := range fn.Blocks {
			for _, in := range b.Instrs {
				call, ok := in.(*ssa.Call)
				if !ok || !strings.HasSuffix(core.StaticCalleeName(&call.Call), "cbor/v2.Decoder).Decode") {
					continue
				}
				var errBlock, okBlock *ssa.BasicBlock
				if refs := call.Referrers(); refs != nil {
					for _, r := range *refs {
						if bin, ok := r.(*ssa.BinOp); ok {
							if _, neq, isNil := core.NilCmp(bin); isNil {
								for _, r2 := range *bin.Referrers() {
									if ifi, ok := r2.(*ssa.If); ok {
										errBlock, okBlock = ifi.Block().Succs[0], ifi.Block().Succs[1]
										if !neq {
											errBlock, okBlock = okBlock, errBlock
										}
									}
								}
							}
						}
					}
				}
				if errBlock == nil {
					continue
				}
				nA++
				cnt++
				k := key(rule, c.M.Key(fn), sprintf("failed read #%d from the stream is remembered", cnt))
				if everyPathSat(errBlock, records) {
					c.R.Ok(rule, k, c.M.InstrPos(call), "error branch of a read from the stream decoder", "every path from it to the function's return stores into "+sticky+" (directly or through a callee that always does)")
				} else {
					c.R.Bad(rule, k, c.M.InstrPos(call), "a failed read from the stream is not remembered",
						"a path from the error branch returns without recording the failure in "+sticky+": the next Execute uses the damaged stream as if nothing had happened and can return another step's reply as its own success")
				}
				// the handshake: whatever else makes it fail after the hello message was read
				mi, isMI := call.Call.Args[len(call.Call.Args)-1].(*ssa.MakeInterface)
				if !isMI || !strings.HasSuffix(typeStr(mi.X.Type()), "HelloMessage") {
					continue
				}
				ei := core.ErrorResultIndex(fn.Signature)
				if ei < 0 {
					continue
				}
				k2 := key(rule, c.M.Key(fn), "every failure of the handshake after the hello message is remembered")
				good := everyPathSat(okBlock, func(b *ssa.BasicBlock, in ssa.Instruction) bool {
					if records(b, in) {
						return true
					}
					if ret, ok := in.(*ssa.Return); ok && core.IsNilConst(core.RetVal(ret, ei)) {
						return true
					}
					return false
				})
				nA++
				if good {
					c.R.Ok(rule, k2, c.M.InstrPos(call), "error returns of the handshake", "every path from the successful read of the hello message to a return stores into "+sticky+" or returns a nil error")
				} else {
					c.R.Bad(rule, k2, c.M.InstrPos(call), "the handshake can fail without the client remembering it",
						"a path from the read of the hello message returns an error (unsupported version, schema that does not unserialize) without recording it in "+sticky+": a later Execute talks to a peer whose protocol version was never established")
				}
			}
		}
	}
	// (b)
	foundNil := func(cond core.Cond) bool {
		v, neq, isNil := core.NilCmp(cond.V)
		return isNil && neq != cond.True && c.isFieldLoad(core.Unwrap(v), ro.clientT, sticky)
	}
	stickyLoadUnder := func(fn *ssa.Function, held map[string]bool) bool {
		// a load of the field, in fn, under one of the mutexes in held
		for _, b := range fn.Blocks {
			for _, in := range b.Instrs {
				if ld, ok := in.(*ssa.UnOp); ok && c.isFieldLoad(ld, ro.clientT, sticky) {
					for _, l := range c.lockedAt(fn, in) {
						if held[l[strings.LastIndex(l, ".")+1:]] {
							return true
						}
					}
				}
			}
		}
		return false
	}
	heldAt := func(fn *ssa.Function, in ssa.Instruction) map[string]bool {
		out := map[string]bool{}
		for _, l := range c.lockedAt(fn, in) {
			out[l[strings.LastIndex(l, ".")+1:]] = true
		}
		return out
	}
	var gated func(fn *ssa.Function, at ssa.Instruction, held map[string]bool, depth int) bool
	gated = func(fn *ssa.Function, at ssa.Instruction, held map[string]bool, depth int) bool {
		if core.MustHold(fn, foundNil)[at.Block()] && stickyLoadUnder(fn, held) {
			return true
		}
		if depth == 0 {
			return false
		}
		sites := 0
		for _, g := range c.M.SortedFuncs(c.scopePkg("atp")) {
			for _, b := range g.Blocks {
				for _, in := range b.Instrs {
					call, ok := in.(ssa.CallInstruction)
					if !ok {
						continue
					}
					for _, callee := range c.M.Callees(call.Common()) {
						if callee == fn {
							sites++
							if !gated(g, in, held, depth-1) {
								return false
							}
						}
					}
				}
			}
		}
		return sites > 0
	}
	nB := 0
	for _, fn := range c.M.SortedFuncs(c.scopePkg("atp")) {
		if !c.methodOrClosureOf(fn, ro.clientT) || fn == ro.readLoop {
			continue
		}
		for _, b := range fn.Blocks {
			for _, in := range b.Instrs {
				switch x := in.(type) {
				case *ssa.MapUpdate:
					if !c.isFieldLoad(x.Map, ro.clientT, ro.pending) {
						continue
					}
					nB++
					k := key(rule, c.M.Key(fn), "a run is registered only while the stream has not failed")
					ok := core.MustHold(fn, foundNil)[b] && c.stateLocked(fn, in, ro)
					if ok {
						// the load that decided must lie in the critical section of the insert
						ok = false
						for _, cond := range core.AcceptedConds(fn, foundNil) {
							if c.condInSectionOf(fn, cond, in, ro) {
								ok = true
							}
						}
					}
					if ok {
						c.R.Ok(rule, k, c.M.InstrPos(in), "insertion into the pending table", "on every path "+sticky+" was found nil in the critical section of the insert: a run registers before the failure (and is failed with the others) or is refused")
					} else {
						c.R.Bad(rule, k, c.M.InstrPos(in), "a run can be registered on a stream that has failed",
							"the insert is not preceded, in its critical section, by finding "+sticky+" nil: the run waits for a reply from a stream that no longer delivers any (or gets one that is not its own)")
					}
				case *ssa.Call:
					if !strings.HasSuffix(core.StaticCalleeName(&x.Call), "cbor/v2.Decoder).Decode") || c.decodesInLoop(fn) {
						continue
					}
					if mi, isMI := x.Call.Args[len(x.Call.Args)-1].(*ssa.MakeInterface); isMI && strings.HasSuffix(typeStr(mi.X.Type()), "HelloMessage") {
						continue // the handshake is the first read
					}
					nB++
					k := key(rule, c.M.Key(fn), "a reply is read directly only while the stream has not failed")
					held := heldAt(fn, in)
					if len(held) > 0 && gated(fn, in, held, 3) {
						c.R.Ok(rule, k, c.M.InstrPos(in), "direct read of a reply (no run IDs)", "on every path to it (through every caller) "+sticky+" was found nil, under a mutex that is still held at the read")
					} else {
						c.R.Bad(rule, k, c.M.InstrPos(in), "a reply is read from a stream that may have failed before",
							"replies without run IDs are matched to steps by position: after a failed read the decoder is out of step, and this read returns the reply to an earlier step as this step's success")
					}
				}
			}
		}
	}
	// (c)
	for _, fn := range c.M.SortedFuncs(c.scopePkg("atp")) {
		for _, b := range fn.Blocks {
			for _, in := range b.Instrs {
				if name, val, ok := c.clientFieldStore(in, ro); ok && name == sticky && core.IsNilConst(val) {
					c.R.Bad(rule, key(rule, c.M.Key(fn), "the remembered failure is never cleared"), c.M.InstrPos(in), sticky+" is reset to nil",
						"the stream does not recover: after the reset, Execute uses it again")
				}
			}
		}
	}
	if nA < 4 || nB < 2 {
		c.R.Unresolved(rule, sprintf("reads from the stream decoder (%d, expected >= 4 obligations) / places that start to depend on the stream (%d, expected >= 2)", nA, nB))
	}
}

// R-SIGNONFATAL (C07 "every accepted work-start gets exactly one terminal message"): the terminal message of a run is
// its work-done message or a step-fatal error, and the step's own goroutine sends exactly one of them (R-EXACTLYONE).
// Whatever the server reports on behalf of a *signal* - undecodable payload, unknown run, unknown signal, failing or
// panicking handler - concerns a run whose step is still running and will send its terminal message later: such a
// report must not be step-fatal. Obligation: no error report reachable from the signal branch of the server's message
// dispatch (the code under MessageID == MessageTypeSignal, its callees, and the goroutines they start) sets StepFatal
// to the constant true.
func (c *Ctx) ruleSignalNonFatal(rule string) {
	ro := c.roles()
	if !ro.ok {
		return
	}
	pkg := c.M.Types["atp"]
	if pkg == nil {
		c.R.Unresolved(rule, "package atp")
		return
	}
	sigConst, _ := pkg.Scope().Lookup("MessageTypeSignal").(*types.Const)
	if sigConst == nil {
		c.R.Unresolved(rule, "constant atp.MessageTypeSignal")
		return
	}
	want := sigConst.Val().ExactString()
	var branchRoots []*ssa.Function
	type direct struct {
		fn *ssa.Function
		b  *ssa.BasicBlock
	}
	var branchBlocks []direct
	for _, fn := range c.M.SortedFuncs(c.scopePkg("atp")) {
		if !c.methodOrClosureOf(fn, ro.serverT) {
			continue
		}
		for _, b := range fn.Blocks {
			inBranch := false
			for _, cond := range core.CondsAt(b) {
				bin, ok := cond.V.(*ssa.BinOp)
				if !ok || bin.Op != token.EQL || !cond.True {
					continue
				}
				for _, side := range []ssa.Value{bin.X, bin.Y} {
					if cst, ok := side.(*ssa.Const); ok && cst.Value != nil && cst.Value.ExactString() == want {
						other := bin.X
						if side == bin.X {
							other = bin.Y
						}
						if strings.HasSuffix(c.M.ValPath(other), ".MessageID") {
							inBranch = true
						}
					}
				}
			}
			if !inBranch {
				continue
			}
			branchBlocks = append(branchBlocks, direct{fn, b})
			for _, in := range b.Instrs {
				if ci, ok := in.(ssa.CallInstruction); ok {
					branchRoots = append(branchRoots, c.M.Callees(ci.Common())...)
				}
			}
		}
	}
	if len(branchBlocks) == 0 {
		c.R.Unresolved(rule, "signal branch of the server's message dispatch (MessageID == MessageTypeSignal)")
		return
	}
	reach := c.M.Reachable(branchRoots, nil) // follows go statements too
	isFatalStore := func(in ssa.Instruction) bool {
		st, ok := in.(*ssa.Store)
		if !ok {
			return false
		}
		fa, ok := st.Addr.(*ssa.FieldAddr)
		if !ok || structOf(fa.X.Type()) == nil || structOf(fa.X.Type()).Obj().Name() != "ServerError" || fieldName(fa.X.Type(), fa.Field) != "StepFatal" {
			return false
		}
		// anything but the constant false may be true (a flag computed from the message, say)
		cst, ok := st.Val.(*ssa.Const)
		return !(ok && cst.Value != nil && cst.Value.String() == "false")
	}
	n := 0
	report := func(fn *ssa.Function, in ssa.Instruction) {
		n++
		c.R.Bad(rule, key(rule, c.M.Key(fn), sprintf("report #%d on the signal path is not step-fatal", n)), c.M.InstrPos(in),
			"an error reported on behalf of a signal is marked step-fatal",
			"the run the signal names is still running and sends its own terminal message later: the client sees two terminal messages for one work-start (its Execute fails on the first; the work-done that follows belongs to no waiting run)")
	}
	for _, d := range branchBlocks {
		for _, in := range d.b.Instrs {
			if isFatalStore(in) {
				report(d.fn, in)
			}
		}
	}
	var fns []*ssa.Function
	for f := range reach {
		fns = append(fns, f)
	}
	sort.Slice(fns, func(i, j int) bool { return c.M.Key(fns[i]) < c.M.Key(fns[j]) })
	nServer := 0
	for _, f := range fns {
		if !c.methodOrClosureOf(f, ro.serverT) {
			continue
		}
		nServer++
		for _, b := range f.Blocks {
			for _, in := range b.Instrs {
				if isFatalStore(in) {
					report(f, in)
				}
			}
		}
	}
	if n == 0 {
		c.R.Ok(rule, key(rule, "signal path", "no step-fatal report"), "-", "reports on behalf of signals",
			sprintf("%d blocks under MessageID == MessageTypeSignal and %d server functions reachable from them (goroutines included): none builds a ServerError with StepFatal set to true", len(branchBlocks), nServer))
	}
}

// R-RELOCK (C06 / C08 "never leaves a caller blocked"): sync.Mutex is not re-entrant. A call made while a mutex of the
// client (or of the server session) is certainly held must not reach - synchronously - a Lock of the same mutex: the
// goroutine would wait for itself, holding the mutex, and every other caller would queue behind it. Obligation, per
// function of package atp that takes one of these mutexes: the mutex is not held at any of its (transitive, synchronous)
// call sites.
func (c *Ctx) ruleRelock(rule string) {
	ro := c.roles()
	if !ro.ok {
		return
	}
	fieldOf := func(path string) string { return path[strings.LastIndex(path, ".")+1:] }
	// which mutex fields does a function lock itself?
	locksOwn := map[*ssa.Function]map[string]bool{}
	for _, fn := range c.M.SortedFuncs(c.scopePkg("atp")) {
		for _, b := range fn.Blocks {
			for _, in := range b.Instrs {
				if call, ok := in.(*ssa.Call); ok && mutexOp(&call.Call) == "lock" {
					p := c.M.AddrPath(call.Call.Args[0])
					if !strings.Contains(p, ".") {
						continue
					}
					if locksOwn[fn] == nil {
						locksOwn[fn] = map[string]bool{}
					}
					locksOwn[fn][fieldOf(p)] = true
				}
			}
		}
	}
	// transitive (synchronous) closure
	acquires := func(fn *ssa.Function) map[string]*ssa.Function {
		out := map[string]*ssa.Function{}
		for g := range c.reachSync(fn) {
			for m := range locksOwn[g] {
				if out[m] == nil || c.M.Key(g) < c.M.Key(out[m]) {
					out[m] = g
				}
			}
		}
		return out
	}
	n := 0
	for _, fn := range c.M.SortedFuncs(c.scopePkg("atp")) {
		if !c.methodOrClosureOf(fn, ro.clientT) && !c.methodOrClosureOf(fn, ro.serverT) {
			continue
		}
		cnt := map[string]int{}
		for _, b := range fn.Blocks {
			for _, in := range b.Instrs {
				call, ok := in.(*ssa.Call)
				if !ok || mutexOp(&call.Call) != "" {
					continue
				}
				held := map[string]bool{}
				for _, l := range c.lockedAt(fn, in) {
					if strings.Contains(l, ".") {
						held[fieldOf(l)] = true
					}
				}
				if len(held) == 0 {
					continue
				}
				for _, callee := range c.M.Callees(&call.Call) {
					if !c.methodOrClosureOf(callee, ro.clientT) && !c.methodOrClosureOf(callee, ro.serverT) {
						continue
					}
					acq := acquires(callee)
					n++
					cnt[callee.Name()]++
					k := key(rule, c.M.Key(fn), sprintf("call #%d of %s with a mutex held does not take that mutex again", cnt[callee.Name()], callee.Name()))
					clash := ""
					for m := range held {
						if g := acq[m]; g != nil {
							clash = m + " (locked in " + c.M.Key(g) + ")"
						}
					}
					if clash == "" {
						c.R.Ok(rule, k, c.M.InstrPos(call), "call made inside a critical section", "neither the callee nor anything it calls synchronously locks a mutex that is held here")
					} else {
						c.R.Bad(rule, k, c.M.InstrPos(call), "a function that takes the mutex is called with that mutex held",
							"sync.Mutex is not re-entrant: the call reaches a Lock of "+clash+" while it is held at the call site; the goroutine waits for itself for ever, and with it everyone who needs the mutex (every pending and later Execute, Close)")
					}
				}
			}
		}
	}
	if n < 3 {
		c.R.Unresolved(rule, sprintf("calls of client / server methods made inside critical sections (%d found, at least 3 expected)", n))
	}
	// read locks are not re-entrant either: once a writer waits (Close), a second RLock of a goroutine that already
	// holds one queues behind the writer, which waits for the first - both wait for ever. Obligation, per call made
	// between an RLock and its RUnlock: nothing the callee runs synchronously takes that RWMutex, for reading or writing.
	rwOp := func(cc *ssa.CallCommon) (string, string) {
		switch core.StaticCalleeName(cc) {
		case "(*sync.RWMutex).RLock":
			return "rlock", c.M.AddrPath(cc.Args[0])
		case "(*sync.RWMutex).RUnlock":
			return "runlock", c.M.AddrPath(cc.Args[0])
		case "(*sync.RWMutex).Lock":
			return "lock", c.M.AddrPath(cc.Args[0])
		}
		return "", ""
	}
	takesRW := map[*ssa.Function]map[string]bool{}
	for _, fn := range c.M.SortedFuncs(c.scopePkg("atp")) {
		for _, b := range fn.Blocks {
			for _, in := range b.Instrs {
				if call, ok := in.(*ssa.Call); ok {
					if op, p := rwOp(&call.Call); (op == "rlock" || op == "lock") && strings.Contains(p, ".") {
						if takesRW[fn] == nil {
							takesRW[fn] = map[string]bool{}
						}
						takesRW[fn][fieldOf(p)] = true
					}
				}
			}
		}
	}
	for _, fn := range c.M.SortedFuncs(c.scopePkg("atp")) {
		var rlocks []*ssa.Call
		for _, b := range fn.Blocks {
			for _, in := range b.Instrs {
				if call, ok := in.(*ssa.Call); ok {
					if op, p := rwOp(&call.Call); op == "rlock" && strings.Contains(p, ".") {
						rlocks = append(rlocks, call)
					}
				}
			}
		}
		cnt := 0
		for _, l := range rlocks {
			_, lp := rwOp(&l.Call)
			field := fieldOf(lp)
			for _, b := range fn.Blocks {
				for _, in := range b.Instrs {
					call, ok := in.(*ssa.Call)
					if !ok || call == l || !instrDominates(l, call) {
						continue
					}
					if op, _ := rwOp(&call.Call); op != "" {
						continue
					}
					// released in between?
					released := false
					for _, ub := range fn.Blocks {
						for _, uin := range ub.Instrs {
							if u, ok := uin.(*ssa.Call); ok {
								if op, p := rwOp(&u.Call); op == "runlock" && fieldOf(p) == field && instrDominates(l, u) && instrDominates(u, call) {
									released = true
								}
							}
						}
					}
					if released {
						continue
					}
					for _, callee := range c.M.Callees(&call.Call) {
						if !c.methodOrClosureOf(callee, ro.clientT) && !c.methodOrClosureOf(callee, ro.serverT) {
							continue
						}
						cnt++
						k := key(rule, c.M.Key(fn), sprintf("call #%d of %s with %s read-held does not take it again", cnt, callee.Name(), field))
						clash := ""
						for g := range c.reachSync(callee) {
							if takesRW[g][field] {
								clash = c.M.Key(g)
							}
						}
						if clash == "" {
							c.R.Ok(rule, k, c.M.InstrPos(call), "call made while a read lock is held", "nothing the callee runs synchronously locks that RWMutex")
						} else {
							c.R.Bad(rule, k, c.M.InstrPos(call), "a function that takes the RWMutex is called with its read lock held",
								"read locks are not re-entrant: once a writer waits for "+field+" (Close), the second RLock in "+clash+" queues behind the writer, which waits for the first read lock to be released - the caller and the writer wait for each other for ever")
						}
					}
				}
			}
		}
	}
}

// R-STARTGATE (C06 "Close returns ... under every interleaving of Execute calls and Close"): once the peer has been told
// that the client is done it reads nothing more. A run that is registered (its read loop started, Close waiting for
// that loop) but whose work start is written after the client-done message can never be answered: the write fails, the
// run is forgotten, and the read loop - with nobody left to tell it - waits for a message that never comes. The two
// writes must exclude each other: obligation
//
//	(1) the client has a sync.RWMutex; some client method makes, between RLock and RUnlock of it, one call that reaches
//	    both the insertion into the pending table and a write to the connection, and the inserting function is not
//	    reachable any other way;
//	(2) in the method that sets the done flag, every write to the connection is made with that RWMutex write-locked.
func (c *Ctx) ruleStartGate(rule string) {
	ro := c.roles()
	if !ro.ok {
		return
	}
	gate := ""
	if st := fieldsOf(ro.clientT); st != nil {
		for i := 0; i < st.NumFields(); i++ {
			if isNamed(st.Field(i).Type(), "sync", "RWMutex") {
				gate = st.Field(i).Name()
			}
		}
	}
	k1 := key(rule, "atp.client", "a run is registered and its work start written in one read-locked section")
	k2 := key(rule, "atp.client", "the client-done message is written with the same lock write-held")
	if gate == "" {
		c.R.Bad(rule, k1, "-", "nothing keeps Close from telling the peer it is done between a run's registration and its work start",
			"the client has no lock that the start of a run shares with Close: Close can write the client-done message after Execute has registered its run and started the read loop but before the work start is out; the peer stops reading, the work start fails, and the read loop (and Close, which waits for it) is left waiting for ever on a transport the peer's end does not close")
		return
	}
	rwOp := func(cc *ssa.CallCommon) string {
		n := core.StaticCalleeName(cc)
		if !strings.HasPrefix(n, "(*sync.RWMutex).") || len(cc.Args) == 0 || !strings.HasSuffix(c.M.AddrPath(cc.Args[0]), "."+gate) {
			return ""
		}
		return strings.TrimPrefix(n, "(*sync.RWMutex).")
	}
	insertsPending := func(f *ssa.Function) bool {
		for _, b := range f.Blocks {
			for _, in := range b.Instrs {
				if mu, ok := in.(*ssa.MapUpdate); ok && c.isFieldLoad(mu.Map, ro.clientT, ro.pending) {
					return true
				}
			}
		}
		return false
	}
	encodes := func(f *ssa.Function) bool {
		for _, b := range f.Blocks {
			for _, in := range b.Instrs {
				if call, ok := in.(*ssa.Call); ok && strings.HasSuffix(core.StaticCalleeName(&call.Call), "cbor/v2.Encoder).Encode") {
					return true
				}
			}
		}
		return false
	}
	reachesBoth := func(f *ssa.Function) (bool, map[*ssa.Function]bool) {
		r := c.reachSync(f)
		ins, enc := false, false
		for g := range r {
			if insertsPending(g) {
				ins = true
			}
			if encodes(g) {
				enc = true
			}
		}
		return ins && enc, r
	}
	ok1, why1 := false, "no call that reaches both the registration and the write lies between RLock and RUnlock of "+gate
	for _, fn := range c.M.SortedFuncs(c.scopePkg("atp")) {
		if !c.isMethodOf(fn, ro.clientT) {
			continue
		}
		var rlocks, runlocks []ssa.Instruction
		for _, b := range fn.Blocks {
			for _, in := range b.Instrs {
				if call, ok := in.(*ssa.Call); ok {
					switch rwOp(&call.Call) {
					case "RLock":
						rlocks = append(rlocks, in)
					case "RUnlock":
						runlocks = append(runlocks, in)
					}
				}
			}
		}
		if len(rlocks) == 0 {
			continue
		}
		for _, b := range fn.Blocks {
			for _, in := range b.Instrs {
				call, isCall := in.(*ssa.Call)
				if !isCall || call.Call.StaticCallee() == nil {
					continue
				}
				both, region := reachesBoth(call.Call.StaticCallee())
				if !both {
					continue
				}
				inside := false
				for _, l := range rlocks {
					if instrDominates(l, call) {
						inside = true
					}
				}
				for _, u := range runlocks {
					if instrDominates(u, call) {
						inside = false
					}
				}
				if !inside {
					why1 = "the call " + c.callDesc(call) + " in " + c.M.Key(fn) + " reaches the registration and the write but is not made between RLock and RUnlock of " + gate
					continue
				}
				// the inserting function is reachable only through this call
				leak := ""
				for g := range region {
					if !insertsPending(g) {
						continue
					}
					for _, h := range c.M.SortedFuncs(c.scopePkg("atp")) {
						if region[h] {
							continue
						}
						for _, e := range c.M.Edges(h) {
							if e.To == g && !(h == fn) {
								leak = c.M.Key(h) + " also calls " + c.M.Key(g)
							}
						}
					}
				}
				if leak != "" {
					why1 = leak + " outside the read-locked section"
					continue
				}
				ok1, why1 = true, "in "+c.M.Key(fn)+" the call "+c.callDesc(call)+", which reaches the insertion into the pending table and the write of the work start, is made between RLock and RUnlock of "+gate+", and the inserting function is reached in no other way"
			}
		}
	}
	if ok1 {
		c.R.Ok(rule, k1, "-", "start of a run", why1)
	} else {
		c.R.Bad(rule, k1, "-", "a run's registration and its work start are not in one section that excludes Close's client-done message", why1)
	}
	// (2)
	ok2, why2, n := true, "", 0
	for _, fn := range c.M.SortedFuncs(c.scopePkg("atp")) {
		if !c.isMethodOf(fn, ro.clientT) {
			continue
		}
		setsDone := false
		for _, b := range fn.Blocks {
			for _, in := range b.Instrs {
				if name, val, ok := c.clientFieldStore(in, ro); ok && name == ro.doneFlag {
					if cst, ok := val.(*ssa.Const); ok && cst.Value != nil && cst.Value.String() == "true" {
						setsDone = true
					}
				}
			}
		}
		if !setsDone {
			continue
		}
		for _, b := range fn.Blocks {
			for _, in := range b.Instrs {
				call, isCall := in.(*ssa.Call)
				if !isCall || call.Call.StaticCallee() == nil || !c.methodOrClosureOf(call.Call.StaticCallee(), ro.clientT) {
					continue
				}
				writes := false
				for g := range c.reachSync(call.Call.StaticCallee()) {
					if encodes(g) {
						writes = true
					}
				}
				if !writes {
					continue
				}
				n++
				held := false
				for _, l := range c.lockedAt(fn, in) {
					if strings.HasSuffix(l, "."+gate) {
						held = true
					}
				}
				if !held {
					ok2, why2 = false, "the write at "+c.M.InstrPos(in)+" in "+c.M.Key(fn)+" is made without "+gate+" write-locked"
				}
			}
		}
	}
	if ro.doneFlag == "" || n == 0 {
		c.R.Unresolved(rule, "the closing method's write of the client-done message")
		return
	}
	if ok2 {
		c.R.Ok(rule, k2, "-", "client-done message", sprintf("the %d write(s) to the connection in the method that sets the done flag hold %s", n, gate))
	} else {
		c.R.Bad(rule, k2, "-", "Close can tell the peer it is done while a run is being started", why2+": the peer stops reading before the work start of a run that is already registered arrives")
	}
}

// R-SIGCHAN, refusal clause (C08 "every ... later Execute ... never leaves a caller blocked"): the caller's goroutine
// that ranges over the run's signal channel ends when the client closes the channel - at the end of the run. A run
// that the registering function refuses (client closed, stream failed before) has no end anybody would notice:
// every rejecting return of the function that registers the channel in the signal table closes the channel it was
// given (or finds it nil) on the way - except where the run ID is found taken, because then the channel may be the one
// the run that holds the ID is using.
func (c *Ctx) ruleRefusalCloses(rule string) {
	ro := c.roles()
	if !ro.ok || ro.sigTable == "" {
		return
	}
	n := 0
	for _, fn := range c.M.SortedFuncs(c.scopePkg("atp")) {
		if !c.methodOrClosureOf(fn, ro.clientT) {
			continue
		}
		var ch *ssa.Parameter
		for _, b := range fn.Blocks {
			for _, in := range b.Instrs {
				if mu, ok := in.(*ssa.MapUpdate); ok && strings.HasSuffix(c.M.ValPath(mu.Map), "."+ro.sigTable) {
					if p, ok := mu.Value.(*ssa.Parameter); ok {
						ch = p
					}
				}
			}
		}
		ei := core.ErrorResultIndex(fn.Signature)
		if ch == nil || ei < 0 {
			continue
		}
		n += c.refusalsClose(rule, fn, ch, ro, map[*ssa.Function]bool{})
	}
	if n < 2 {
		c.R.Unresolved(rule, sprintf("rejecting returns of the function that registers a run's signal channel (%d found, at least 2 expected)", n))
	}
	c.ruleUnregisteredCloses(rule)
}

// closesChan: the block closes the channel ch, or hands it to a helper that closes its (non-nil) channel parameter on
// every path.
func (c *Ctx) closesChan(b *ssa.BasicBlock, ch ssa.Value) bool {
	for _, in := range b.Instrs {
		call, ok := in.(*ssa.Call)
		if !ok {
			continue
		}
		if bi, ok := call.Call.Value.(*ssa.Builtin); ok && bi.Name() == "close" && call.Call.Args[0] == ch {
			return true
		}
		// a helper that closes its (non-nil) channel parameter on every path
		if callee := call.Call.StaticCallee(); callee != nil {
			for ai, a := range call.Call.Args {
				if a != ch || ai >= len(callee.Params) || len(callee.Blocks) == 0 {
					continue
				}
				p := callee.Params[ai]
				if everyPathSat(callee.Blocks[0], func(bb *ssa.BasicBlock, in2 ssa.Instruction) bool {
					if c2, ok := in2.(*ssa.Call); ok {
						if bi, ok := c2.Call.Value.(*ssa.Builtin); ok && bi.Name() == "close" && c2.Call.Args[0] == ssa.Value(p) {
							return true
						}
					}
					if ifi, ok := in2.(*ssa.If); ok {
						// `if p != nil { close(p) }`: the nil outcome needs no close
						if x, _, isNil := core.NilCmp(ifi.Cond); isNil && x == ssa.Value(p) {
							for _, sc := range bb.Succs {
								for _, y := range sc.Instrs {
									if c3, ok := y.(*ssa.Call); ok {
										if bi, ok := c3.Call.Value.(*ssa.Builtin); ok && bi.Name() == "close" && c3.Call.Args[0] == ssa.Value(p) {
											return true
										}
									}
								}
							}
						}
					}
					return false
				}) {
					return true
				}
			}
		}
	}
	return false
}

// refusalsClose examines the rejecting ways out of fn, which was given the caller's signal channel as ch; a way out
// that passes on the verdict of a helper which was given the channel too is examined in the helper (the checks that
// refuse a run, moved into a function of their own). Returns the number of rejecting ways out found.
func (c *Ctx) refusalsClose(rule string, fn *ssa.Function, ch *ssa.Parameter, ro *atpRoles, seen map[*ssa.Function]bool) int {
	if seen[fn] {
		return 0
	}
	seen[fn] = true
	if c.refusalHelpers == nil {
		c.refusalHelpers = map[*ssa.Function]bool{}
	}
	ei := core.ErrorResultIndex(fn.Signature)
	if ei < 0 {
		return 0
	}
	gen := func(b *ssa.BasicBlock) bool { return c.closesChan(b, ch) }
	isNilEdge := func(cond core.Cond) bool {
		x, neq, isNil := core.NilCmp(cond.V)
		return isNil && neq != cond.True && x == ssa.Value(ch)
	}
	hold := mustHoldGen(fn, isNilEdge, gen)
	n, cnt := 0, 0
	for _, site := range core.RetSites(fn, ei) {
		if core.IsNilConst(site.Val) {
			continue
		}
		// the verdict of a helper that was given the channel
		if call, idx, ok := core.CallResult(core.Unwrap(site.Val)); ok {
			if helper := core.StaticBody(&call.Call); helper != nil && idx == core.ErrorResultIndex(helper.Signature) {
				passed := false
				for ai, a := range call.Call.Args {
					if a == ssa.Value(ch) && ai < len(helper.Params) {
						passed = true
						c.refusalHelpers[helper] = true
						n += c.refusalsClose(rule, helper, helper.Params[ai], ro, seen)
					}
				}
				if passed {
					continue
				}
			}
		}
		if !c.M.ProvablyNonNilError(site.Val, site.Block()) {
			continue
		}
		n++
		cnt++
		k := key(rule, c.M.Key(fn), sprintf("refusal #%d closes the signal channel the run was given", cnt))
		taken := false
		for _, cond := range site.Conds() {
			if ex, ok := cond.V.(*ssa.Extract); ok && ex.Index == 1 && cond.True {
				if lk, ok := ex.Tuple.(*ssa.Lookup); ok && lk.CommaOk && c.isFieldLoad(lk.X, ro.clientT, ro.pending) {
					taken = true
				}
			}
		}
		closed := false
		for _, b := range site.Path {
			if hold[b] || gen(b) {
				closed = true
			}
		}
		switch {
		case taken:
			c.R.Ok(rule, k, c.M.InstrPos(site.Ret), "refusal of a run", "the run ID is taken: the channel may be the one the run that holds the ID uses, it is left alone")
		case closed:
			c.R.Ok(rule, k, c.M.InstrPos(site.Ret), "refusal of a run", "on every path to it the channel parameter was closed (or found nil)")
		default:
			c.R.Bad(rule, k, c.M.InstrPos(site.Ret), "a refused run leaves the caller's signal channel open for ever",
				"the function that would register the channel returns an error without closing it: nothing knows the channel, nothing will ever close it, and the caller's goroutine that ranges over it never ends")
		}
	}
	return n
}

// R-SIGCHAN, never-registered clause: above the registering function, every method of the client that receives the
// caller's channel (a send-only channel parameter) and returns has, on every path to the return, handed the channel on
// - to a callee that takes it as an argument (which is under the same obligation, down to the registering function,
// whose refusals close it and whose success leaves it to the run's end), to a close, or to a deferred call of either.
// A path that returns without doing so - a run refused for a blank ID, input that cannot be encoded, the whole legacy
// path, which never registers anything - leaves the channel open for ever.
func (c *Ctx) ruleUnregisteredCloses(rule string) {
	ro := c.roles()
	if !ro.ok {
		return
	}
	n := 0
	for _, fn := range c.M.SortedFuncs(c.scopePkg("atp")) {
		if !c.methodOrClosureOf(fn, ro.clientT) || fn.Parent() != nil {
			continue
		}
		var ch *ssa.Parameter
		for _, p := range fn.Params {
			if t, ok := p.Type().Underlying().(*types.Chan); ok && t.Dir() == types.SendOnly {
				ch = p
			}
		}
		if ch == nil {
			continue
		}
		// the channel is the one a caller of the API handed in (it travels down from a parameter of an exported method),
		// not one that was taken out of the table of registered channels
		fromCaller := true
		for _, src := range core.ParamSources(ch) {
			if prm, isParam := src.(*ssa.Parameter); !isParam || prm.Parent() == nil || !ast_IsExported(prm.Parent().Name()) {
				fromCaller = false
			}
		}
		if !fromCaller {
			continue
		}
		// the registering function itself has the refusal clause
		registers := false
		for _, b := range fn.Blocks {
			for _, in := range b.Instrs {
				if mu, ok := in.(*ssa.MapUpdate); ok && mu.Value == ssa.Value(ch) {
					registers = true
				}
			}
		}
		if registers || c.refusalHelpers[fn] {
			// (a helper that holds the registering function's refusals is examined with it)
			continue
		}
		gen := func(b *ssa.BasicBlock) bool {
			for _, in := range b.Instrs {
				var cc *ssa.CallCommon
				switch x := in.(type) {
				case *ssa.Call:
					cc = &x.Call
				case *ssa.Defer:
					cc = &x.Call
				}
				if cc == nil {
					continue
				}
				for _, a := range cc.Args {
					if a == ssa.Value(ch) {
						return true
					}
				}
			}
			return false
		}
		isNilEdge := func(cond core.Cond) bool {
			x, neq, isNil := core.NilCmp(cond.V)
			return isNil && neq != cond.True && x == ssa.Value(ch)
		}
		hold := mustHoldGen(fn, isNilEdge, gen)
		cnt := 0
		for _, ret := range core.ReturnsOf(fn) {
			n++
			cnt++
			k := key(rule, c.M.Key(fn), sprintf("return #%d is reached only after the caller's signal channel was handed on or closed", cnt))
			if hold[ret.Key()] || gen(ret.Block()) {
				c.R.Ok(rule, k, c.M.InstrPos(ret), "end of a call that was given the caller's signal channel", "on every path the channel was passed to a callee, closed, or left to a deferred call")
			} else {
				c.R.Bad(rule, k, c.M.InstrPos(ret), "a call returns without anybody having taken charge of the caller's signal channel",
					"the run never gets as far as being registered (refused, legacy path, input that cannot be encoded): nothing knows the channel, nothing will ever close it, and the caller's goroutine that ranges over it never ends")
			}
		}
	}
	if n < 3 {
		c.R.Unresolved(rule, sprintf("returns of the client methods above the registering function that receive the caller's signal channel (%d found, at least 3 expected)", n))
	}
}

// R-READFIRST (C06 "every Execute returns ... under every interleaving of ... signal traffic in both directions"): while
// no run is pending the client reads nothing, and whatever the plugin still has to say (errors for late signals) stays
// in its output. A peer whose writer is stuck on an unread message eventually stops reading too. An Execute that writes
// its work start into that before anybody reads the plugin's output again waits for the peer's reader, which waits
// for its writer, which waits for a reader that starts only after the write. Obligation: in every client function
// that both starts the read loop (calls something that reaches the `go` of the read loop) and writes to the connection,
// the call that starts the read loop dominates the write.
func (c *Ctx) ruleReadFirst(rule string) {
	ro := c.roles()
	if !ro.ok || ro.spawnFn == nil {
		c.R.Unresolved(rule, "function that starts the client's read loop")
		return
	}
	encodes := func(f *ssa.Function) bool {
		for g := range c.reachSync(f) {
			for _, b := range g.Blocks {
				for _, in := range b.Instrs {
					if call, ok := in.(*ssa.Call); ok && strings.HasSuffix(core.StaticCalleeName(&call.Call), "cbor/v2.Encoder).Encode") {
						return true
					}
				}
			}
		}
		return false
	}
	spawns := func(f *ssa.Function) bool { return c.reachSync(f)[ro.spawnFn] }
	inLoop := c.M.Reachable([]*ssa.Function{ro.readLoop}, nil)
	// a callee that reads its reply itself (the legacy protocol: no read loop, no run IDs) needs no read loop
	readsItself := func(f *ssa.Function) bool {
		for g := range c.reachSync(f) {
			if inLoop[g] {
				continue
			}
			for _, b := range g.Blocks {
				for _, in := range b.Instrs {
					if call, ok := in.(*ssa.Call); ok && strings.HasSuffix(core.StaticCalleeName(&call.Call), "cbor/v2.Decoder).Decode") {
						return true
					}
				}
			}
		}
		return false
	}
	n := 0
	for _, fn := range c.M.SortedFuncs(c.scopePkg("atp")) {
		if !c.isMethodOf(fn, ro.clientT) {
			continue
		}
		var starts, writes []*ssa.Call
		for _, b := range fn.Blocks {
			for _, in := range b.Instrs {
				call, ok := in.(*ssa.Call)
				if !ok || call.Call.StaticCallee() == nil {
					continue
				}
				callee := call.Call.StaticCallee()
				switch {
				case spawns(callee):
					starts = append(starts, call)
				case c.methodOrClosureOf(callee, ro.clientT) && encodes(callee) && !readsItself(callee):
					writes = append(writes, call)
				}
			}
		}
		if len(starts) == 0 {
			continue
		}
		for i, w := range writes {
			n++
			k := key(rule, c.M.Key(fn), sprintf("write #%d to the connection is made with the read loop running", i+1))
			ok := false
			for _, st := range starts {
				if instrDominates(st, w) {
					ok = true
				}
			}
			if ok {
				c.R.Ok(rule, k, c.M.InstrPos(w), "write of a run's work start", "dominated by the call that registers the run and starts the read loop if none is running")
			} else {
				c.R.Bad(rule, k, c.M.InstrPos(w), "a run's work start is written before anybody reads the plugin's output",
					"on an idle client unread messages of the plugin can be backed up; the plugin then no longer reads its input, this write blocks, and the read loop that would drain the plugin is only started after the write: Execute never returns")
			}
		}
	}
	if n == 0 {
		c.R.Unresolved(rule, "a client function that starts the read loop and writes to the connection")
	}
}
