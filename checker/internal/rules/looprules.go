package rules

import (
	"strings"

	"golang.org/x/tools/go/ssa"

	"verifcheck/internal/core"
)

// decodeSites: calls of (*cbor.Decoder).Decode that sit on a cycle of fn's CFG (the message loops of the ATP client and
// server).
func decodeLoopSites(fn *ssa.Function) []*ssa.Call {
	var out []*ssa.Call
	for _, b := range fn.Blocks {
		for _, in := range b.Instrs {
			call, ok := in.(*ssa.Call)
			if !ok || !strings.HasSuffix(core.StaticCalleeName(&call.Call), "cbor/v2.Decoder).Decode") {
				continue
			}
			if blockReaches(b, b, nil) {
				out = append(out, call)
			}
		}
	}
	return out
}

// blockReaches: `to` is reachable from a successor of `from` without entering a block for which avoid is true.
func blockReaches(from, to *ssa.BasicBlock, avoid func(*ssa.BasicBlock) bool) bool {
	seen := map[*ssa.BasicBlock]bool{}
	work := append([]*ssa.BasicBlock{}, from.Succs...)
	for len(work) > 0 {
		b := work[len(work)-1]
		work = work[:len(work)-1]
		if seen[b] {
			continue
		}
		seen[b] = true
		if b == to {
			return true
		}
		if avoid != nil && avoid(b) {
			continue
		}
		work = append(work, b.Succs...)
	}
	return false
}

// R-DECODEEXIT (C07, C08): when Decode fails inside a message loop the loop must be left. A CBOR stream decoder does
// not consume bytes it cannot parse, so "skip the bad message and continue" reads the same bytes for ever (and never
// sees the end of input behind them).
func (c *Ctx) ruleDecodeExit(rule string, fns map[*ssa.Function]bool) {
	n := 0
	for _, fn := range c.M.SortedFuncs(fns) {
		for i, call := range decodeLoopSites(fn) {
			n++
			k := key(rule, c.M.Key(fn), sprintf("Decode in loop #%d: the failure branch leaves the loop", i+1))
			b := call.Block()
			// the block ends with `if err != nil`
			var failSucc *ssa.BasicBlock
			if len(b.Instrs) > 0 {
				if ifi, ok := b.Instrs[len(b.Instrs)-1].(*ssa.If); ok {
					if y, neq, ok := core.NilCmp(ifi.Cond); ok && core.Unwrap(y) == ssa.Value(call) {
						if neq {
							failSucc = b.Succs[0]
						} else {
							failSucc = b.Succs[1]
						}
					}
				}
			}
			if failSucc == nil {
				c.R.Bad(rule, k, c.M.InstrPos(call), "the error of a Decode in a message loop is not tested right after the call", "undecided = fail")
				continue
			}
			if failSucc == b || blockReaches(failSucc, b, nil) {
				c.R.Bad(rule, k, c.M.InstrPos(call), "a failed Decode can lead back into the message loop",
					"the stream decoder does not advance past bytes it cannot parse: the next Decode fails on the same bytes, the loop spins for ever and never observes the end of input")
			} else {
				c.R.Ok(rule, k, c.M.InstrPos(call), "Decode in a message loop", "no path from the failure branch leads back to the Decode")
			}
		}
	}
	c.R.Note("%s: %d Decode calls inside loops", rule, n)
}

// R-IDLECHECK (C06): the client's read loop must re-evaluate "is anybody still waiting?" after every message it has
// handled - every path from one Decode to the next passes through the function that clears the running flag when no
// entry is pending (the callee whose clear-summary is "iftrue"), or leaves the loop. A `continue` that skips the check
// leaves a reader behind that nobody needs, and Close waits for it for ever.
func (c *Ctx) ruleIdleCheck(rule string) {
	ro := c.roles()
	if ro == nil || !ro.ok || ro.readLoop == nil {
		c.R.Unresolved(rule, "client read loop")
		return
	}
	fn := ro.readLoop
	memo := map[*ssa.Function]string{}
	isCheck := func(b *ssa.BasicBlock) bool {
		for _, in := range b.Instrs {
			if call, ok := in.(*ssa.Call); ok {
				for _, g := range c.M.Callees(&call.Call) {
					if s := c.clearSummary(g, ro, memo, 0); s == "iftrue" || s == "all" {
						return true
					}
				}
			}
		}
		return false
	}
	sites := decodeLoopSites(fn)
	if len(sites) == 0 {
		c.R.Unresolved(rule, "Decode call inside the read loop")
		return
	}
	for i, call := range sites {
		k := key(rule, c.M.Key(fn), sprintf("Decode in loop #%d: every way round the loop passes the idle check", i+1))
		b := call.Block()
		if isCheck(b) {
			c.R.Ok(rule, k, c.M.InstrPos(call), "read-loop iteration", "the idle check is in the loop header block")
			continue
		}
		if blockReaches(b, b, isCheck) {
			c.R.Bad(rule, k, c.M.InstrPos(call), "a path leads from one Decode to the next without the idle check",
				"after a message that completes the last pending run on such a path the read loop goes back to Decode with the running flag set although nobody waits: Close blocks in wg.Wait() for a reader that only the peer can wake")
		} else {
			c.R.Ok(rule, k, c.M.InstrPos(call), "read-loop iteration", "every path back to the Decode passes a call that clears the running flag when nothing is pending (or the loop is left)")
		}
	}
}
