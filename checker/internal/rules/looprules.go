package rules

import (
	"go/constant"
	"go/types"
	"sort"
	"strings"

	"golang.org/x/tools/go/ssa"

	"verifcheck/internal/core"
)

// decodeSites: calls of (*cbor.Decoder).Decode that sit on a cycle of fn's CFG (the message loops of the ATP client and
// server).
func decodeLoopSites(fn *ssa.Function) []*ssa.Call {
	var out []*ssa.Call
	for _, b := range fn.Blocks {
		for _, in := range b.Instrs {
			call, ok := in.(*ssa.Call)
			if !ok || !strings.HasSuffix(core.StaticCalleeName(&call.Call), "cbor/v2.Decoder).Decode") {
				continue
			}
			if blockReaches(b, b, nil) {
				out = append(out, call)
			}
		}
	}
	return out
}

// blockReaches: `to` is reachable from a successor of `from` without entering a block for which avoid is true.
func blockReaches(from, to *ssa.BasicBlock, avoid func(*ssa.BasicBlock) bool) bool {
	seen := map[*ssa.BasicBlock]bool{}
	work := append([]*ssa.BasicBlock{}, from.Succs...)
	for len(work) > 0 {
		b := work[len(work)-1]
		work = work[:len(work)-1]
		if seen[b] {
			continue
		}
		seen[b] = true
		if b == to {
			return true
		}
		if avoid != nil && avoid(b) {
			continue
		}
		work = append(work, b.Succs...)
	}
	return false
}

// R-DECODEEXIT (C07, C08): when Decode fails inside a message loop the loop must be left. A CBOR stream decoder does
// not consume bytes it cannot parse, so "skip the bad message and continue" reads the same bytes for ever (and never
// sees the end of input behind them).
func (c *Ctx) ruleDecodeExit(rule string, fns map[*ssa.Function]bool) {
	n := 0
	for _, fn := range c.M.SortedFuncs(fns) {
		for i, call := range decodeLoopSites(fn) {
			n++
			k := key(rule, c.M.Key(fn), sprintf("Decode in loop #%d: the failure branch leaves the loop", i+1))
			b := call.Block()
			// the block ends with `if err != nil`
			var failSucc *ssa.BasicBlock
			if len(b.Instrs) > 0 {
				if ifi, ok := b.Instrs[len(b.Instrs)-1].(*ssa.If); ok {
					if y, neq, ok := core.NilCmp(ifi.Cond); ok && core.Unwrap(y) == ssa.Value(call) {
						if neq {
							failSucc = b.Succs[0]
						} else {
							failSucc = b.Succs[1]
						}
					}
				}
			}
			if failSucc == nil {
				c.R.Bad(rule, k, c.M.InstrPos(call), "the error of a Decode in a message loop is not tested right after the call", "undecided = fail")
				continue
			}
			if failSucc == b || blockReaches(failSucc, b, nil) {
				c.R.Bad(rule, k, c.M.InstrPos(call), "a failed Decode can lead back into the message loop",
					"the stream decoder does not advance past bytes it cannot parse: the next Decode fails on the same bytes, the loop spins for ever and never observes the end of input")
			} else {
				c.R.Ok(rule, k, c.M.InstrPos(call), "Decode in a message loop", "no path from the failure branch leads back to the Decode")
			}
		}
	}
	c.R.Note("%s: %d Decode calls inside loops", rule, n)
}

// R-IDLECHECK (C06): the client's read loop must re-evaluate "is anybody still waiting?" after every message it has
// handled - every path from one Decode to the next passes through the function that clears the running flag when no
// entry is pending (the callee whose clear-summary is "iftrue"), or leaves the loop. A `continue` that skips the check
// leaves a reader behind that nobody needs, and Close waits for it for ever.
func (c *Ctx) ruleIdleCheck(rule string) {
	ro := c.roles()
	if ro == nil || !ro.ok || ro.readLoop == nil {
		c.R.Unresolved(rule, "client read loop")
		return
	}
	fn := ro.readLoop
	memo := map[*ssa.Function]string{}
	isCheck := func(b *ssa.BasicBlock) bool {
		for _, in := range b.Instrs {
			if call, ok := in.(*ssa.Call); ok {
				for _, g := range c.M.Callees(&call.Call) {
					s := c.clearSummary(g, ro, memo, 0)
					if s == "all" || (s == "iftrue" && c.falseOnlyWhilePending(g, ro)) {
						return true
					}
				}
			}
		}
		return false
	}
	sites := decodeLoopSites(fn)
	if len(sites) == 0 {
		c.R.Unresolved(rule, "Decode call inside the read loop")
		return
	}
	for i, call := range sites {
		k := key(rule, c.M.Key(fn), sprintf("Decode in loop #%d: every way round the loop passes the idle check", i+1))
		b := call.Block()
		if isCheck(b) {
			c.R.Ok(rule, k, c.M.InstrPos(call), "read-loop iteration", "the idle check is in the loop header block")
			continue
		}
		if blockReaches(b, b, isCheck) {
			c.R.Bad(rule, k, c.M.InstrPos(call), "a path leads from one Decode to the next without the idle check",
				"after a message that completes the last pending run on such a path the read loop goes back to Decode with the running flag set although nobody waits: Close blocks in wg.Wait() for a reader that only the peer can wake")
		} else {
			c.R.Ok(rule, k, c.M.InstrPos(call), "read-loop iteration", "every path back to the Decode passes a call that clears the running flag when nothing is pending (or the loop is left)")
		}
	}
}

// falseOnlyWhilePending: every `return false` of fn sits inside a loop over the pending table (it was decided by looking
// at a pending entry). A handler that reports "not fatal" with false decides nothing about idleness.
func (c *Ctx) falseOnlyWhilePending(fn *ssa.Function, ro *atpRoles) bool {
	var scans []*ssa.BasicBlock
	for _, b := range fn.Blocks {
		for _, in := range b.Instrs {
			if nx, ok := in.(*ssa.Next); ok {
				if rg, ok := nx.Iter.(*ssa.Range); ok && c.isFieldLoad(rg.X, ro.clientT, ro.pending) {
					// the loop body: the successor taken while the iterator delivers
					if ifi, ok := b.Instrs[len(b.Instrs)-1].(*ssa.If); ok {
						if ex, ok := ifi.Cond.(*ssa.Extract); ok && ex.Tuple == ssa.Value(nx) && ex.Index == 0 {
							scans = append(scans, b.Succs[0])
						}
					}
				}
			}
		}
	}
	n := 0
	for _, r := range core.ReturnsOf(fn) {
		if len(r.Results) != 1 {
			return false
		}
		cst, ok := core.RetVal(r, 0).(*ssa.Const)
		if !ok || cst.Value == nil || cst.Value.Kind() != constant.Bool {
			return false
		}
		if constant.BoolVal(cst.Value) {
			continue
		}
		n++
		inside := false
		for _, sb := range scans {
			if sb.Dominates(r.Block()) {
				inside = true
			}
		}
		if !inside {
			return false
		}
	}
	return n > 0
}

// R-CHILDREN (C01, C02): a container schema (a struct with child-schema fields: the map's key and value schemas, the
// list's item schema) hands every element of its data to its children. Structurally: in the methods of such a type,
// a loop that calls a data method of one child field must call a data method of EVERY child field on every way round
// the loop. A fast path that loops over the data and consults only the value schema (or skips the call on some
// branch) accepts elements the other child would have rejected.
func (c *Ctx) ruleChildren(rule string) {
	pkg := c.M.Types["schema"]
	if pkg == nil {
		c.R.Unresolved(rule, "package schema")
		return
	}
	hasDataMethods := func(t types.Type) bool {
		var ms *types.MethodSet
		if tp, ok := t.(*types.TypeParam); ok {
			ms = types.NewMethodSet(tp.Constraint())
		} else {
			ms = types.NewMethodSet(t)
		}
		return ms.Lookup(pkg, "Unserialize") != nil && ms.Lookup(pkg, "Validate") != nil && ms.Lookup(pkg, "Serialize") != nil
	}
	dataMethod := map[string]bool{"Unserialize": true, "Validate": true, "Serialize": true, "ValidateCompatibility": true,
		"UnserializeType": true, "ValidateType": true, "SerializeType": true}
	n := 0
	for _, name := range pkg.Scope().Names() {
		tn, ok := pkg.Scope().Lookup(name).(*types.TypeName)
		if !ok {
			continue
		}
		named, ok := tn.Type().(*types.Named)
		if !ok {
			continue
		}
		st, ok := named.Underlying().(*types.Struct)
		if !ok {
			continue
		}
		var children []*types.Var
		for i := 0; i < st.NumFields(); i++ {
			f := st.Field(i)
			if !f.Embedded() && hasDataMethods(f.Type()) {
				children = append(children, f)
			}
		}
		if len(children) == 0 {
			continue
		}
		for _, fn := range c.M.SortedFuncs(c.scopePkg("schema")) {
			if !c.isMethodOf(fn, named) {
				continue
			}
			// calls on child fields, per block
			calls := map[*ssa.BasicBlock]map[*types.Var]bool{}
			for _, b := range fn.Blocks {
				for _, in := range b.Instrs {
					call, ok := in.(*ssa.Call)
					if !ok {
						continue
					}
					var opRecv ssa.Value
					if call.Call.IsInvoke() && dataMethod[call.Call.Method.Name()] {
						opRecv = call.Call.Value
					} else if _, r, _, isOp := c.opCall(&call.Call); isOp && !call.Call.IsInvoke() {
						// the operation made through a dispatcher (validateCompatibilityIn(child, x, compared))
						opRecv = r
					}
					if ci, isCI := opRecv.(*ssa.ChangeInterface); isCI {
						opRecv = ci.X
					}
					if mi, isMI := opRecv.(*ssa.MakeInterface); isMI {
						opRecv = mi.X
					}
					ld, ok := opRecv.(*ssa.UnOp)
					if !ok {
						continue
					}
					fa, ok := ld.X.(*ssa.FieldAddr)
					if !ok {
						continue
					}
					fst, _ := derefType(fa.X.Type()).Underlying().(*types.Struct)
					if fst == nil {
						continue
					}
					for _, ch := range children {
						if fst.Field(fa.Field).Origin() == ch.Origin() {
							if calls[b] == nil {
								calls[b] = map[*types.Var]bool{}
							}
							calls[b][ch] = true
						}
					}
				}
			}
			// loops: headers of back edges
			headers := map[*ssa.BasicBlock]bool{}
			for _, b := range fn.Blocks {
				for _, s := range b.Succs {
					if s.Dominates(b) {
						headers[s] = true
					}
				}
			}
			li := 0
			for _, h := range fn.Blocks {
				if !headers[h] {
					continue
				}
				// blocks of the natural loop
				loop := map[*ssa.BasicBlock]bool{h: true}
				var stack []*ssa.BasicBlock
				for _, p := range h.Preds {
					if h.Dominates(p) && !loop[p] {
						loop[p] = true
						stack = append(stack, p)
					}
				}
				for len(stack) > 0 {
					b := stack[len(stack)-1]
					stack = stack[:len(stack)-1]
					for _, p := range b.Preds {
						if !loop[p] {
							loop[p] = true
							stack = append(stack, p)
						}
					}
				}
				used := false
				for b := range loop {
					if len(calls[b]) > 0 {
						used = true
					}
				}
				if !used {
					continue
				}
				li++
				for _, ch := range children {
					n++
					k := key(rule, c.M.Key(fn), sprintf("loop #%d hands each element to %s", li, ch.Name()))
					ch := ch
					callsChild := func(b *ssa.BasicBlock) bool { return calls[b][ch] }
					lpos := "-"
					for _, in := range h.Instrs {
						if in.Pos().IsValid() {
							lpos = c.M.Pos(in.Pos())
							break
						}
					}
					if lpos == "-" {
						for _, b := range fn.Blocks {
							if !loop[b] || lpos != "-" {
								continue
							}
							for _, in := range b.Instrs {
								if in.Pos().IsValid() {
									lpos = c.M.Pos(in.Pos())
									break
								}
							}
						}
					}
					if callsChild(h) || !blockReaches(h, h, callsChild) {
						c.R.Ok(rule, k, lpos, "loop over the data of a container schema", "every way round the loop calls a data method of "+ch.Name())
					} else {
						c.R.Bad(rule, k, lpos, "a loop over the container's data can go round without consulting "+ch.Name(),
							"the loop calls data methods of a child schema, but some path from its header back to its header never calls one on "+ch.Name()+": elements are accepted (or produced) that this child schema would have rejected (or converted)")
					}
				}
			}
		}
	}
	c.R.Note("%s: %d (loop, child) pairs", rule, n)
}

// R-NOCOERCE (C02, C03): "Validate and Serialize enforce the same constraints on native values" - they check, they do
// not convert. Text-to-number / text-to-bool parsing (strconv.Parse*, strconv.Atoi, the unit parser) belongs to
// Unserialize only. Obligation per such parsing call site reachable from Validate / Serialize / ValidateType /
// SerializeType of any schema type: it must not be reachable (call graph, CHA on repository types).
// A call that is reachable is a violation unless it sits behind a reflect-kind gate that excludes strings on every
// path (MustHold on Kind() of reflect.ValueOf of the function's data parameter) at the call that enters the
// parsing function.
func (c *Ctx) ruleNoCoerce(rule string) {
	entries := c.entryData("Validate", "Serialize", "ValidateType", "SerializeType")
	// callers may reach Unserialize legitimately? No: none of the entry methods may depend on Unserialize either -
	// but data-mode ValidateCompatibility does, and is not an entry here.
	parsing := func(name string) bool {
		return strings.HasPrefix(name, "strconv.Parse") || name == "strconv.Atoi" ||
			strings.Contains(name, "UnitsDefinition).ParseInt") || strings.Contains(name, "UnitsDefinition).ParseFloat")
	}
	// functions that contain a parsing call
	parsers := map[*ssa.Function][]*ssa.Call{}
	for _, fn := range c.M.Funcs {
		for _, b := range fn.Blocks {
			for _, in := range b.Instrs {
				if call, ok := in.(*ssa.Call); ok && parsing(core.StaticCalleeName(&call.Call)) {
					parsers[fn] = append(parsers[fn], call)
				}
			}
		}
	}
	if len(parsers) == 0 {
		c.R.Unresolved(rule, "text-parsing calls (strconv.Parse*) in the input mappers")
		return
	}
	// reachability with predecessor edges, cutting edges that are kind-gated against strings
	type edge struct {
		from *ssa.Function
		site ssa.CallInstruction
	}
	pred := map[*ssa.Function]edge{}
	seen := map[*ssa.Function]bool{}
	var work []*ssa.Function
	for _, e := range entries {
		if !seen[e] {
			seen[e] = true
			work = append(work, e)
		}
	}
	gated := 0
	var compatEdges []edge
	for len(work) > 0 {
		f := work[len(work)-1]
		work = work[:len(work)-1]
		for _, e := range c.M.Edges(f) {
			if seen[e.To] || e.Site == nil {
				continue
			}
			if compatName(e.To.Name()) == "ValidateCompatibility" {
				// Validate / Serialize must not decide anything through the compatibility check: on data it is "would
				// Unserialize accept this" (lenient conversions) plus schema-compatibility strictness (homogeneous lists),
				// and it re-creates errors, losing their paths
				compatEdges = append(compatEdges, edge{f, e.Site})
				continue
			}
			if c.nonStringKindGate(f, e.Site) {
				gated++
				continue
			}
			seen[e.To] = true
			pred[e.To] = edge{f, e.Site}
			work = append(work, e.To)
		}
	}
	n := 0
	var fns []*ssa.Function
	for fn := range parsers {
		fns = append(fns, fn)
	}
	sort.Slice(fns, func(i, j int) bool { return c.M.Key(fns[i]) < c.M.Key(fns[j]) })
	for _, fn := range fns {
		for i, call := range parsers[fn] {
			n++
			k := key(rule, c.M.Key(fn), sprintf("%s #%d is not reachable from Validate / Serialize", core.StaticCalleeName(&call.Call), i+1))
			if !seen[fn] {
				c.R.Ok(rule, k, c.M.InstrPos(call), "text-parsing call of an input mapper", "not reachable from any Validate / Serialize / ValidateType / SerializeType")
				continue
			}
			var chain []string
			for f := fn; f != nil; {
				chain = append([]string{c.M.Key(f)}, chain...)
				p, ok := pred[f]
				if !ok {
					break
				}
				f = p.from
				if len(chain) > 12 {
					break
				}
			}
			c.R.Bad(rule, k, c.M.InstrPos(call), "Validate / Serialize can reach a text-parsing conversion",
				"call chain "+strings.Join(chain, " -> ")+": a value that is not of the schema's native type (a numeric string, \"true\", a unit string) is converted and accepted by Validate / Serialize instead of being refused")
		}
	}
	seenCE := map[string]bool{}
	for _, ce := range compatEdges {
		k := key(rule, c.M.Key(ce.from), "Validate / Serialize path calls ValidateCompatibility")
		if seenCE[k] {
			continue
		}
		seenCE[k] = true
		c.R.Bad(rule, k, c.M.InstrPos(ce.site.(ssa.Instruction)), "a Validate / Serialize path goes through ValidateCompatibility",
			"on data the compatibility check is Unserialize (text is parsed, widths converted) plus schema-compatibility rules (e.g. homogeneous lists in any) and it rebuilds errors from their text: native values the member accepts are rejected, non-native ones accepted, and the error path below is lost")
	}
	if len(compatEdges) == 0 {
		c.R.Ok(rule, key(rule, "call graph", "no Validate / Serialize path reaches ValidateCompatibility"), "-", "reachability from Validate / Serialize / ValidateType / SerializeType", "no edge into ValidateCompatibility")
	}
	c.R.Note("%s: %d text-parsing call sites; %d call edges cut by a reflect-kind gate that excludes strings", rule, n, gated)
}

// nonStringKindGate: the call site is reached only where Kind() of reflect.ValueOf(<an argument of the call>) was
// established as a kind other than String (an integer / float kind switch case).
func (c *Ctx) nonStringKindGate(fn *ssa.Function, site ssa.CallInstruction) bool {
	in, ok := site.(ssa.Instruction)
	if !ok {
		return false
	}
	nonString := kindFact{accept: func(k int64, eq bool) bool { return eq && k != 24 && k != 0 && k != 20 }}
	for _, a := range site.Common().Args {
		if _, isIface := a.Type().Underlying().(*types.Interface); !isIface {
			continue
		}
		path := "reflect.ValueOf(" + c.reflPath(a, 0) + ")"
		if core.MustHold(fn, c.kindEst(path, nonString, 0))[in.Block()] {
			return true
		}
	}
	return false
}

// R-FRESHDEC (C07 "missing run IDs are reported", C05 "never delivered to a different run ID"): a CBOR decoder leaves the
// fields of its target that are absent from the input untouched. A message loop that decodes every message into one
// variable declared outside the loop therefore hands a message that omits a field (its run ID, its payload) the
// previous message's value. The target of every Decode inside a loop must be allocated inside that loop (a fresh
// zero value per iteration).
func (c *Ctx) ruleFreshDecode(rule string, fns map[*ssa.Function]bool) {
	n := 0
	for _, fn := range c.M.SortedFuncs(fns) {
		for i, call := range decodeLoopSites(fn) {
			n++
			k := key(rule, c.M.Key(fn), sprintf("Decode in loop #%d: fresh target per iteration", i+1))
			if len(call.Call.Args) < 2 {
				continue
			}
			target := call.Call.Args[1]
			if mi, ok := target.(*ssa.MakeInterface); ok {
				target = mi.X
			}
			al, ok := target.(*ssa.Alloc)
			if !ok {
				c.R.Bad(rule, k, c.M.InstrPos(call), "the target of a Decode inside a loop is not a local variable", "undecided = fail")
				continue
			}
			b := call.Block()
			// the allocation is per iteration iff its block lies on the cycle through the Decode
			ab := al.Block()
			if ab == b || (blockReaches(ab, b, nil) && blockReaches(b, ab, nil)) {
				c.R.Ok(rule, k, c.M.InstrPos(call), "Decode in a message loop", "the target is allocated inside the loop: every message starts from the zero value")
			} else {
				c.R.Bad(rule, k, c.M.InstrPos(call), "every message of the loop is decoded into the same variable",
					"the decoder leaves fields absent from a message untouched, so a message that omits its run ID (or payload) silently inherits the previous message's: it is processed for the wrong run instead of being reported")
			}
		}
	}
	c.R.Note("%s: %d Decode calls inside loops", rule, n)
}
