package rules

import (
	"go/types"
	"sort"
	"strings"

	"golang.org/x/tools/go/ssa"

	"verifcheck/internal/core"
)

// R-METABOUND (C09, generalises T5): "every schema that can be built through the public constructors describes itself
// in a form the meta-schema accepts". The meta-schema rows are evaluated from the SSA of the package initialiser;
// every value constraint a row carries (string length / pattern, integer bound, list / map size - on the row's
// value, its list items, its map keys or its map values) is an obligation: some constructor of the mapped Go type
// must enforce it, otherwise a value the constructor accepts yields a description the meta-schema rejects.
//
// Enforcement is looked for where the field is written: every function of the package named New* that stores to
// the field (directly or through a composite literal). If none of them can panic or return an error, nothing is
// enforced: violation. If one can, and a condition guarding a panic / error return mentions a value the store
// depends on, the strength of that guard is not decided: the row is listed ("info"), never alarmed on.
// Fields no New* function writes (set by literals or reflection only) are listed as well.

type metaConstraint struct {
	where string // "value", "items", "keys", "values" (nested with '/')
	what  string // e.g. "string min length", "string pattern", "integer min", "map min items"
	pos   string
}

func (c *Ctx) rowConstraints(v ssa.Value, where string, depth int, out *[]metaConstraint) {
	if depth > 6 {
		return
	}
	call, ok := c.resolveInit(v, 0).(*ssa.Call)
	if !ok {
		return
	}
	name := calleeOriginName(call)
	args := call.Call.Args
	nonNil := func(i int) bool { return i < len(args) && !core.IsNilConst(args[i]) }
	add := func(what string) {
		*out = append(*out, metaConstraint{where: where, what: what, pos: c.M.InstrPos(call)})
	}
	switch name {
	case "NewStringSchema":
		if nonNil(0) {
			add("string min length")
		}
		if nonNil(1) {
			add("string max length")
		}
		if nonNil(2) {
			add("string pattern")
		}
	case "NewIntSchema", "NewFloatSchema":
		kind := "integer"
		if name == "NewFloatSchema" {
			kind = "float"
		}
		if nonNil(0) {
			add(kind + " min")
		}
		if nonNil(1) {
			add(kind + " max")
		}
	case "NewListSchema":
		if nonNil(1) {
			add("list min items")
		}
		if nonNil(2) {
			add("list max items")
		}
		if len(args) > 0 {
			c.rowConstraints(args[0], where+"/items", depth+1, out)
		}
	case "NewMapSchema":
		if nonNil(2) {
			add("map min items")
		}
		if nonNil(3) {
			add("map max items")
		}
		if len(args) > 1 {
			c.rowConstraints(args[0], where+"/keys", depth+1, out)
			c.rowConstraints(args[1], where+"/values", depth+1, out)
		}
	}
}

// fieldWriters: the functions of the schema package (other than the initialiser) that store to field f.
func (c *Ctx) fieldWriters(named *types.Named, f *types.Var) []*ssa.Function {
	seen := map[*ssa.Function]bool{}
	var out []*ssa.Function
	for _, fn := range c.M.SortedFuncs(c.scopePkg("schema")) {
		if fn.Name() == "init" {
			continue
		}
		for _, b := range fn.Blocks {
			for _, in := range b.Instrs {
				fa, ok := in.(*ssa.FieldAddr)
				if !ok {
					continue
				}
				st, _ := derefType(fa.X.Type()).Underlying().(*types.Struct)
				if st == nil || st.Field(fa.Field).Origin() != f.Origin() {
					continue
				}
				for _, r := range *fa.Referrers() {
					if s, ok := r.(*ssa.Store); ok && s.Addr == ssa.Value(fa) && !seen[fn] {
						seen[fn] = true
						out = append(out, fn)
					}
				}
			}
		}
	}
	return out
}

// ---- does a writer guard the restricted component? ---------------------------------------------------------------------
//
// guardsOn: starting from the value stored into the field (comp "value"), or from the keys / elements of that
// container (comp ".../keys", ".../values", ".../items"), is there a panic or an error return in fn - or in a repo
// function the component is passed to, depth-bounded - whose controlling conditions depend on that component?
// Component-sensitive forward dependence: a container label flows through copies, conversions, phis and calls;
// ranging over / indexing a labelled container yields its keys or elements; the target component then flows
// through every operand.

type compState struct {
	cont   map[ssa.Value]bool // values that are (aliases of) the container
	target map[ssa.Value]bool // values that depend on the target component
}

func (c *Ctx) guardsOn(fn *ssa.Function, seedCont, seedTarget []ssa.Value, wantKeys, wantElems bool, depth int, seen map[string]bool) bool {
	if depth > 3 || len(fn.Blocks) == 0 {
		return false
	}
	sig := c.M.Key(fn) + sprintf("|%v|%v|%d%d", seedCont, seedTarget, b2i(wantKeys), b2i(wantElems))
	if seen[sig] {
		return false
	}
	seen[sig] = true
	st := compState{cont: map[ssa.Value]bool{}, target: map[ssa.Value]bool{}}
	for _, v := range seedCont {
		st.cont[v] = true
	}
	for _, v := range seedTarget {
		st.target[v] = true
	}
	for changed := true; changed; {
		changed = false
		set := func(m map[ssa.Value]bool, v ssa.Value) {
			if !m[v] {
				m[v] = true
				changed = true
			}
		}
		for _, b := range fn.Blocks {
			for _, in := range b.Instrs {
				v, isVal := in.(ssa.Value)
				if !isVal {
					if s, ok := in.(*ssa.Store); ok {
						// locals: a stored container / target makes later loads of the slot carry the label
						if st.cont[s.Val] {
							set(st.cont, s.Addr)
						}
						if st.target[s.Val] {
							set(st.target, s.Addr)
						}
					}
					continue
				}
				switch x := in.(type) {
				case *ssa.Range:
					if st.cont[x.X] {
						set(st.cont, v) // the iterator stands for the container
					}
				case *ssa.Next:
					if st.cont[x.Iter] {
						set(st.cont, v)
					}
				case *ssa.Extract:
					if st.cont[x.Tuple] {
						if (x.Index == 1 && wantKeys) || (x.Index == 2 && wantElems) {
							set(st.target, v)
						}
					}
					if st.target[x.Tuple] {
						set(st.target, v)
					}
				case *ssa.Lookup:
					if st.cont[x.X] && wantElems {
						set(st.target, v)
					}
				case *ssa.IndexAddr:
					if st.cont[x.X] && wantElems {
						set(st.target, v)
					}
				case *ssa.Index:
					if st.cont[x.X] && wantElems {
						set(st.target, v)
					}
				case *ssa.UnOp:
					if st.cont[x.X] {
						set(st.cont, v)
					}
					if st.target[x.X] {
						set(st.target, v)
					}
				case *ssa.ChangeType:
					if st.cont[x.X] {
						set(st.cont, v)
					}
				case *ssa.MakeInterface:
					if st.cont[x.X] {
						set(st.cont, v)
					}
				case *ssa.Phi:
					for _, e := range x.Edges {
						if st.cont[e] {
							set(st.cont, v)
						}
					}
				}
				// the target component flows through every operand
				if _, isCall := in.(*ssa.Call); !isCall || true {
					for _, op := range in.Operands(nil) {
						if *op != nil && st.target[*op] {
							set(st.target, v)
						}
					}
				}
			}
		}
	}
	ei := core.ErrorResultIndex(fn.Signature)
	for _, b := range fn.Blocks {
		rejects := false
		for _, in := range b.Instrs {
			switch x := in.(type) {
			case *ssa.Panic:
				rejects = true
			case *ssa.Return:
				if ei >= 0 && c.M.ProvablyNonNilError(core.RetVal(x, ei), b) {
					rejects = true
				}
			case *ssa.Call:
				// pass the labels into repo callees
				args := x.Call.Args
				off := 0
				if x.Call.IsInvoke() {
					off = 1
				}
				for _, g := range c.M.Callees(&x.Call) {
					var sc, stt []ssa.Value
					for i, a := range args {
						if i+off >= len(g.Params) {
							continue
						}
						if st.cont[a] {
							sc = append(sc, g.Params[i+off])
						}
						if st.target[a] {
							stt = append(stt, g.Params[i+off])
						}
					}
					if len(sc)+len(stt) > 0 && c.guardsOn(g, sc, stt, wantKeys, wantElems, depth+1, seen) {
						return true
					}
				}
			}
		}
		if !rejects {
			continue
		}
		for _, cond := range core.CondsAt(b) {
			if st.target[cond.V] {
				return true
			}
			if bo, ok := cond.V.(*ssa.BinOp); ok && (st.target[bo.X] || st.target[bo.Y]) {
				return true
			}
		}
	}
	return false
}

func b2i(b bool) int {
	if b {
		return 1
	}
	return 0
}

// writerGuards: for each store of fn to field f: does fn guard the restricted component of the stored value?
func (c *Ctx) writerGuards(fn *ssa.Function, f *types.Var, where string) bool {
	wantKeys := strings.HasSuffix(where, "/keys")
	wantElems := strings.HasSuffix(where, "/values") || strings.HasSuffix(where, "/items")
	for _, b := range fn.Blocks {
		for _, in := range b.Instrs {
			s, ok := in.(*ssa.Store)
			if !ok {
				continue
			}
			fa, ok := s.Addr.(*ssa.FieldAddr)
			if !ok {
				continue
			}
			stT, _ := derefType(fa.X.Type()).Underlying().(*types.Struct)
			if stT == nil || stT.Field(fa.Field).Origin() != f.Origin() {
				continue
			}
			var sc, stt []ssa.Value
			if wantKeys || wantElems {
				sc = []ssa.Value{s.Val}
			} else {
				stt = []ssa.Value{s.Val}
			}
			// the stored value is usually a parameter (or derived from one): seed what it derives from too
			for _, op := range backSlice(s.Val, 4) {
				if wantKeys || wantElems {
					sc = append(sc, op)
				} else {
					stt = append(stt, op)
				}
			}
			if !c.guardsOn(fn, sc, stt, wantKeys, wantElems, 0, map[string]bool{}) {
				return false
			}
		}
	}
	return true
}

// backSlice: the values v is copied / converted from (not through calls).
func backSlice(v ssa.Value, depth int) []ssa.Value {
	if depth == 0 {
		return nil
	}
	var out []ssa.Value
	switch x := v.(type) {
	case *ssa.ChangeType:
		out = append(out, x.X)
	case *ssa.MakeInterface:
		out = append(out, x.X)
	case *ssa.Convert:
		out = append(out, x.X)
	case *ssa.Phi:
		out = append(out, x.Edges...)
	case *ssa.UnOp:
		out = append(out, x.X)
	}
	for _, o := range append([]ssa.Value{}, out...) {
		out = append(out, backSlice(o, depth-1)...)
	}
	return out
}

func (c *Ctx) ruleMetaBound(rule string) {
	objs := c.metaObjects(rule)
	for _, o := range objs {
		named := structOf(o.typ)
		if named == nil {
			continue
		}
		tags := jsonTagsOf(o.typ)
		var rows []string
		for p := range o.props {
			rows = append(rows, p)
		}
		sort.Strings(rows)
		for _, p := range rows {
			pc, ok := c.resolveInit(o.props[p], 0).(*ssa.Call)
			if !ok || calleeOriginName(pc) != "NewPropertySchema" || len(pc.Call.Args) == 0 {
				continue
			}
			var cons []metaConstraint
			c.rowConstraints(pc.Call.Args[0], "value", 0, &cons)
			if len(cons) == 0 {
				continue
			}
			f := tags[p]
			if f == nil {
				f = structFieldByName(o.typ, p)
			}
			byWhere := map[string][]string{}
			posOf := map[string]string{}
			var wheres []string
			for _, mc := range cons {
				if _, ok := byWhere[mc.where]; !ok {
					wheres = append(wheres, mc.where)
					posOf[mc.where] = mc.pos
				}
				byWhere[mc.where] = append(byWhere[mc.where], mc.what)
			}
			for _, where := range wheres {
				set := strings.Join(byWhere[where], ", ")
				k := key(rule, "meta object "+o.id, "row \""+p+"\": the restriction {"+set+"} on its "+where+" is enforced where the field is written")
				what := "meta-schema row " + o.id + "." + p + " restricts its " + where + " (" + set + ")"
				pos := posOf[where]
				if f == nil {
					c.R.Info(rule, k, pos, what, "no struct field resolved for the row (T1 reports that)")
					continue
				}
				ws := c.fieldWriters(fieldOwner(o.typ, f), f)
				if len(ws) == 0 {
					c.R.Info(rule, k, pos, what, "no function writes "+f.Name()+": the field is set by literals or by reflection only; not decided")
					continue
				}
				var free, names []string
				for _, w := range ws {
					names = append(names, c.M.Key(w))
					if !c.writerGuards(w, f, where) {
						free = append(free, c.M.Key(w))
					}
				}
				if len(free) > 0 {
					c.R.Bad(rule, k, pos, what+" but "+strings.Join(free, ", ")+" stores "+f.Name()+" with no panic or error return that depends on that "+strings.TrimPrefix(where, "value/"),
						"a schema built through that constructor with a value outside the restriction describes itself (SelfSerialize) in a form the meta-schema rejects, so it cannot be carried over ATP or rebuilt")
					continue
				}
				c.R.Info(rule, k, pos, what, "every writer of "+f.Name()+" ("+strings.Join(names, ", ")+") has a panic / error return depending on the restricted component; whether that check implies the restriction is not decided")
			}
		}
	}
}

// fieldOwner: the named struct that declares f (f may come from an inlined embedded struct of t).
func fieldOwner(t types.Type, f *types.Var) *types.Named {
	var find func(t types.Type, depth int) *types.Named
	find = func(t types.Type, depth int) *types.Named {
		if depth > 4 {
			return nil
		}
		if p, ok := t.Underlying().(*types.Pointer); ok {
			t = p.Elem()
		}
		n, _ := t.(*types.Named)
		st, ok := t.Underlying().(*types.Struct)
		if !ok {
			return nil
		}
		for i := 0; i < st.NumFields(); i++ {
			if st.Field(i).Origin() == f.Origin() {
				return n
			}
		}
		for i := 0; i < st.NumFields(); i++ {
			if st.Field(i).Embedded() {
				if r := find(st.Field(i).Type(), depth+1); r != nil {
					return r
				}
			}
		}
		return nil
	}
	return find(t, 0)
}
