package rules

import (
	"go/token"
	"go/types"
	"strings"

	"golang.org/x/tools/go/ssa"

	"verifcheck/internal/core"
)

// Rules written for the classes of defect the round-7 hunters found (and that were repaired in /repo).

// naturalLoop: the blocks of the natural loop of header h (h itself and every block that reaches a back edge into h
// without passing h).
func naturalLoop(h *ssa.BasicBlock) map[*ssa.BasicBlock]bool {
	loop := map[*ssa.BasicBlock]bool{h: true}
	var work []*ssa.BasicBlock
	for _, p := range h.Preds {
		if h.Dominates(p) && !loop[p] {
			loop[p] = true
			work = append(work, p)
		}
	}
	for len(work) > 0 {
		x := work[len(work)-1]
		work = work[:len(work)-1]
		for _, p := range x.Preds {
			if !loop[p] {
				loop[p] = true
				work = append(work, p)
			}
		}
	}
	return loop
}

// R-KEYID (C14 "a reference always denotes the object with that ID"): RefSchema.ApplyNamespace looks its object up
// under the reference's ID as the *key* of the table it is handed. A scope built by NewScopeSchema files every object
// under its ID; a scope that was unserialized from a description carries the table as it was received. So wherever a
// scope hands the table of its own objects down for linking, every entry of that table must have been compared with its
// key first - a loop over the same table in which `entry.ID()` is compared with the key and a mismatch leaves the
// function (panic or return) - on every path to the hand-over.
func (c *Ctx) ruleKeyID(rule string) {
	n := 0
	for _, named := range c.serializableTypes() {
		fn := c.methodFn(named, "ApplyNamespace")
		if fn == nil || len(fn.Blocks) == 0 || len(fn.Params) < 3 {
			continue
		}
		if !strings.HasPrefix(c.M.Key(fn), "schema."+named.Obj().Name()+".") {
			continue
		}
		// the receiver's own table: a field of type map[string]*ObjectSchema (of the receiver of g, the function looked at:
		// the ApplyNamespace itself or a same-receiver helper that chooses the table)
		ownTableIn := func(g *ssa.Function) func(v ssa.Value) bool {
			return func(v ssa.Value) bool {
				return derivedFrom(v, func(x ssa.Value) bool {
					fa, ok := x.(*ssa.FieldAddr)
					if !ok || !reachedFrom(fa.X, g.Params[0], 0) {
						return false
					}
					p, ok := fa.X.Type().Underlying().(*types.Pointer)
					if !ok {
						return false
					}
					st, ok := p.Elem().Underlying().(*types.Struct)
					if !ok {
						return false
					}
					mt, ok := st.Field(fa.Field).Type().Underlying().(*types.Map)
					return ok && isNamedPtr(mt.Elem(), "ObjectSchema")
				}) || c.returnsOwnTable(v, g)
			}
		}
		// hand-overs: calls of ApplyNamespace on something reached from the receiver with a table argument that may be
		// the receiver's own table
		for _, b := range fn.Blocks {
			for _, in := range b.Instrs {
				call, ok := in.(*ssa.Call)
				if !ok {
					continue
				}
				name := ""
				if call.Call.IsInvoke() {
					name = call.Call.Method.Name()
				} else if sc := call.Call.StaticCallee(); sc != nil {
					name = sc.Name()
				}
				if name != "ApplyNamespace" {
					continue
				}
				var table ssa.Value
				for _, a := range call.Call.Args {
					if _, isMap := a.Type().Underlying().(*types.Map); isMap {
						table = a
					}
				}
				if table == nil {
					continue
				}
				// where the own table enters the value that is handed over: the block of the call, or - for a phi - the
				// predecessor blocks of the edges that carry it, or - for a same-receiver helper that chooses the table -
				// the helper's returns that yield it
				type source struct {
					fn *ssa.Function
					b  *ssa.BasicBlock
				}
				var sources []source
				var visit func(g *ssa.Function, v ssa.Value, at *ssa.BasicBlock, d int)
				visit = func(g *ssa.Function, v ssa.Value, at *ssa.BasicBlock, d int) {
					if d > 4 {
						return
					}
					if phi, isPhi := v.(*ssa.Phi); isPhi {
						for i, e := range phi.Edges {
							visit(g, e, phi.Block().Preds[i], d+1)
						}
						return
					}
					if ownTableIn(g)(v) {
						sources = append(sources, source{g, at})
						return
					}
					if hc, isCall := v.(*ssa.Call); isCall {
						h := core.StaticBody(&hc.Call)
						if h != nil && h != g && h.Signature.Recv() != nil && len(hc.Call.Args) > 0 && reachedFrom(hc.Call.Args[0], g.Params[0], 0) {
							for _, r := range core.ReturnsOf(h) {
								if len(r.Results) == 1 {
									visit(h, r.Results[0], r.Block(), d+1)
								}
							}
						}
					}
				}
				visit(fn, table, b, 0)
				if len(sources) == 0 {
					continue
				}
				n++
				k := key(rule, c.M.Key(fn), sprintf("hand-over #%d of the scope's own table for linking only after every entry was compared with its key", n))
				why := ""
				for _, src := range sources {
					why = c.keysComparedBefore(src.fn, src.b, ownTableIn(src.fn))
					if why == "" {
						break
					}
				}
				if why != "" {
					c.R.Ok(rule, k, c.M.InstrPos(call), "linking against the scope's own table of objects", why)
				} else {
					c.R.Bad(rule, k, c.M.InstrPos(call), "the scope's own table is handed down for linking without its keys having been compared with the objects' IDs",
						"references are looked up by table key: in a received description an object filed under another key than its ID is what a reference to that key denotes - `{B: {id: C}, C: {id: B}}` makes a reference to B denote the object with ID C although an object with ID B is in the same scope")
				}
			}
		}
	}
	if n == 0 {
		c.R.Unresolved(rule, "a scope that hands its own table of objects to ApplyNamespace of its children")
	}
}

// returnsOwnTable: v is the result of a same-receiver method all of whose returns yield the receiver's table field.
func (c *Ctx) returnsOwnTable(v ssa.Value, fn *ssa.Function) bool {
	call, ok := v.(*ssa.Call)
	if !ok {
		return false
	}
	sc := call.Call.StaticCallee()
	if sc == nil || len(sc.Blocks) == 0 || len(call.Call.Args) == 0 || !reachedFrom(call.Call.Args[0], fn.Params[0], 0) {
		return false
	}
	for _, r := range core.ReturnsOf(sc) {
		if len(r.Results) != 1 {
			return false
		}
		ld, ok := r.Results[0].(*ssa.UnOp)
		if !ok {
			return false
		}
		fa, ok := ld.X.(*ssa.FieldAddr)
		if !ok || fa.X != ssa.Value(sc.Params[0]) {
			return false
		}
	}
	return true
}

// keysComparedBefore: on every path to b lies the exit of a range loop over the receiver's own table in whose body the
// ID of the entry is compared with the key, the mismatch leaving the function.
func (c *Ctx) keysComparedBefore(fn *ssa.Function, b *ssa.BasicBlock, ownTable func(ssa.Value) bool) string {
	// the check may live in a method of the same receiver that is called on the way and panics on a mismatch
	for _, cb := range fn.Blocks {
		if !(cb == b || cb.Dominates(b)) {
			continue
		}
		for _, in := range cb.Instrs {
			call, ok := in.(*ssa.Call)
			if !ok {
				continue
			}
			g := call.Call.StaticCallee()
			if g == nil || g == fn || len(g.Blocks) == 0 || len(g.Params) == 0 || len(call.Call.Args) == 0 || call.Call.Args[0] != ssa.Value(fn.Params[0]) {
				continue
			}
			if c.panicsOnMisfiledEntry(g) {
				return "behind a call of " + c.M.Key(g) + ", which walks the same table, compares every entry's ID() with its key and panics on a mismatch"
			}
		}
	}
	for _, l := range c.findMapLoops(c.M, fn) {
		if l.kind != "range" || !l.hasBackEdge || !ownTable(l.mapVal) {
			continue
		}
		exit := l.exitBlock()
		if exit == nil || !(exit == b || exit.Dominates(b)) || l.blocks[b] {
			continue
		}
		// key and value of this loop
		isKey := func(v ssa.Value) bool {
			ex, ok := core.Unwrap(v).(*ssa.Extract)
			if !ok || ex.Index != 1 {
				return false
			}
			nx, ok := ex.Tuple.(*ssa.Next)
			return ok && nx.Block() == l.header
		}
		isEntryID := func(v ssa.Value) bool {
			call, ok := core.Unwrap(v).(*ssa.Call)
			if !ok {
				return false
			}
			name := ""
			var recv ssa.Value
			if call.Call.IsInvoke() {
				name, recv = call.Call.Method.Name(), call.Call.Value
			} else if sc := call.Call.StaticCallee(); sc != nil && len(call.Call.Args) == 1 {
				name, recv = sc.Name(), call.Call.Args[0]
			}
			if name != "ID" || recv == nil {
				return false
			}
			ex, ok := core.Unwrap(recv).(*ssa.Extract)
			if !ok || ex.Index != 2 {
				return false
			}
			nx, ok := ex.Tuple.(*ssa.Next)
			return ok && nx.Block() == l.header
		}
		// through the call whose outcome implies the comparison (the check of one entry, moved into a helper): the
		// helper's parameters stand for the arguments of the call
		resolve := func(cond core.Cond, v ssa.Value) ssa.Value {
			v = core.Unwrap(v)
			if cond.Via == nil {
				return v
			}
			helper := core.StaticBody(&cond.Via.Call)
			if p, isParam := v.(*ssa.Parameter); isParam && helper != nil {
				for i, q := range helper.Params {
					if q == p && i < len(cond.Via.Call.Args) {
						return core.Unwrap(cond.Via.Call.Args[i])
					}
				}
			}
			return v
		}
		for lb := range l.blocks {
			if _, ok := lb.Instrs[len(lb.Instrs)-1].(*ssa.If); !ok || lb.Succs[0] == lb.Succs[1] {
				continue
			}
			for si, succ := range lb.Succs {
				equal := false
				for _, cond := range core.EdgeConds(lb, succ) {
					bin, ok := cond.V.(*ssa.BinOp)
					if !ok || (bin.Op != token.NEQ && bin.Op != token.EQL) || (bin.Op == token.EQL) != cond.True {
						continue
					}
					entryID := func(v ssa.Value) bool {
						if isEntryID(v) {
							return true
						}
						// ID() of a helper's parameter that stands for the loop's value
						call, ok := core.Unwrap(v).(*ssa.Call)
						if !ok || cond.Via == nil {
							return false
						}
						name := ""
						var recv ssa.Value
						if call.Call.IsInvoke() {
							name, recv = call.Call.Method.Name(), call.Call.Value
						} else if sc := call.Call.StaticCallee(); sc != nil && len(call.Call.Args) == 1 {
							name, recv = sc.Name(), call.Call.Args[0]
						}
						if name != "ID" || recv == nil {
							return false
						}
						ex, ok := resolve(cond, recv).(*ssa.Extract)
						if !ok || ex.Index != 2 {
							return false
						}
						nx, ok := ex.Tuple.(*ssa.Next)
						return ok && nx.Block() == l.header
					}
					key := func(v ssa.Value) bool { return isKey(resolve(cond, v)) }
					if (key(bin.X) && entryID(bin.Y)) || (key(bin.Y) && entryID(bin.X)) {
						equal = true
					}
				}
				if !equal {
					continue
				}
				mismatch := lb.Succs[1-si]
				if mismatch != b && !blockReaches(mismatch, b, nil) && !l.blocks[mismatch] || (len(mismatch.Succs) == 0) {
					return "behind a loop over the same table that compares every entry's ID() with its key and leaves the function on a mismatch (" + c.M.Pos(l.pos) + ")"
				}
			}
		}
	}
	return ""
}

// R-SEGKIND (C17 "its path is the sequence of property names, list indices and map keys leading from the root to the
// element"): every segment a function reachable from Unserialize / Validate puts into an error's path is made of a key
// of the data (or of the schema's property table), a loop index, or a parameter of the function - formatted, converted
// or concatenated with constants, nothing else. A segment made of anything else (the member a one-of selected, a type
// name) names no place in the input: the author cannot follow the path, and the sibling operations, which report the
// same element without it, disagree.
func (c *Ctx) ruleSegKind(rule string) {
	reach := c.reachableOutsideRecover(c.entryData("Unserialize", "Validate", "UnserializeType", "ValidateType"))
	var isKey func(v ssa.Value, depth int) bool
	isKey = func(v ssa.Value, depth int) bool {
		if depth > 5 {
			return false
		}
		switch x := v.(type) {
		case *ssa.Extract:
			if nx, ok := x.Tuple.(*ssa.Next); ok {
				return x.Index == 1 && !nx.IsString
			}
		case *ssa.Call:
			if m := reflectValueMethod(x); m == "Interface" || m == "String" {
				return isKey(x.Call.Args[0], depth+1)
			}
			if core.StaticCalleeName(&x.Call) == "(*reflect.MapIter).Key" {
				return true
			}
		case *ssa.UnOp:
			if ia, ok := x.X.(*ssa.IndexAddr); ok {
				if mk, ok := ia.X.(*ssa.Call); ok && reflectValueMethod(mk) == "MapKeys" {
					return true
				}
			}
		case *ssa.Parameter:
			// the key handed to a worker of the loop: every call site passes a key
			if typeStr(x.Type()) != "reflect.Value" || x.Parent() == nil {
				return false
			}
			sites := core.PlainSites(x.Parent())
			for _, site := range sites {
				found := false
				for i, q := range x.Parent().Params {
					if q == x && i < len(site.Call.Args) && isKey(site.Call.Args[i], depth+1) {
						found = true
					}
				}
				if !found {
					return false
				}
			}
			return len(sites) > 0
		}
		return false
	}
	var segOK func(v ssa.Value, depth int) (bool, string)
	segOK = func(v ssa.Value, depth int) (bool, string) {
		if v == nil || depth > 10 {
			return false, "a value that could not be followed"
		}
		if isKey(v, 0) {
			return true, ""
		}
		switch x := v.(type) {
		case *ssa.Const, *ssa.Parameter, *ssa.FreeVar:
			return true, ""
		case *ssa.MakeInterface:
			return segOK(x.X, depth+1)
		case *ssa.ChangeInterface:
			return segOK(x.X, depth+1)
		case *ssa.ChangeType:
			return segOK(x.X, depth+1)
		case *ssa.Convert:
			return segOK(x.X, depth+1)
		case *ssa.TypeAssert:
			return segOK(x.X, depth+1)
		case *ssa.Extract:
			if ta, ok := x.Tuple.(*ssa.TypeAssert); ok {
				return segOK(ta.X, depth+1)
			}
			if lk, ok := x.Tuple.(*ssa.Lookup); ok {
				return segOK(lk.Index, depth+1)
			}
			if conv, ok := x.Tuple.(*ssa.Call); ok && x.Index == 0 {
				// the key as converted by a data operation (checkAndConvert(k.Interface()), KeysValue.Unserialize(k))
				for _, a := range conv.Call.Args {
					if isKey(a, 0) {
						return true, ""
					}
				}
			}
		case *ssa.Phi:
			if bt, ok := x.Type().Underlying().(*types.Basic); ok && bt.Info()&types.IsInteger != 0 {
				return true, "" // a loop index
			}
			for _, e := range x.Edges {
				if ok, why := segOK(e, depth+1); !ok {
					return false, why
				}
			}
			return true, ""
		case *ssa.BinOp:
			if bt, ok := x.Type().Underlying().(*types.Basic); ok && bt.Info()&types.IsInteger != 0 {
				return true, "" // index arithmetic
			}
			if x.Op == token.ADD {
				if ok, why := segOK(x.X, depth+1); !ok {
					return false, why
				}
				return segOK(x.Y, depth+1)
			}
		case *ssa.UnOp:
			if al, ok := x.X.(*ssa.Alloc); ok && x.Op == token.MUL {
				n := 0
				for _, r := range *al.Referrers() {
					if st, ok := r.(*ssa.Store); ok && st.Addr == ssa.Value(al) {
						n++
						if ok, why := segOK(st.Val, depth+1); !ok {
							return false, why
						}
					}
				}
				return n > 0, "a local that is never stored"
			}
			if ia, ok := x.X.(*ssa.IndexAddr); ok && x.Op == token.MUL {
				// an element of a list of keys (sorted property IDs)
				return segOK(ia.X, depth+1)
			}
		case *ssa.Slice:
			return segOK(x.X, depth+1)
		case *ssa.Call:
			name := core.StaticCalleeName(&x.Call)
			switch {
			case strings.HasSuffix(name, "fmt.Sprintf") && len(x.Call.Args) == 2:
				for _, e := range variadicElems(x.Call.Args[1]) {
					if ok, why := segOK(e, depth+1); !ok {
						return false, why
					}
				}
				return true, ""
			case strings.HasSuffix(name, "fmt.Sprint") && len(x.Call.Args) == 1:
				for _, e := range variadicElems(x.Call.Args[0]) {
					if ok, why := segOK(e, depth+1); !ok {
						return false, why
					}
				}
				return true, ""
			case strings.HasPrefix(name, "strconv.") && len(x.Call.Args) >= 1:
				return segOK(x.Call.Args[0], depth+1)
			}
			if bi, ok := x.Call.Value.(*ssa.Builtin); ok && bi.Name() == "append" {
				// a list of keys collected from a map
				for _, a := range x.Call.Args {
					if ok, why := segOK(a, depth+1); !ok {
						return false, why
					}
				}
				return true, ""
			}
			return false, "the result of " + c.calledName(x)
		case *ssa.MakeSlice, *ssa.Alloc:
			return true, ""
		}
		return false, "a value of form " + strings.TrimPrefix(sprintf("%T", v), "*ssa.")
	}
	n := 0
	for _, fn := range c.M.SortedFuncs(reach) {
		cnt := 0
		for _, b := range fn.Blocks {
			for _, in := range b.Instrs {
				call, ok := in.(*ssa.Call)
				if !ok {
					continue
				}
				name := core.StaticCalleeName(&call.Call)
				var seg ssa.Value
				switch {
				case strings.HasSuffix(name, ".ConstraintErrorAddPathSegment") && len(call.Call.Args) == 2:
					seg = call.Call.Args[1]
				case strings.HasSuffix(name, "ConstraintError).AddPathSegment") && len(call.Call.Args) == 2:
					seg = call.Call.Args[1]
				default:
					continue
				}
				if c.M.Key(fn) == "schema.ConstraintErrorAddPathSegment" {
					continue // the helper hands its parameter on
				}
				n++
				cnt++
				k := key(rule, c.M.Key(fn), sprintf("path segment #%d is made of a key, an index or a property name", cnt))
				if ok, why := segOK(seg, 0); ok {
					c.R.Ok(rule, k, c.M.InstrPos(call), "segment added to an error's path", "formatted from the key / index the enclosing loop is at, or from a parameter")
				} else {
					c.R.Bad(rule, k, c.M.InstrPos(call), "a path segment that is no property name, list index or map key",
						"the segment is made of "+why+": it names no place in the input, and the operations that report the same element without it (Unserialize beside Validate) disagree about the path")
				}
			}
		}
	}
	if n < 8 {
		c.R.Unresolved(rule, sprintf("path segments added below Unserialize / Validate (%d found, at least 8 expected)", n))
	}
}

func (c *Ctx) calledName(call *ssa.Call) string {
	if call.Call.IsInvoke() {
		return call.Call.Method.Name()
	}
	if n := core.StaticCalleeName(&call.Call); n != "" {
		return n
	}
	return "a call"
}

// R-KINDSIB (C14 "replacing references by the objects they denote never changes which inputs are accepted or what they
// unserialize to"): an object is reached in three forms - inline, through a reference, and as the root of a scope of
// its own (which is what a reference into another namespace amounts to once it is inlined). Code that tells types
// apart by TypeID and has a case for the reference and a case for the object treats them as interchangeable; it must
// then have a case for the scope as well, or the third form behaves differently. Obligation: per function and per
// value whose TypeID() is compared with constants, the set of constants compared contains TypeIDScope whenever it
// contains both TypeIDRef and TypeIDObject.
func (c *Ctx) ruleKindSib(rule string) {
	n := 0
	for _, fn := range c.M.SortedFuncs(c.scopePkg("schema")) {
		sets := map[string]map[string]bool{}
		pos := map[string]string{}
		var order []string
		for _, b := range fn.Blocks {
			for _, in := range b.Instrs {
				bin, ok := in.(*ssa.BinOp)
				if !ok || (bin.Op != token.EQL && bin.Op != token.NEQ) {
					continue
				}
				for _, pair := range [][2]ssa.Value{{bin.X, bin.Y}, {bin.Y, bin.X}} {
					call, ok := pair[0].(*ssa.Call)
					if !ok || c.calledMethodName(call) != "TypeID" {
						continue
					}
					k, isConst := core.ConstString(pair[1])
					if !isConst {
						continue
					}
					var recv ssa.Value
					if call.Call.IsInvoke() {
						recv = call.Call.Value
					} else if len(call.Call.Args) > 0 {
						recv = call.Call.Args[0]
					}
					rp := c.M.ValPath(recv)
					if sets[rp] == nil {
						sets[rp] = map[string]bool{}
						pos[rp] = c.M.InstrPos(bin)
						order = append(order, rp)
					}
					sets[rp][k] = true
				}
			}
		}
		for _, rp := range order {
			set := sets[rp]
			if !(set["ref"] && set["object"]) {
				continue
			}
			n++
			k := key(rule, c.M.Key(fn), "the kinds compared with TypeID() of "+c.stable(fn, rp)+" include the scope beside the reference and the object")
			if set["scope"] {
				c.R.Ok(rule, k, pos[rp], "case distinction over the object-like kinds", "cases for ref, object and scope")
			} else {
				c.R.Bad(rule, k, pos[rp], "a case distinction treats the reference and the object alike but has no case for the scope",
					"an object in a nested scope of its own - what a reference into another namespace is once it is inlined - takes the default branch: the same input unserializes to another value, or a required property is reported missing, for one form and not for the others")
			}
		}
	}
	if n == 0 {
		c.R.Unresolved(rule, "a case distinction over TypeID() with cases for the reference and the object")
	}
}

// R-FORWARDALL (C06 "every Execute call returns ... under every interleaving of signal traffic"): the goroutine that
// forwards the caller's signals to the step - a loop around a select that receives from a receive-only channel
// parameter - must keep forwarding for as long as the run may need a signal. It may leave the loop where the caller's
// channel is closed, where another case of the select fired (cancellation), or where writing to the peer failed; a
// return on any other condition (a signal it does not like) strands every signal behind it: a step that ends on one of
// them never ends, and Execute and Close wait for it for ever.
func (c *Ctx) ruleForwardAll(rule string) {
	n := 0
	for _, fn := range c.M.SortedFuncs(c.scopePkg("atp")) {
		for _, b := range fn.Blocks {
			for _, in := range b.Instrs {
				sel, ok := in.(*ssa.Select)
				if !ok || !sel.Blocking {
					continue
				}
				// a receive from a channel parameter (receive-only) of this function
				dataCase := -1
				for i, st := range sel.States {
					if st.Dir != types.RecvOnly {
						continue
					}
					if p, isParam := st.Chan.(*ssa.Parameter); isParam {
						if ch, isChan := p.Type().Underlying().(*types.Chan); isChan && ch.Dir() == types.RecvOnly {
							dataCase = i
						}
					}
				}
				if dataCase < 0 {
					continue
				}
				// the loop the select sits in
				var header *ssa.BasicBlock
				for _, h := range fn.Blocks {
					if isLoopHeader(h) && naturalLoop(h)[b] && (header == nil || header.Dominates(h)) {
						header = h
					}
				}
				if header == nil {
					continue
				}
				n++
				cnt := 0
				for _, r := range core.ReturnsOf(fn) {
					if !header.Dominates(r.Block()) {
						continue
					}
					cnt++
					k := key(rule, c.M.Key(fn), sprintf("exit #%d from the forwarding loop is a closed channel, another select case or a failed write", cnt))
					why := ""
					for _, cond := range r.Conds() {
						switch x := cond.V.(type) {
						case *ssa.BinOp:
							// index of the select compared with a case number
							if ex, ok := x.X.(*ssa.Extract); ok && ex.Tuple == ssa.Value(sel) && ex.Index == 0 && x.Op == token.EQL {
								if kk, isConst := core.ConstInt(x.Y); isConst {
									if (int(kk) == dataCase) != cond.True {
										why = "another case of the select fired (cancellation)"
									}
								}
							}
							if y, neq, ok := core.NilCmp(x); ok && neq == cond.True {
								if cc, isCall := core.Unwrap(y).(*ssa.Call); isCall && core.IsErrorType(cc.Type()) {
									why = "a write to the peer failed (" + c.calledName(cc) + ")"
								}
							}
						case *ssa.Extract:
							if x.Tuple == ssa.Value(sel) && x.Index == 1 && !cond.True {
								why = "the caller's channel is closed"
							}
						}
					}
					if why != "" {
						c.R.Ok(rule, k, c.M.InstrPos(r), "exit from the signal forwarding loop", why)
					} else {
						c.R.Bad(rule, k, c.M.InstrPos(r), "the signal forwarder gives up although the channel is open, nothing was cancelled and no write failed",
							"every signal the caller submits after this point stays in the channel: a step that ends only on one of them never ends, and Execute and Close wait for ever on a correct peer (one signal without an ID is enough)")
					}
				}
			}
		}
	}
	if n == 0 {
		c.R.Unresolved(rule, "a loop around a select that receives from a receive-only channel parameter (the signal forwarder)")
	}
}

// R-DEFERUNLOCK (C07 "never deadlocks ... answers every accepted work-start"; C11): the SDK calls code it does not own -
// a step's initializer, handlers, signal handlers: values of function type kept in fields - and catches their panics
// further up (the server's recover around a step, a signal). A mutex that is held while such code runs must therefore be
// released by a deferred unlock: an explicit Unlock behind the call is skipped by a panic, the recover lets the
// process live on, and the next caller of Lock waits for ever. Obligation, per Lock / RLock of a sync mutex whose
// critical section (the instructions reachable from the Lock without passing an Unlock of the same mutex) contains a
// call through a function value loaded from a field: the unlock is deferred.
func (c *Ctx) ruleDeferUnlock(rule string, fns map[*ssa.Function]bool) {
	n := 0
	for _, fn := range c.M.SortedFuncs(fns) {
		cnt := 0
		for _, b := range fn.Blocks {
			for i, in := range b.Instrs {
				call, ok := in.(*ssa.Call)
				if !ok {
					continue
				}
				name := core.StaticCalleeName(&call.Call)
				var unlock string
				switch name {
				case "(*sync.Mutex).Lock", "(*sync.RWMutex).Lock":
					unlock = strings.Replace(name, ").Lock", ").Unlock", 1)
				case "(*sync.RWMutex).RLock":
					unlock = "(*sync.RWMutex).RUnlock"
				default:
					continue
				}
				mutex := c.M.ValPath(call.Call.Args[0])
				// deferred unlock of the same mutex in this function?
				deferred := false
				for _, db := range fn.Blocks {
					for _, din := range db.Instrs {
						if d, ok := din.(*ssa.Defer); ok && core.StaticCalleeName(&d.Call) == unlock && len(d.Call.Args) > 0 && c.M.ValPath(d.Call.Args[0]) == mutex {
							deferred = true
						}
					}
				}
				// foreign calls inside the critical section
				var foreign ssa.Instruction
				seen := map[*ssa.BasicBlock]bool{}
				var walk func(wb *ssa.BasicBlock, from int)
				walk = func(wb *ssa.BasicBlock, from int) {
					for j := from; j < len(wb.Instrs); j++ {
						switch x := wb.Instrs[j].(type) {
						case *ssa.Call:
							if core.StaticCalleeName(&x.Call) == unlock && len(x.Call.Args) > 0 && c.M.ValPath(x.Call.Args[0]) == mutex {
								return
							}
							if !x.Call.IsInvoke() && x.Call.StaticCallee() == nil {
								if _, isBuiltin := x.Call.Value.(*ssa.Builtin); !isBuiltin && fromFuncField(x.Call.Value) && foreign == nil {
									foreign = x
								}
							}
							// the same inside a function of the module that the section calls (the body of the section, moved into
							// a worker), also when the function kept in the field is handed to it as an argument
							if body := core.StaticBody(&x.Call); body != nil && foreign == nil && c.runsFieldFunc(body, x.Call.Args, 0) {
								foreign = x
							}
						}
					}
					for _, s := range wb.Succs {
						if !seen[s] {
							seen[s] = true
							walk(s, 0)
						}
					}
				}
				walk(b, i+1)
				if foreign == nil {
					continue
				}
				n++
				cnt++
				k := key(rule, c.M.Key(fn), sprintf("%s #%d: the mutex held while a function kept in a field runs is released by a deferred unlock", strings.TrimPrefix(name, "(*sync."), cnt))
				if deferred {
					c.R.Ok(rule, k, c.M.InstrPos(call), "critical section that runs code the SDK does not own", "the unlock is deferred: a panic of the called code releases the mutex on its way to the recover")
				} else {
					c.R.Bad(rule, k, c.M.InstrPos(foreign), "a mutex is held across a call of code the SDK does not own, and released by an explicit unlock only",
						"a panic of that code (caught further up: the process lives on) skips the unlock: the next Lock of "+c.stable(fn, mutex)+" waits for ever - the next run of the step is never answered, and the server never returns")
				}
			}
		}
	}
	if n == 0 {
		c.R.Unresolved(rule, "a critical section that calls a function kept in a field (the step's initializer)")
	}
}

// runsFieldFunc: fn (called with args) calls a function kept in a field - loaded by fn itself, or by its caller and
// handed over as an argument - directly or through the functions of the module it calls.
func (c *Ctx) runsFieldFunc(fn *ssa.Function, args []ssa.Value, depth int) bool {
	if depth > 3 {
		return false
	}
	for _, b := range fn.Blocks {
		for _, in := range b.Instrs {
			x, ok := in.(*ssa.Call)
			if !ok || x.Call.IsInvoke() {
				continue
			}
			if x.Call.StaticCallee() == nil {
				if _, isBuiltin := x.Call.Value.(*ssa.Builtin); isBuiltin {
					continue
				}
				if fromFuncField(x.Call.Value) {
					return true
				}
				for i, p := range fn.Params {
					if x.Call.Value == ssa.Value(p) && i < len(args) && args[i] != nil && fromFuncField(args[i]) {
						return true
					}
				}
				continue
			}
			if body := core.StaticBody(&x.Call); body != nil && body != fn {
				// arguments that are parameters of fn keep what the caller passed
				inner := make([]ssa.Value, len(x.Call.Args))
				for j, a := range x.Call.Args {
					inner[j] = a
					for i, p := range fn.Params {
						if a == ssa.Value(p) && i < len(args) {
							inner[j] = args[i]
						}
					}
				}
				if c.runsFieldFunc(body, inner, depth+1) {
					return true
				}
			}
		}
	}
	return false
}

// fromFuncField: v is loaded from a struct field of function type.
func fromFuncField(v ssa.Value) bool {
	for i := 0; i < 4; i++ {
		switch x := v.(type) {
		case *ssa.UnOp:
			if fa, ok := x.X.(*ssa.FieldAddr); ok {
				_, isFunc := fa.Type().Underlying().(*types.Pointer).Elem().Underlying().(*types.Signature)
				return isFunc
			}
			return false
		case *ssa.Field:
			_, isFunc := x.Type().Underlying().(*types.Signature)
			return isFunc
		case *ssa.ChangeType:
			v = x.X
		case *ssa.Phi:
			for _, e := range x.Edges {
				if fromFuncField(e) {
					return true
				}
			}
			return false
		default:
			return false
		}
	}
	return false
}

// R-LOOPBLOCK (C06 "no thread schedule can leave a caller waiting for a result that has been or will be delivered"): one
// goroutine reads the connection for all runs. While it waits for anything else than the next message, no run on the
// connection gets its result. Every channel operation in the functions the read loop runs synchronously is an
// obligation: it must not be able to wait for somebody outside the client - a select needs a default case, or every
// channel it sends on is made by the client itself with room for the message; a receive waits only for what the client
// itself sends. A blocking send on a channel the *caller* supplied (the emitted-signals channel of a run) waits for the
// caller: if the caller is busy - inside another Execute, waiting for this very read loop - everything waits.
func (c *Ctx) ruleLoopBlock(rule string) {
	ro := c.roles()
	if !ro.ok || ro.readLoop == nil {
		c.R.Unresolved(rule, "the client's read loop")
		return
	}
	n := 0
	for _, fn := range c.M.SortedFuncs(c.reachSync(ro.readLoop)) {
		if fn.Pkg == nil || fn.Pkg != ro.readLoop.Pkg {
			continue
		}
		cnt := 0
		for _, b := range fn.Blocks {
			for _, in := range b.Instrs {
				var what string
				var chans []ssa.Value
				blocking := false
				switch x := in.(type) {
				case *ssa.Send:
					what, chans, blocking = "send", []ssa.Value{x.Chan}, true
				case *ssa.Select:
					for _, st := range x.States {
						if st.Dir == types.SendOnly {
							chans = append(chans, st.Chan)
						}
					}
					what, blocking = "select", x.Blocking
					if len(chans) == 0 {
						continue // only receives: waits for what the client itself signals (cancellation)
					}
				default:
					continue
				}
				n++
				cnt++
				k := key(rule, c.M.Key(fn), sprintf("%s #%d in the read loop cannot wait for a receiver outside the client", what, cnt))
				if !blocking {
					c.R.Ok(rule, k, c.M.InstrPos(in), "channel operation in the goroutine that reads for all runs", "the select has a default case")
					continue
				}
				foreign := ""
				for _, ch := range chans {
					if !madeByClient(ch) {
						foreign = c.stable(fn, c.M.ValPath(ch))
					}
				}
				if foreign == "" {
					c.R.Ok(rule, k, c.M.InstrPos(in), "channel operation in the goroutine that reads for all runs", "every channel sent on is made by the client itself")
				} else {
					c.R.Bad(rule, k, c.M.InstrPos(in), "the read loop waits, without a default case, for a receiver the caller controls",
						"the channel "+foreign+" was supplied by a caller of Execute: until that caller receives (or Close cancels), the one goroutine that reads the connection reads nothing, and no run gets its result - a caller that reacts to a signal by calling Execute waits for the read loop, which waits for the caller")
				}
			}
		}
	}
	if n == 0 {
		c.R.Unresolved(rule, "channel sends in the functions the read loop runs")
	}
}

// madeByClient: the channel value is the result of a make in the same function (possibly through a local).
func madeByClient(ch ssa.Value) bool {
	switch x := ch.(type) {
	case *ssa.MakeChan:
		return true
	case *ssa.UnOp:
		if al, ok := x.X.(*ssa.Alloc); ok {
			for _, r := range *al.Referrers() {
				if st, ok := r.(*ssa.Store); ok && st.Addr == ssa.Value(al) {
					if _, isMake := st.Val.(*ssa.MakeChan); !isMake {
						return false
					}
				}
			}
			return true
		}
	case *ssa.ChangeType:
		return madeByClient(x.X)
	}
	return false
}

// panicsOnMisfiledEntry: g ranges over a map[string]*ObjectSchema field of its receiver, compares the entry's ID() with
// the key, and the mismatch ends in a panic.
func (c *Ctx) panicsOnMisfiledEntry(g *ssa.Function) bool {
	for _, l := range c.findMapLoops(c.M, g) {
		if l.kind != "range" || !l.hasBackEdge || !reachedFrom(l.mapVal, g.Params[0], 0) {
			continue
		}
		mt, ok := l.mapVal.Type().Underlying().(*types.Map)
		if !ok || !isNamedPtr(mt.Elem(), "ObjectSchema") {
			continue
		}
		for lb := range l.blocks {
			iff, ok := lb.Instrs[len(lb.Instrs)-1].(*ssa.If)
			if !ok {
				continue
			}
			bin, ok := iff.Cond.(*ssa.BinOp)
			if !ok || (bin.Op != token.NEQ && bin.Op != token.EQL) {
				continue
			}
			fromNext := func(v ssa.Value, idx int) bool {
				ex, ok := core.Unwrap(v).(*ssa.Extract)
				if !ok || ex.Index != idx {
					return false
				}
				nx, ok := ex.Tuple.(*ssa.Next)
				return ok && nx.Block() == l.header
			}
			isID := func(v ssa.Value) bool {
				call, ok := core.Unwrap(v).(*ssa.Call)
				if !ok {
					return false
				}
				if call.Call.IsInvoke() {
					return call.Call.Method.Name() == "ID" && fromNext(call.Call.Value, 2)
				}
				sc := call.Call.StaticCallee()
				return sc != nil && sc.Name() == "ID" && len(call.Call.Args) == 1 && fromNext(call.Call.Args[0], 2)
			}
			if !((fromNext(bin.X, 1) && isID(bin.Y)) || (fromNext(bin.Y, 1) && isID(bin.X))) {
				continue
			}
			mismatch := lb.Succs[0]
			if bin.Op == token.EQL {
				mismatch = lb.Succs[1]
			}
			if len(mismatch.Succs) == 0 {
				if _, isPanic := mismatch.Instrs[len(mismatch.Instrs)-1].(*ssa.Panic); isPanic {
					return true
				}
			}
		}
	}
	return false
}
