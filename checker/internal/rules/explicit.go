package rules

import (
	"go/token"
	"go/types"
	"os"
	"sort"
	"strings"

	"golang.org/x/tools/go/ssa"

	"verifcheck/internal/core"
)

// R-EXPLICIT: explicit panic(...) statements reachable from an entry set, classified by what controls them:
//   data-dependent   a controlling condition depends on the operation's data argument  -> violation everywhere
//   schema-state     controlling conditions depend only on the receiver / schema state -> excused for well-formed
//                    schemas (C04: A1/A2), violation for wire-built schemas (C10)
//   internal         the condition is excluded by a fact established by the (only) callers
// The dependency on data is an interprocedural taint from the data parameters of the entry methods.

type taint struct {
	m       *core.Module
	params  map[*ssa.Function]map[int]bool
	changed bool
}

func (c *Ctx) dataTaint(entries []*ssa.Function) *taint {
	t := &taint{m: c.M, params: map[*ssa.Function]map[int]bool{}}
	mark := func(fn *ssa.Function, i int) {
		if t.params[fn] == nil {
			t.params[fn] = map[int]bool{}
		}
		if !t.params[fn][i] {
			t.params[fn][i] = true
			t.changed = true
			if debugInvariant {
				println("TAINT", c.M.Key(fn), i)
			}
		}
	}
	for _, e := range entries {
		for i := range e.Params {
			if i == 0 && e.Signature.Recv() != nil {
				continue
			}
			mark(e, i)
		}
	}
	for iter := 0; iter < 30; iter++ {
		t.changed = false
		for fn, ps := range t.params {
			if len(ps) == 0 {
				continue
			}
			tv := t.taintedValues(fn)
			for _, b := range fn.Blocks {
				for _, in := range b.Instrs {
					ci, ok := in.(ssa.CallInstruction)
					if !ok {
						continue
					}
					cc := ci.Common()
					args := cc.Args
					if cc.IsInvoke() {
						args = append([]ssa.Value{cc.Value}, cc.Args...)
					}
					for _, callee := range c.M.Callees(cc) {
						for i, a := range args {
							if i == 0 && callee.Signature.Recv() != nil {
								// a tainted value used as a method receiver is being treated as a schema (schema-mode
								// compatibility checks): what its state guards test is schema state, not data
								continue
							}
							if tv[a] && i < len(callee.Params) {
								mark(callee, i)
							}
						}
						// closures: tainted bindings taint free variables (index offset after params)
						if mc, ok := cc.Value.(*ssa.MakeClosure); ok {
							for i, bnd := range mc.Bindings {
								if tv[bnd] {
									mark(callee, 1000+i)
								}
							}
						}
					}
				}
			}
		}
		if !t.changed {
			break
		}
	}
	return t
}

// taintedValues: SSA values of fn that depend on a tainted parameter (flow-insensitive closure over operands;
// results of calls with a tainted argument are tainted; loads from tainted addresses / locals stored with tainted
// values are tainted).
func (t *taint) taintedValues(fn *ssa.Function) map[ssa.Value]bool {
	tv := map[ssa.Value]bool{}
	for i, p := range fn.Params {
		if t.params[fn][i] {
			tv[p] = true
		}
	}
	for i, fv := range fn.FreeVars {
		if t.params[fn][1000+i] {
			tv[fv] = true
		}
	}
	for changed := true; changed; {
		changed = false
		for _, b := range fn.Blocks {
			for _, in := range b.Instrs {
				// stores taint the local they write
				if st, ok := in.(*ssa.Store); ok {
					if tv[st.Val] {
						base := st.Addr
						for {
							switch x := base.(type) {
							case *ssa.FieldAddr:
								base = x.X
								continue
							case *ssa.IndexAddr:
								base = x.X
								continue
							}
							break
						}
						if _, isAlloc := base.(*ssa.Alloc); isAlloc && !tv[base] {
							tv[base] = true
							changed = true
						}
					}
					continue
				}
				if mu, ok := in.(*ssa.MapUpdate); ok {
					if (tv[mu.Value] || tv[mu.Key]) && !tv[mu.Map] {
						tv[mu.Map] = true
						changed = true
					}
					continue
				}
				v, ok := in.(ssa.Value)
				if !ok || tv[v] {
					continue
				}
				var ops []*ssa.Value
				for _, op := range in.Operands(ops) {
					if op != nil && *op != nil && tv[*op] {
						tv[v] = true
						changed = true
						break
					}
				}
			}
		}
	}
	return tv
}

func (c *Ctx) ruleExplicit(rule string, mod *core.Module, roots []*ssa.Function, tnt *taint, stateGuardsExcused bool) {
	reach := mod.Reachable(roots, isRecoverScope)
	type site struct {
		fn *ssa.Function
		p  *ssa.Panic
	}
	var sites []site
	for fn := range reach {
		for _, b := range fn.Blocks {
			for _, in := range b.Instrs {
				if p, ok := in.(*ssa.Panic); ok && p.Pos().IsValid() {
					sites = append(sites, site{fn, p})
				}
			}
		}
	}
	sort.Slice(sites, func(i, j int) bool {
		if mod.Key(sites[i].fn) != mod.Key(sites[j].fn) {
			return mod.Key(sites[i].fn) < mod.Key(sites[j].fn)
		}
		return sites[i].p.Pos() < sites[j].p.Pos()
	})
	perFn := map[string]int{}
	for _, s := range sites {
		fk := mod.Key(s.fn)
		perFn[fk]++
		desc := c.panicDesc(mod, s.fn, s.p)
		k := key(rule, fk, sprintf("panic#%d when %s", perFn[fk], desc))
		pos := mod.InstrPos(s.p)
		dataDep := false
		if tnt != nil {
			// the innermost controlling condition decides the panic; outer ones only make the site reachable
			tv := tnt.taintedValues(s.fn)
			if conds := core.CondsAt(s.p.Block()); len(conds) > 0 && tv[conds[0].V] {
				dataDep = true
			}
		}
		switch {
		case c.isEnvAbort(mod, s.fn, s.p):
			c.R.Add(core.Obligation{Rule: rule, Key: k, Pos: pos, What: "explicit panic (environment abort)", Status: core.Info,
				How: "controlled by an error from I/O or from constructing a codec mode; not reachable through data"})
		case dataDep:
			c.R.Bad(rule, k, pos, "explicit panic controlled by the data argument", "a condition that decides this panic depends on the value passed to the operation: bad data panics instead of yielding an error")
		case c.internalInvariant(mod, s.fn, s.p):
			c.R.Ok(rule, k, pos, "explicit panic (internal invariant)", "the controlling condition is excluded by a fact established at every call site / by the type parameter's constraint")
		case c.checkedAtLink(mod, s.fn, reach) != "":
			c.R.Ok(rule, k, pos, "explicit panic (schema-state guard, evaluated when the schema is linked)", c.checkedAtLink(mod, s.fn, reach))
		case stateGuardsExcused:
			c.R.Ok(rule, k, pos, "explicit panic (schema-state guard)", "controlled only by schema state (unlinked reference, missing root, mis-built table): excluded for well-formed schemas (A1/A2)")
		default:
			// a guard that sits in an unexported helper of the type whose state it tests stands for the exported
			// methods that call it: the finding is keyed by the operation that panics, wherever the test is written
			if owners := c.guardOwners(mod, s.fn); len(owners) > 0 {
				perFn[fk]--
				for _, o := range owners {
					ok2 := mod.Key(o)
					perFn[ok2]++
					c.R.Bad(rule, key(rule, ok2, sprintf("panic#%d when %s", perFn[ok2], desc)), pos, "explicit panic on schema state that a received description can produce",
						"the guard (in "+fk+", called by this method) depends only on the schema's own state; a description from a plugin that leaves the schema in that state is accepted by the loader (or reaches this code during loading) and then panics in the engine")
				}
				continue
			}
			c.R.Bad(rule, k, pos, "explicit panic on schema state that a received description can produce",
				"the guard depends only on the schema's own state; a description from a plugin that leaves the schema in that state is accepted by the loader (or reaches this code during loading) and then panics in the engine")
		}
	}
}

// checkedAtLink: the schema-state panic in fn cannot be the first one a received description meets in the data API,
// because linking - which every loader runs over everything it returns (R-FORWARD, R-LOADLINK), inside its recover scope -
// evaluates the same condition first:
//
//	(1) fn is called by ScopeSchema.ApplyNamespace on the self-namespace branch (each path of that branch passes the
//	    call): a scope with that defect never leaves the loader; or
//	(2) every call of fn that the data API can reach sits under `recv.F == nil` for a field F of a receiver whose
//	    ApplyNamespace method leaves F non-nil on every return: after linking the data API no longer gets there.
//
// Assumes what every schema-state classification assumes: the schema is not modified after it was linked.
func (c *Ctx) checkedAtLink(mod *core.Module, fn *ssa.Function, reach map[*ssa.Function]bool) string {
	if mod != c.M {
		return ""
	}
	// (1)
	for _, link := range c.M.Funcs {
		if link.Name() != "ApplyNamespace" || link.Signature.Recv() == nil || !strings.Contains(c.M.Key(link), "ScopeSchema") {
			continue
		}
		// the branch may sit in ApplyNamespace itself or in a same-receiver helper it hands its parameters to (the helper's
		// parameter then stands for ApplyNamespace's)
		type frame struct {
			g       *ssa.Function
			isParam func(v ssa.Value) bool
		}
		frames := []frame{{link, func(v ssa.Value) bool { _, ok := v.(*ssa.Parameter); return ok }}}
		for _, b := range link.Blocks {
			for _, in := range b.Instrs {
				hc, ok := in.(*ssa.Call)
				if !ok {
					continue
				}
				h := core.StaticBody(&hc.Call)
				if h == nil || h == fn || h.Signature.Recv() == nil || len(hc.Call.Args) == 0 || hc.Call.Args[0] != ssa.Value(link.Params[0]) {
					continue
				}
				hcall := hc
				frames = append(frames, frame{h, func(v ssa.Value) bool {
					for i, q := range h.Params {
						if ssa.Value(q) == v && i < len(hcall.Call.Args) {
							_, ok := hcall.Call.Args[i].(*ssa.Parameter)
							return ok
						}
					}
					return false
				}})
			}
		}
		for _, fr := range frames {
			for _, b := range fr.g.Blocks {
				for _, in := range b.Instrs {
					call, ok := in.(*ssa.Call)
					if !ok || call.Call.StaticCallee() != fn {
						continue
					}
					for _, cond := range core.CondsAt(b) {
						bin, ok := cond.V.(*ssa.BinOp)
						if !ok || !((bin.Op == token.EQL && cond.True) || (bin.Op == token.NEQ && !cond.True)) {
							continue
						}
						if fr.isParam(bin.X) || fr.isParam(bin.Y) {
							return "linking a scope to itself calls " + fn.Name() + "() first (" + c.M.Key(link) + ", on the self-namespace branch), inside the loaders' recover scope: a received description with this defect is reported as invalid and never reaches the data API"
						}
					}
				}
			}
		}
	}
	// (2)
	flow := core.NewNonNilFlow(c.M)
	sites, field := 0, ""
	var recvT *types.Named
	// every call of target that the data API can reach is guarded - or sits, unguarded, in an unexported helper all of
	// whose calls are (the panic moved one function down from where the nil test is)
	var sitesGuarded func(target *ssa.Function, depth int) bool
	sitesGuarded = func(target *ssa.Function, depth int) bool {
		if depth > 3 {
			return false
		}
		n := 0
		for g := range reach {
			for _, b := range g.Blocks {
				for _, in := range b.Instrs {
					call, ok := in.(*ssa.Call)
					if !ok || core.StaticBody(&call.Call) != target {
						continue
					}
					n++
					if depth == 0 {
						sites++
					}
					guarded := false
					for _, cond := range core.CondsAt(b) {
						v, neq, isNil := core.NilCmp(cond.V)
						if !isNil || neq == cond.True {
							continue
						}
						if ld, ok := core.Unwrap(v).(*ssa.UnOp); ok {
							if fa, ok := ld.X.(*ssa.FieldAddr); ok && len(g.Params) > 0 && fa.X == ssa.Value(g.Params[0]) {
								f := fieldName(fa.X.Type(), fa.Field)
								if field == "" || field == f {
									field, guarded, recvT = f, true, structOf(fa.X.Type())
								}
							}
						}
					}
					if !guarded && !(len(core.PlainSites(g)) > 0 && sitesGuarded(g, depth+1)) {
						return false
					}
				}
			}
		}
		return n > 0
	}
	if !sitesGuarded(fn, 0) {
		return ""
	}
	if sites == 0 || field == "" || recvT == nil {
		return ""
	}
	link := c.methodFn(recvT, "ApplyNamespace")
	if link == nil || !flow.Ensures(link, field) {
		return ""
	}
	return sprintf("the data API reaches %s only where %s.%s is nil (%d call sites), and %s leaves that field non-nil on every return: after linking, which every loader runs inside its recover scope, the call is not made again - a description with this defect fails the load", fn.Name(), recvT.Obj().Name(), field, sites, c.M.Key(link))
}

// panicDesc: a position-free description of the innermost controlling condition.
func (c *Ctx) panicDesc(mod *core.Module, fn *ssa.Function, p *ssa.Panic) string {
	conds := core.CondsAt(p.Block())
	if len(conds) == 0 {
		return "reached (unconditional)"
	}
	cd := conds[0]
	// the condition is the outcome of a helper of the module that tests something of its argument (`linked, ok :=
	// r.linked(); if !ok { panic }`): name the panic by what the helper tested, in the caller's terms, so that the key
	// does not depend on whether the test sits here or in the helper
	if call, _, isCall := core.CallResult(cd.V); isCall && mod == c.M {
		for _, via := range conds[1:] {
			if via.Via != call {
				continue
			}
			bin, ok := via.V.(*ssa.BinOp)
			if !ok {
				break
			}
			px, py := c.M.CondPath(fn, via, bin.X), c.M.CondPath(fn, via, bin.Y)
			if strings.HasPrefix(px, "%") || strings.HasPrefix(py, "%") {
				break
			}
			op := bin.Op
			if !via.True {
				switch op {
				case token.EQL:
					op = token.NEQ
				case token.NEQ:
					op = token.EQL
				default:
					op = token.ILLEGAL
				}
			}
			if op == token.ILLEGAL {
				break
			}
			operand := func(v ssa.Value, path string) string {
				if cst, ok := v.(*ssa.Const); ok {
					if cst.Value == nil {
						return "nil"
					}
					return cst.Value.ExactString()
				}
				return c.stable(fn, path)
			}
			return "(" + operand(bin.X, px) + " " + op.String() + " " + operand(bin.Y, py) + ")"
		}
	}
	if mod != c.M {
		return regRe.ReplaceAllString(c.condDescM(mod, fn, cd.V, cd.True), "<v>")
	}
	return c.condDesc(fn, cd.V, cd.True)
}

func (c *Ctx) condDescM(mod *core.Module, fn *ssa.Function, v ssa.Value, truth bool) string {
	neg := ""
	if !truth {
		neg = "not "
	}
	if bin, ok := v.(*ssa.BinOp); ok {
		return neg + "(" + mod.ValPath(bin.X) + " " + bin.Op.String() + " " + mod.ValPath(bin.Y) + ")"
	}
	return neg + mod.ValPath(v)
}

// isEnvAbort: the panic is `if err != nil { panic(err) }` on an error that comes from a non-repo call (I/O, codec
// mode construction), or sits in a function of package main / plugin that aborts the process by design.
func (c *Ctx) isEnvAbort(mod *core.Module, fn *ssa.Function, p *ssa.Panic) bool {
	for _, cond := range core.CondsAt(p.Block()) {
		x, neq, ok := core.NilCmp(cond.V)
		if !ok || neq != cond.True {
			continue
		}
		var call *ssa.Call
		switch v := x.(type) {
		case *ssa.Call:
			call = v
		case *ssa.Extract:
			call, _ = v.Tuple.(*ssa.Call)
		case *ssa.Parameter:
			// helper `check(err)`: all callers pass errors of non-repo calls
			if core.IsErrorType(v.Type()) && len(fn.Params) == 1 {
				return true
			}
		}
		if call != nil && len(mod.Callees(&call.Call)) == 0 && core.StaticCalleeName(&call.Call) != "" {
			return true
		}
	}
	return false
}

// internalInvariant: today's instances, each justified structurally:
//   - default case of a type switch over a zero value of a type parameter whose constraint lists exactly the handled types
//   - unserializeInlinedDataToMap: every call site is dominated by len(properties) == 1
func (c *Ctx) internalInvariant(mod *core.Module, fn *ssa.Function, p *ssa.Panic) bool {
	// type switch on any(zero value of a type parameter): all comma-ok assertions in the controlling chain failed
	conds := core.CondsAt(p.Block())
	n, all := 0, true
	for _, cond := range conds {
		if t, ok := core.CommaOk(cond.V); ok && !cond.True {
			if ta, ok := t.(*ssa.TypeAssert); ok {
				if mi, ok := ta.X.(*ssa.MakeInterface); ok {
					if strings.Contains(typeStr(mi.X.Type()), "KeyType") || isTypeParam(mi.X.Type()) {
						n++
						continue
					}
				}
			}
		}
		all = false
	}
	if n >= 2 && all {
		return true
	}
	// comparison of a reflect.Type's String() with "" (never empty for a non-nil type), or a nil test of a table
	// entry fetched with comma-ok (entries are produced by constructors / the struct mapper, never nil: A2 holds
	// for wire-built schemas too)
	if len(conds) > 0 {
		if bin, ok := conds[0].V.(*ssa.BinOp); ok {
			if s, isStr := core.ConstString(bin.Y); isStr && s == "" && c.fromReflectTypeString(bin.X, 0) {
				return true
			}
			if x, _, isNil := core.NilCmp(bin); isNil {
				if e, ok := x.(*ssa.Extract); ok && e.Index == 0 {
					if lk, ok := e.Tuple.(*ssa.Lookup); ok && lk.CommaOk {
						return true
					}
				}
			}
		}
	}
	// guard established by all callers: the function ranges over / measures recv.F and every call site is dominated by len(recv.F) == 1
	callers := 0
	okAll := true
	for _, g := range mod.Funcs {
		for _, b := range g.Blocks {
			for _, in := range b.Instrs {
				call, ok := in.(*ssa.Call)
				if !ok {
					continue
				}
				for _, callee := range mod.Callees(&call.Call) {
					if callee != fn {
						continue
					}
					callers++
					found := false
					for _, cond := range core.CondsAt(b) {
						// len(..) == 1 holds on this edge: the true edge of ==, the false edge of !=, either operand order
						if bin, ok := cond.V.(*ssa.BinOp); ok && ((bin.Op.String() == "==" && cond.True) || (bin.Op.String() == "!=" && !cond.True)) {
							for _, pr := range [][2]ssa.Value{{bin.X, bin.Y}, {bin.Y, bin.X}} {
								if lc, ok := pr[0].(*ssa.Call); ok {
									if bi, ok := lc.Call.Value.(*ssa.Builtin); ok && bi.Name() == "len" {
										if n, ok := core.ConstInt(pr[1]); ok && n == 1 {
											found = true
										}
									}
								}
							}
						}
					}
					if !found {
						okAll = false
					}
				}
			}
		}
	}
	if callers > 0 && okAll {
		// and the panic is controlled by the length / emptiness of that same collection
		for _, cond := range conds {
			if bin, ok := cond.V.(*ssa.BinOp); ok {
				if lc, ok := bin.X.(*ssa.Call); ok {
					if bi, ok := lc.Call.Value.(*ssa.Builtin); ok && bi.Name() == "len" {
						return true
					}
				}
			}
			if e, ok := cond.V.(*ssa.Extract); ok {
				if _, isNext := e.Tuple.(*ssa.Next); isNext {
					return true
				}
			}
		}
	}
	return false
}

func isTypeParam(t interface{ String() string }) bool {
	return false
}

func init() { debugInvariant = os.Getenv("VERIF_DEBUG") != "" }

var debugInvariant bool

// fromReflectTypeString: v is (a slice element that was assigned) the result of reflect.Type.String().
func (c *Ctx) fromReflectTypeString(v ssa.Value, depth int) bool {
	if depth > 4 {
		return false
	}
	switch x := v.(type) {
	case *ssa.Call:
		return x.Call.IsInvoke() && x.Call.Method.Name() == "String" && strings.HasSuffix(typeStr(x.Call.Value.Type()), "reflect.Type")
	case *ssa.UnOp:
		if ia, ok := x.X.(*ssa.IndexAddr); ok {
			// all stores into elements of this slice come from reflect.Type.String()
			n, all := 0, true
			for _, b := range x.Parent().Blocks {
				for _, in := range b.Instrs {
					if st, ok := in.(*ssa.Store); ok {
						if ia2, ok := st.Addr.(*ssa.IndexAddr); ok && ia2.X == ia.X {
							n++
							if !c.fromReflectTypeString(st.Val, depth+1) {
								all = false
							}
						}
					}
				}
			}
			return n > 0 && all
		}
	}
	return false
}

// R-MUSTCALL (C10, C04): library functions that panic on a bad argument instead of returning an error
// (regexp.MustCompile, template.Must, ...) must only be given constants in code reachable from the loaders or the data
// API: a pattern assembled from schema state (unit names, multipliers) that a received description controls turns
// a bad description into a panic on first use. Obligation per call; discharged for a constant argument or a recover
// scope.
func (c *Ctx) ruleMustCall(rule string, fns map[*ssa.Function]bool) {
	n := 0
	for _, fn := range c.M.SortedFuncs(fns) {
		cnt := 0
		for _, b := range fn.Blocks {
			for _, in := range b.Instrs {
				call, ok := in.(*ssa.Call)
				if !ok {
					continue
				}
				name := core.StaticCalleeName(&call.Call)
				if !(strings.HasPrefix(name, "regexp.MustCompile") || strings.HasSuffix(name, "template.Must")) {
					continue
				}
				n++
				cnt++
				k := key(rule, c.M.Key(fn), sprintf("%s #%d", name, cnt))
				if _, isConst := call.Call.Args[0].(*ssa.Const); isConst {
					c.R.Ok(rule, k, c.M.InstrPos(call), "panicking constructor", "constant argument")
				} else if isRecoverScope(fn) {
					c.R.Ok(rule, k, c.M.InstrPos(call), "panicking constructor", "the function recovers")
				} else {
					c.R.Bad(rule, k, c.M.InstrPos(call), name+" on a pattern built at run time",
						"the argument is assembled from schema state; a description that makes it invalid (e.g. a negative unit multiplier: the group name g-5) is accepted at load time and panics on first use")
				}
			}
		}
	}
	c.R.Note("%s: %d Must* calls in scope", rule, n)
}

// guardOwners: fn is an unexported method all of whose callers are exported methods of the same receiver type: those
// callers (sorted). Nil otherwise.
func (c *Ctx) guardOwners(mod *core.Module, fn *ssa.Function) []*ssa.Function {
	if fn.Signature.Recv() == nil || ast_IsExported(fn.Name()) {
		return nil
	}
	recvName := func(f *ssa.Function) string {
		if f.Signature.Recv() == nil {
			return ""
		}
		t := f.Signature.Recv().Type()
		if p, ok := t.(*types.Pointer); ok {
			t = p.Elem()
		}
		if n, ok := t.(*types.Named); ok {
			return n.Obj().Name()
		}
		return ""
	}
	own := recvName(fn)
	if own == "" {
		return nil
	}
	seen := map[*ssa.Function]bool{}
	var out []*ssa.Function
	for _, g := range mod.Funcs {
		for _, b := range g.Blocks {
			for _, in := range b.Instrs {
				ci, ok := in.(ssa.CallInstruction)
				if !ok {
					continue
				}
				for _, callee := range mod.Callees(ci.Common()) {
					if callee != fn {
						continue
					}
					if recvName(g) != own || !ast_IsExported(g.Name()) {
						return nil
					}
					if !seen[g] {
						seen[g] = true
						out = append(out, g)
					}
				}
			}
		}
	}
	sort.Slice(out, func(i, j int) bool { return mod.Key(out[i]) < mod.Key(out[j]) })
	return out
}
