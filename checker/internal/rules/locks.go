package rules

import (
	"sort"
	"strings"

	"golang.org/x/tools/go/ssa"

	"verifcheck/internal/core"
)

// Lock regions (DESIGN §3.0.3): per function, a must-held lockset dataflow over the CFG for sync.Mutex fields.
// Elements are mutex access paths relative to the function's parameters ("c.mutex"). `defer m.Unlock()` keeps the
// lock to the end of the function; sync.Cond.Wait keeps the lock (released and re-acquired inside).
// Unexported functions additionally inherit the locks that are held at *every* one of their call sites
// (translated through the receiver / argument paths); goroutine roots and exported API start with no lock.

type lockInfo struct {
	in    map[*ssa.Function][]map[string]bool // per block: lockset at block entry (without entry-held)
	entry map[*ssa.Function]map[string]bool   // locks held at every call site
}

func mutexOp(call *ssa.CallCommon) (op string) {
	switch core.StaticCalleeName(call) {
	case "(*sync.Mutex).Lock", "(*sync.RWMutex).Lock":
		return "lock"
	case "(*sync.Mutex).Unlock", "(*sync.RWMutex).Unlock":
		return "unlock"
	}
	return ""
}

func (c *Ctx) locks() *lockInfo {
	if c.lockCache != nil {
		return c.lockCache
	}
	li := &lockInfo{in: map[*ssa.Function][]map[string]bool{}, entry: map[*ssa.Function]map[string]bool{}}
	for _, fn := range c.M.Funcs {
		li.in[fn] = c.solveLocks(fn)
	}
	// lock wrappers: a function of the module that returns, on every way out, with a mutex of one of its parameters
	// held that it took itself (`defer u.lockCache()()`, `c.lock()`); a call of it is a Lock on that mutex. The functions
	// are solved once more with that knowledge (one level of wrapping).
	c.lockWrappers = map[*ssa.Function][]string{}
	for _, fn := range c.M.Funcs {
		if fn.Parent() != nil || len(fn.Blocks) == 0 {
			continue
		}
		rets := core.ReturnInstrs(fn)
		if len(rets) == 0 {
			continue
		}
		var held map[string]bool
		for _, r := range rets {
			st := map[string]bool{}
			if ins := li.in[fn]; r.Block().Index < len(ins) && ins[r.Block().Index] != nil {
				st = copySet(ins[r.Block().Index])
			}
			for _, in := range r.Block().Instrs {
				c.lockTransfer(in, st)
			}
			if held == nil {
				held = st
			} else {
				for k := range held {
					if !st[k] {
						delete(held, k)
					}
				}
			}
		}
		// a deferred unlock gives the mutex back on return: not a wrapper
		for _, b := range fn.Blocks {
			for _, in := range b.Instrs {
				if d, ok := in.(*ssa.Defer); ok && mutexOp(&d.Call) == "unlock" && len(d.Call.Args) > 0 {
					delete(held, c.M.AddrPath(d.Call.Args[0]))
				}
			}
		}
		var paths []string
		for k := range held {
			root := k
			if i := strings.IndexByte(k, '.'); i >= 0 {
				root = k[:i]
			}
			for _, prm := range fn.Params {
				if prm.Name() == root {
					paths = append(paths, k)
				}
			}
		}
		if len(paths) > 0 {
			sort.Strings(paths)
			c.lockWrappers[fn] = paths
		}
	}
	if len(c.lockWrappers) > 0 {
		for _, fn := range c.M.Funcs {
			li.in[fn] = c.solveLocks(fn)
		}
	}
	// entry-held fixpoint (start optimistic: unknown = nil meaning "all"; we represent top by absence)
	type site struct {
		caller *ssa.Function
		call   ssa.CallInstruction
	}
	callers := map[*ssa.Function][]site{}
	goRoot := map[*ssa.Function]bool{}
	for _, fn := range c.M.Funcs {
		for _, b := range fn.Blocks {
			for _, in := range b.Instrs {
				ci, ok := in.(ssa.CallInstruction)
				if !ok {
					continue
				}
				for _, callee := range c.M.Callees(ci.Common()) {
					if _, isGo := in.(*ssa.Go); isGo {
						goRoot[callee] = true
						continue
					}
					callers[callee] = append(callers[callee], site{fn, ci})
				}
			}
		}
	}
	c.lockCache = li
	for iter := 0; iter < 10; iter++ {
		changed := false
		for _, fn := range c.M.Funcs {
			var held map[string]bool
			if goRoot[fn] || len(callers[fn]) == 0 || (ast_IsExported(fn.Name()) && fn.Parent() == nil) {
				held = map[string]bool{}
			} else {
				first := true
				for _, s := range callers[fn] {
					at := c.lockedAt(s.caller, s.call)
					tr := map[string]bool{}
					for _, l := range at {
						if t, ok := c.translatePath(l, s.call, fn); ok {
							tr[t] = true
						}
					}
					if first {
						held = tr
						first = false
					} else {
						for k := range held {
							if !tr[k] {
								delete(held, k)
							}
						}
					}
				}
			}
			if !sameSet(held, li.entry[fn]) {
				li.entry[fn] = held
				changed = true
			}
		}
		if !changed {
			break
		}
	}
	return li
}

func sameSet(a, b map[string]bool) bool {
	if len(a) != len(b) {
		return false
	}
	for k := range a {
		if !b[k] {
			return false
		}
	}
	return true
}

// translatePath maps a caller-relative path ("c.mutex") to the callee's parameter names, via the argument whose
// path is a prefix of it. Closures: free variables keep their names ("^c" -> "c" in the parent).
func (c *Ctx) translatePath(p string, call ssa.CallInstruction, callee *ssa.Function) (string, bool) {
	cc := call.Common()
	args := cc.Args
	params := callee.Params
	if cc.IsInvoke() {
		args = append([]ssa.Value{cc.Value}, cc.Args...)
	}
	for i, a := range args {
		if i >= len(params) {
			break
		}
		ap := c.M.ValPath(a)
		if ap != "" && (p == ap || strings.HasPrefix(p, ap+".")) {
			return params[i].Name() + p[len(ap):], true
		}
	}
	// closure: bindings map to free variables
	if mc, ok := cc.Value.(*ssa.MakeClosure); ok {
		for i, b := range mc.Bindings {
			bp := c.M.ValPath(b)
			if i < len(callee.FreeVars) && (p == bp || strings.HasPrefix(p, bp+".")) {
				return "^" + callee.FreeVars[i].Name() + p[len(bp):], true
			}
		}
	}
	return "", false
}

func (c *Ctx) solveLocks(fn *ssa.Function) []map[string]bool {
	n := len(fn.Blocks)
	in := make([]map[string]bool, n)
	out := make([]map[string]bool, n)
	top := func() map[string]bool { return nil } // nil = top (unvisited)
	for i := range in {
		in[i], out[i] = top(), top()
	}
	if n == 0 {
		return in
	}
	in[0] = map[string]bool{}
	changed := true
	for iter := 0; changed && iter < 50; iter++ {
		changed = false
		for _, b := range fn.Blocks {
			var st map[string]bool
			if b.Index == 0 {
				st = map[string]bool{}
			} else {
				first := true
				for _, p := range b.Preds {
					po := out[p.Index]
					if po == nil {
						continue // top
					}
					if first {
						st = copySet(po)
						first = false
					} else {
						for k := range st {
							if !po[k] {
								delete(st, k)
							}
						}
					}
				}
				if first {
					continue // unreachable so far
				}
			}
			if in[b.Index] == nil || !sameSet(in[b.Index], st) {
				in[b.Index] = copySet(st)
				changed = true
			}
			o := copySet(st)
			for _, ins := range b.Instrs {
				c.lockTransfer(ins, o)
			}
			if out[b.Index] == nil || !sameSet(out[b.Index], o) {
				out[b.Index] = o
				changed = true
			}
		}
	}
	return in
}

func copySet(s map[string]bool) map[string]bool {
	o := map[string]bool{}
	for k := range s {
		o[k] = true
	}
	return o
}

func (c *Ctx) lockTransfer(ins ssa.Instruction, st map[string]bool) {
	switch x := ins.(type) {
	case *ssa.Call:
		switch mutexOp(&x.Call) {
		case "lock":
			st[c.M.AddrPath(x.Call.Args[0])] = true
		case "unlock":
			delete(st, c.M.AddrPath(x.Call.Args[0]))
		default:
			for _, p := range c.wrapperLocks(&x.Call) {
				st[p] = true
			}
		}
	case *ssa.Defer:
		// deferred unlock: the lock stays held until the function returns
	}
}

// wrapperLocks: the mutexes (as paths of the caller) that the call takes and leaves held because its callee is a lock
// wrapper.
func (c *Ctx) wrapperLocks(cc *ssa.CallCommon) []string {
	if len(c.lockWrappers) == 0 || cc.IsInvoke() {
		return nil
	}
	callee := core.StaticBody(cc)
	if callee == nil {
		return nil
	}
	var out []string
	for _, p := range c.lockWrappers[callee] {
		root, rest := p, ""
		if i := strings.IndexByte(p, '.'); i >= 0 {
			root, rest = p[:i], p[i:]
		}
		for i, prm := range callee.Params {
			if prm.Name() == root && i < len(cc.Args) {
				if ap := c.M.ValPath(cc.Args[i]); ap != "" {
					out = append(out, ap+rest)
				}
			}
		}
	}
	return out
}

// lockedAt: the mutex paths certainly held immediately before instruction at (including locks held at every call site).
func (c *Ctx) lockedAt(fn *ssa.Function, at ssa.Instruction) []string {
	li := c.locks()
	ins := li.in[fn]
	b := at.Block()
	st := map[string]bool{}
	if b.Index < len(ins) && ins[b.Index] != nil {
		st = copySet(ins[b.Index])
	}
	for _, in := range b.Instrs {
		if in == at {
			break
		}
		c.lockTransfer(in, st)
	}
	for k := range li.entry[fn] {
		st[k] = true
	}
	var out []string
	for k := range st {
		out = append(out, k)
	}
	sort.Strings(out)
	return out
}
