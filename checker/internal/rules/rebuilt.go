package rules

import (
	"go/token"
	"go/types"
	"reflect"
	"strings"

	"golang.org/x/tools/go/ssa"

	"verifcheck/internal/core"
)

// R-REBUILT: a schema that arrives from a plugin (or is read back from its own description) is built by the struct
// mapper through reflection: only the exported, json-tagged fields are filled; every unexported field keeps its zero
// value. For the unexported fields whose zero value is nil (pointers, maps, slices, interfaces, funcs) a method that
// reads such a field and uses the value as if a constructor had filled it behaves differently on a rebuilt schema than
// on the original (defaults never applied, reflect.SliceOf(nil) panics, ...). Obligations: every read of an unexported
// nilable field of a described struct type (one with json-tagged fields) in the package, outside the functions that
// allocate the struct. Discharge:
//   - the value is only compared with nil (the lazy-fill / "was this built by the constructor" test itself);
//   - the field is known non-nil at the read (dominating test, or a preceding lazy fill: NonNilFlow with Ensures);
//   - a dominating branch established that some unexported nilable field of the same receiver is non-nil (the
//     constructor fills them together: `if o.fieldCache != nil { ... o.defaultValueType ... }`);
//   - every call site of the function (two levels up) is itself under such a guard.
func (c *Ctx) ruleRebuilt(rule string) {
	pkg := c.M.Types["schema"]
	if pkg == nil {
		c.R.Unresolved(rule, "package schema")
		return
	}
	// described struct types and their unexported nilable fields
	type fieldSet map[string]bool
	described := map[*types.Named]fieldSet{}
	for _, name := range pkg.Scope().Names() {
		tn, ok := pkg.Scope().Lookup(name).(*types.TypeName)
		if !ok {
			continue
		}
		named, ok := tn.Type().(*types.Named)
		if !ok {
			continue
		}
		st, ok := named.Underlying().(*types.Struct)
		if !ok {
			continue
		}
		tagged := false
		fs := fieldSet{}
		for i := 0; i < st.NumFields(); i++ {
			f := st.Field(i)
			if reflect.StructTag(st.Tag(i)).Get("json") != "" {
				tagged = true
			}
			if f.Exported() || f.Embedded() {
				continue
			}
			switch f.Type().Underlying().(type) {
			case *types.Pointer, *types.Map, *types.Slice, *types.Interface, *types.Signature, *types.Chan:
				fs[f.Name()] = true
			}
		}
		if tagged && len(fs) > 0 {
			described[named] = fs
		}
	}
	// keep only the types the meta-schema rebuilds: type arguments of the struct-mapping constructor in this package
	// (and the struct types they embed by value)
	rebuilt := map[*types.Named]bool{}
	var addRebuilt func(t types.Type)
	addRebuilt = func(t types.Type) {
		if p, ok := t.(*types.Pointer); ok {
			t = p.Elem()
		}
		n, ok := t.(*types.Named)
		if !ok {
			return
		}
		n = n.Origin()
		if rebuilt[n] {
			return
		}
		rebuilt[n] = true
		if st, ok := n.Underlying().(*types.Struct); ok {
			for i := 0; i < st.NumFields(); i++ {
				if st.Field(i).Embedded() {
					addRebuilt(st.Field(i).Type())
				}
			}
		}
	}
	for _, fn := range c.M.Funcs {
		for _, b := range fn.Blocks {
			for _, in := range b.Instrs {
				call, ok := in.(*ssa.Call)
				if !ok {
					continue
				}
				callee := call.Call.StaticCallee()
				if callee == nil || !strings.Contains(callee.Name(), "StructMappedObjectSchema") {
					continue
				}
				for _, ta := range callee.TypeArgs() {
					addRebuilt(ta)
				}
			}
		}
	}
	for n := range described {
		if !rebuilt[n] {
			delete(described, n)
		}
	}
	if len(described) == 0 {
		c.R.Unresolved(rule, "struct types rebuilt by the meta-schema that have unexported nilable fields")
		return
	}
	ownerOf := func(fa *ssa.FieldAddr) (*types.Named, string) {
		t := fa.X.Type()
		if p, ok := t.Underlying().(*types.Pointer); ok {
			t = p.Elem()
		}
		n, ok := t.(*types.Named)
		if !ok {
			return nil, ""
		}
		n = n.Origin()
		fs := described[n]
		name := fieldName(fa.X.Type(), fa.Field)
		if fs == nil || !fs[name] {
			return nil, ""
		}
		return n, name
	}
	nn := core.NewNonNilFlow(c.M)
	// guardAt: a dominating condition establishes that an unexported nilable field of base is non-nil
	guardAt := func(b *ssa.BasicBlock, base ssa.Value) string {
		for _, cond := range core.CondsAt(b) {
			x, neq, ok := core.NilCmp(cond.V)
			if !ok || neq != cond.True {
				continue
			}
			if ld, ok := x.(*ssa.UnOp); ok && ld.Op == token.MUL {
				if fa, ok := ld.X.(*ssa.FieldAddr); ok {
					if n, f := ownerOf(fa); n != nil && c.M.ValPath(fa.X) == c.M.ValPath(base) {
						return f
					}
				}
			}
		}
		return ""
	}
	// looksAtUnfilled: some block that dominates b ends in a branch on a nil comparison of an unexported nilable field of base
	looksAtUnfilled := func(b *ssa.BasicBlock, base ssa.Value) string {
		for d := b; d != nil; d = d.Idom() {
			if len(d.Instrs) == 0 {
				continue
			}
			ifi, ok := d.Instrs[len(d.Instrs)-1].(*ssa.If)
			if !ok || d == b {
				continue
			}
			cv := ifi.Cond
			for {
				u, ok := cv.(*ssa.UnOp)
				if !ok || u.Op != token.NOT {
					break
				}
				cv = u.X
			}
			x, _, ok := core.NilCmp(cv)
			if !ok {
				continue
			}
			if ld, ok := x.(*ssa.UnOp); ok && ld.Op == token.MUL {
				if fa, ok := ld.X.(*ssa.FieldAddr); ok {
					if n, f := ownerOf(fa); n != nil && c.M.ValPath(fa.X) == c.M.ValPath(base) {
						return f
					}
				}
			}
		}
		return ""
	}
	allocates := func(fn *ssa.Function, n *types.Named) bool {
		for _, b := range fn.Blocks {
			for _, in := range b.Instrs {
				if al, ok := in.(*ssa.Alloc); ok {
					t := al.Type().(*types.Pointer).Elem()
					if nt, ok := t.(*types.Named); ok && nt.Origin() == n {
						return true
					}
				}
			}
		}
		return false
	}
	// callers index
	callers := map[*ssa.Function][]core.Edge{}
	for _, fn := range c.M.Funcs {
		for _, e := range c.M.Edges(fn) {
			callers[e.To] = append(callers[e.To], e)
		}
	}
	var guardedByCallers func(fn *ssa.Function, depth int) bool
	guardedByCallers = func(fn *ssa.Function, depth int) bool {
		cs := callers[fn]
		if len(cs) == 0 || depth > 2 {
			return false
		}
		for _, e := range cs {
			if e.Site == nil {
				return false
			}
			call := e.Site.Common()
			var recv ssa.Value
			if call.IsInvoke() {
				recv = call.Value
			} else if len(call.Args) > 0 {
				recv = call.Args[0]
			}
			if recv != nil && guardAt(e.Site.Block(), recv) != "" {
				continue
			}
			if !guardedByCallers(e.From, depth+1) {
				return false
			}
		}
		return true
	}
	// guardCallBefore: a call, in front of the read, of a method on the same receiver every normal return of which lies
	// behind "a constructor-filled field of the receiver is not nil" (a guard that panics otherwise)
	guardHelper := func(g *ssa.Function) bool {
		if g.Signature.Recv() == nil || len(g.Params) == 0 {
			return false
		}
		rets := core.ReturnsOf(g)
		for _, r := range rets {
			found := false
			for _, cond := range r.Conds() {
				x, neq, ok := core.NilCmp(cond.V)
				if !ok || neq != cond.True {
					continue
				}
				if gl, ok := x.(*ssa.UnOp); ok && gl.Op == token.MUL {
					if gfa, ok := gl.X.(*ssa.FieldAddr); ok {
						if o, _ := ownerOf(gfa); o != nil && c.M.CondPath(g, cond, gfa.X) == c.M.ValPath(g.Params[0]) {
							found = true
						}
					}
				}
			}
			if !found {
				return false
			}
		}
		return len(rets) > 0
	}
	guardCallBefore := func(fn *ssa.Function, ld *ssa.UnOp, base ssa.Value) string {
		for _, b := range fn.Blocks {
			for _, in := range b.Instrs {
				gc, ok := in.(*ssa.Call)
				if !ok || len(gc.Call.Args) == 0 {
					continue
				}
				g := core.StaticBody(&gc.Call)
				if g == nil || g == fn || c.M.ValPath(gc.Call.Args[0]) != c.M.ValPath(base) || !instrDominates(gc, ld) {
					continue
				}
				if guardHelper(g) {
					return c.M.Key(g)
				}
			}
		}
		return ""
	}
	n := 0
	for _, fn := range c.M.SortedFuncs(c.scopePkg("schema")) {
		cnt := map[string]int{}
		for _, b := range fn.Blocks {
			for _, in := range b.Instrs {
				ld, ok := in.(*ssa.UnOp)
				if !ok || ld.Op != token.MUL {
					continue
				}
				fa, ok := ld.X.(*ssa.FieldAddr)
				if !ok {
					continue
				}
				owner, fname := ownerOf(fa)
				if owner == nil || allocates(fn, owner) {
					continue
				}
				if len(fn.Params) == 0 || fn.Signature.Recv() == nil || c.M.ValPath(fa.X) != c.M.ValPath(fn.Params[0]) {
					continue // another instance: nil dereferences there are R-NILGUARD's business
				}
				// uses other than nil comparisons
				onlyNilCmp := true
				if refs := ld.Referrers(); refs != nil {
					for _, r := range *refs {
						if bo, ok := r.(*ssa.BinOp); ok {
							if _, _, isNil := core.NilCmp(bo); isNil {
								continue
							}
						}
						if _, isDbg := r.(*ssa.DebugRef); isDbg {
							continue
						}
						onlyNilCmp = false
					}
				}
				if onlyNilCmp {
					continue
				}
				n++
				cnt[fname]++
				k := key(rule, c.M.Key(fn), sprintf("read #%d of %s.%s tolerates a rebuilt (reflection-built) value", cnt[fname], owner.Obj().Name(), fname))
				pos := c.M.InstrPos(ld)
				path := c.M.ValPath(fa)
				switch {
				case nn.At(fn, ld, path):
					c.R.Ok(rule, k, pos, "read of an unexported field of a described type", "the field is known non-nil here (dominating test or preceding lazy fill)")
				case guardAt(b, fa.X) != "":
					c.R.Ok(rule, k, pos, "read of an unexported field of a described type", "under a branch that established "+guardAt(b, fa.X)+" != nil: the value was built by a constructor, which fills these fields together")
				case looksAtUnfilled(b, fa.X) != "":
					c.R.Ok(rule, k, pos, "read of an unexported field of a described type", "the function tests "+looksAtUnfilled(b, fa.X)+" against nil on the way here (either outcome): it distinguishes the unfilled case itself")
				case testedWhereRead(ld):
					c.R.Ok(rule, k, pos, "read of an unexported field of a described type", "the value read is compared with nil at once and the block branches on the outcome (`v := o.field; if v == nil { v = fill() }`): the function distinguishes the unfilled case itself")
				case handsOutWithVerdict(fn, ld):
					c.R.Ok(rule, k, pos, "read of an unexported field of a described type", "the function hands the value out together with the outcome of its comparison with nil (a result of every return that carries the value): it distinguishes the unfilled case itself")
				case guardCallBefore(fn, ld, fa.X) != "":
					c.R.Ok(rule, k, pos, "read of an unexported field of a described type", "behind a call of "+guardCallBefore(fn, ld, fa.X)+" on the same receiver, which comes back only where a constructor-filled field was found non-nil (it panics otherwise)")
				case guardedByCallers(fn, 0):
					c.R.Ok(rule, k, pos, "read of an unexported field of a described type", "every call site of this function is under a branch that established that a constructor-filled field of the receiver is non-nil")
				default:
					c.R.Bad(rule, k, pos, "an unexported field that only constructors fill is used without a test for the unfilled (nil) case",
						owner.Obj().Name()+"."+fname+" is nil in every schema built by the struct mapper (received from a plugin, or read back from its own description): the method behaves differently on the rebuilt schema than on the original")
				}
			}
		}
	}
	c.R.Note("%s: %d described struct types with unexported nilable fields; %d reads examined", rule, len(described), n)
}

// testedWhereRead: the loaded value is compared with nil and the block it was loaded in branches on that comparison.
func testedWhereRead(ld *ssa.UnOp) bool {
	refs := ld.Referrers()
	b := ld.Block()
	if refs == nil || len(b.Instrs) == 0 {
		return false
	}
	ifi, ok := b.Instrs[len(b.Instrs)-1].(*ssa.If)
	if !ok {
		return false
	}
	for _, r := range *refs {
		if bin, ok := r.(*ssa.BinOp); ok {
			if v, _, isNil := core.NilCmp(bin); isNil && v == ssa.Value(ld) && ifi.Cond == ssa.Value(bin) {
				return true
			}
		}
	}
	return false
}

// handsOutWithVerdict: the loaded value is used only in comparisons with nil and as a result of returns that also
// carry, as another result, such a comparison of the same value (`return v, v != nil`).
func handsOutWithVerdict(fn *ssa.Function, ld *ssa.UnOp) bool {
	refs := ld.Referrers()
	if refs == nil {
		return false
	}
	returned := false
	for _, r := range *refs {
		switch x := r.(type) {
		case *ssa.DebugRef:
		case *ssa.BinOp:
			if _, _, isNil := core.NilCmp(x); !isNil {
				return false
			}
		case *ssa.Return:
			verdict := false
			for _, res := range x.Results {
				if bin, ok := res.(*ssa.BinOp); ok {
					if v, _, isNil := core.NilCmp(bin); isNil && v == ssa.Value(ld) {
						verdict = true
					}
				}
			}
			if !verdict {
				return false
			}
			returned = true
		default:
			return false
		}
	}
	return returned
}

func unusedRebuilt() {
	_ = strings.TrimSpace
}
