package rules

import (
	"go/token"
	"go/types"

	"golang.org/x/tools/go/ssa"
	"golang.org/x/tools/go/ssa/ssautil"

	"go/ast"
	"go/importer"
	"go/parser"

	"verifcheck/internal/core"
)

// R-DIVZERO: an integer division or remainder panics ("integer divide by zero") when the divisor is zero. Every
// integer `/` and `%` in scope is an obligation. Discharge: the divisor is a non-zero constant, or on every path to
// the instruction a branch condition establishes divisor != 0 (d != 0, d > c / d >= c with c >= 0 resp. c >= 1,
// d < c / d <= c with c <= 0 resp. c <= -1, or d == c with c != 0; MustHold over branch edges). Floating-point
// division never panics and is not an obligation.
// The SDK has no integer division on data paths today, so the expected instance count is zero; the classifier is
// exercised on every run against a two-function positive / negative example compiled in-process (selfTestDivZero).

func isIntegerType(t types.Type) bool {
	b, ok := t.Underlying().(*types.Basic)
	return ok && b.Info()&types.IsInteger != 0
}

// normCond reads a branch condition as `v op k` for a constant k (mirrored and negated as needed).
func normCond(cond core.Cond, v ssa.Value) (op token.Token, k int64, ok bool) {
	bo, isBin := cond.V.(*ssa.BinOp)
	if !isBin {
		return
	}
	var other ssa.Value
	op = bo.Op
	switch {
	case bo.X == v:
		other = bo.Y
	case bo.Y == v:
		other = bo.X
		// mirror the comparison so that it reads `v op other`
		switch op {
		case token.LSS:
			op = token.GTR
		case token.GTR:
			op = token.LSS
		case token.LEQ:
			op = token.GEQ
		case token.GEQ:
			op = token.LEQ
		}
	default:
		return
	}
	k, isConst := core.ConstInt(other)
	if !isConst {
		return
	}
	if !cond.True {
		switch op {
		case token.EQL:
			op = token.NEQ
		case token.NEQ:
			op = token.EQL
		case token.LSS:
			op = token.GEQ
		case token.GEQ:
			op = token.LSS
		case token.GTR:
			op = token.LEQ
		case token.LEQ:
			op = token.GTR
		default:
			return
		}
	}
	switch op {
	case token.EQL, token.NEQ, token.LSS, token.LEQ, token.GTR, token.GEQ:
		return op, k, true
	}
	return
}

// nonZeroFact: the condition establishes v != 0.
func nonZeroFact(v ssa.Value) func(core.Cond) bool {
	return func(cond core.Cond) bool {
		op, k, ok := normCond(cond, v)
		if !ok {
			return false
		}
		switch op {
		case token.NEQ:
			return k == 0
		case token.EQL:
			return k != 0
		case token.GTR:
			return k >= 0
		case token.GEQ:
			return k >= 1
		case token.LSS:
			return k <= 0
		case token.LEQ:
			return k <= -1
		}
		return false
	}
}

// atLeastFact: the condition establishes v >= min.
func atLeastFact(v ssa.Value, min int64) func(core.Cond) bool {
	return func(cond core.Cond) bool {
		op, k, ok := normCond(cond, v)
		if !ok {
			return false
		}
		switch op {
		case token.EQL, token.GEQ:
			return k >= min
		case token.GTR:
			return k >= min-1
		}
		return false
	}
}

type divSite struct {
	in     *ssa.BinOp
	ok     bool
	reason string
}

func classifyDivisions(fn *ssa.Function) []divSite {
	var out []divSite
	for _, b := range fn.Blocks {
		for _, in := range b.Instrs {
			bo, ok := in.(*ssa.BinOp)
			if !ok || (bo.Op != token.QUO && bo.Op != token.REM) || !isIntegerType(bo.X.Type()) {
				continue
			}
			if k, isConst := core.ConstInt(bo.Y); isConst {
				out = append(out, divSite{bo, k != 0, "constant divisor"})
				continue
			}
			if core.MustHold(fn, nonZeroFact(bo.Y))[b] {
				out = append(out, divSite{bo, true, "on every path a branch condition establishes divisor != 0"})
				continue
			}
			out = append(out, divSite{bo, false, "no condition on the paths to the division excludes a zero divisor"})
		}
	}
	return out
}

func (c *Ctx) ruleDivZero(rule string, fns map[*ssa.Function]bool) {
	if msg := selfTestDivZero(); msg != "" {
		c.R.Unresolved(rule, "self-test of the division classifier failed: "+msg)
		return
	}
	c.R.Ok(rule, key(rule, "self-test", "unguarded division flagged, guarded division discharged"), "-", "classifier exercised on the built-in positive / negative example", "1 flagged, 2 discharged, as expected")
	n := 0
	for _, fn := range c.M.SortedFuncs(fns) {
		cnt := 0
		for _, s := range classifyDivisions(fn) {
			cnt++
			n++
			k := key(rule, c.M.Key(fn), sprintf("%s %s %s #%d", c.stable(fn, c.M.ValPath(s.in.X)), s.in.Op, c.stable(fn, c.M.ValPath(s.in.Y)), cnt))
			if s.ok {
				c.R.Ok(rule, k, c.M.InstrPos(s.in), "integer division / remainder", s.reason)
			} else {
				c.R.Bad(rule, k, c.M.InstrPos(s.in), "integer division whose divisor may be zero", s.reason+": a zero there panics with 'integer divide by zero' instead of returning an error")
			}
		}
	}
	c.R.Note("%s: %d integer divisions / remainders in %d functions in scope", rule, n, len(fns))
}

const divZeroExample = `package p
func bad(a, b int64) int64 { return a / b }
func good(a, b int64) int64 {
	if b == 0 { return 0 }
	return a % b
}
func good2(a, b int64) int64 {
	switch {
	case b > 0, b < 0:
		return a / b
	}
	return 0
}
`

var divSelfTestResult *string

func selfTestDivZero() string {
	if divSelfTestResult != nil {
		return *divSelfTestResult
	}
	res := func() string {
		fset := token.NewFileSet()
		f, err := parser.ParseFile(fset, "p.go", divZeroExample, 0)
		if err != nil {
			return err.Error()
		}
		pkg := types.NewPackage("p", "p")
		sp, _, err := ssautil.BuildPackage(&types.Config{Importer: importer.Default()}, fset, pkg, []*ast.File{f}, ssa.SanityCheckFunctions)
		if err != nil {
			return err.Error()
		}
		want := map[string]bool{"bad": false, "good": true, "good2": true}
		for name, ok := range want {
			fn := sp.Func(name)
			if fn == nil {
				return "missing " + name
			}
			sites := classifyDivisions(fn)
			if len(sites) != 1 || sites[0].ok != ok {
				return sprintf("example %s: got %d sites, ok=%v; want 1 site, ok=%v", name, len(sites), len(sites) == 1 && sites[0].ok, ok)
			}
		}
		return ""
	}()
	divSelfTestResult = &res
	return res
}
