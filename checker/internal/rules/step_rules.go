package rules

import (
	"go/token"
	"go/types"
	"strings"

	"golang.org/x/tools/go/ssa"

	"verifcheck/internal/core"
)

// R-DOM / R-FLOW / R-ERRPROV / R-STEPDATA for step and signal calls (C11).

// callbackCalls: calls through a function-typed struct field (user callbacks) in fn.
func (c *Ctx) callbackCalls(fn *ssa.Function, field string) []*ssa.Call {
	var out []*ssa.Call
	for _, b := range fn.Blocks {
		for _, in := range b.Instrs {
			call, ok := in.(*ssa.Call)
			if !ok || call.Call.IsInvoke() {
				continue
			}
			ld, ok := call.Call.Value.(*ssa.UnOp)
			if !ok {
				continue
			}
			var fname string
			switch a := ld.X.(type) {
			case *ssa.FieldAddr:
				fname = fieldName(a.X.Type(), a.Field)
			}
			if fv, ok := call.Call.Value.(*ssa.Field); ok {
				fname = fieldName(fv.X.Type(), fv.Field)
			}
			if fname == field {
				out = append(out, call)
			}
		}
	}
	// value receivers: handler loaded via Field on a struct value
	for _, b := range fn.Blocks {
		for _, in := range b.Instrs {
			call, ok := in.(*ssa.Call)
			if !ok || call.Call.IsInvoke() {
				continue
			}
			if fv, ok := call.Call.Value.(*ssa.Field); ok && fieldName(fv.X.Type(), fv.Field) == field {
				dup := false
				for _, o := range out {
					if o == call {
						dup = true
					}
				}
				if !dup {
					out = append(out, call)
				}
			}
		}
	}
	return out
}

// errNilOfMethod: a dominating condition at block b says the error result of a call to method `name` is nil;
// returns that call.
func (c *Ctx) errNilOfMethod(b *ssa.BasicBlock, name string) *ssa.Call {
	for _, cond := range core.CondsAt(b) {
		x, neq, ok := core.NilCmp(cond.V)
		if !ok || neq == cond.True {
			continue
		}
		var call *ssa.Call
		switch v := x.(type) {
		case *ssa.Call:
			call = v
		case *ssa.Extract:
			call, _ = v.Tuple.(*ssa.Call)
		}
		if call == nil {
			continue
		}
		if c.calledMethodName(call) == name {
			return call
		}
	}
	return nil
}

func (c *Ctx) calledMethodName(call *ssa.Call) string {
	if call.Call.IsInvoke() {
		return call.Call.Method.Name()
	}
	if cs := c.M.Callees(&call.Call); len(cs) == 1 {
		k := c.M.Key(cs[0])
		return k[strings.LastIndex(k, ".")+1:]
	}
	return ""
}

func (c *Ctx) ruleStepDom(rule string) {
	// (1)+(2): handler invocations
	for _, spec := range []struct{ fn, check string }{
		{"schema.CallableStepSchema.Call", "Validate"},
		{"schema.CallableSignalSchema.Call", "Validate"},
	} {
		fn := c.fn(rule, spec.fn)
		if fn == nil {
			continue
		}
		calls := c.callbackCalls(fn, "handler")
		// the handler may be called by the worker the function ends in (`return s.runHandler(ctx, data, input.(T))`): the
		// worker's call site then stands where the handler call stood, and the worker's parameter for its argument
		var workerSite *ssa.Call
		var worker *ssa.Function
		if len(calls) == 0 {
			if w, site := c.tailWorker(fn); w != nil {
				if wc := c.callbackCalls(w, "handler"); len(wc) == 1 && !blockInLoop(wc[0].Block()) {
					calls, worker, workerSite = wc, w, site
				}
			}
		}
		k0 := key(rule, spec.fn, "handler invoked exactly once per call")
		if len(calls) != 1 {
			c.R.Bad(rule, k0, c.M.Pos(fn.Pos()), sprintf("%d handler call sites", len(calls)), "the handler must be invoked at exactly one site, outside any loop")
			continue
		}
		call := calls[0]
		at := call.Block()
		if workerSite != nil {
			at = workerSite.Block()
		}
		if blockInLoop(at) || blockInLoop(call.Block()) {
			c.R.Bad(rule, k0, c.M.InstrPos(call), "handler call inside a loop", "the handler may run more than once for one call")
		} else {
			c.R.Ok(rule, k0, c.M.InstrPos(call), "handler call site", "single call site, not inside a loop")
		}
		k1 := key(rule, spec.fn, "handler dominated by successful input validation")
		v := c.errNilOfMethod(at, spec.check)
		dataParam := fn.Params[len(fn.Params)-1]
		if v == nil {
			c.R.Bad(rule, k1, c.M.InstrPos(call), "handler runs without a dominating successful "+spec.check+" of the input",
				"no branch condition `"+spec.check+"(...) == nil` dominates the handler call: the handler can be reached with input the schema rejects")
		} else {
			// validated value is the data parameter
			okArg := false
			for _, a := range v.Call.Args {
				if a == ssa.Value(dataParam) {
					okArg = true
				}
			}
			if okArg {
				c.R.Ok(rule, k1, c.M.InstrPos(call), "handler guarded by input validation", "dominated by "+spec.check+"("+dataParam.Name()+") == nil")
			} else {
				c.R.Bad(rule, k1, c.M.InstrPos(call), "the validated value is not the handler's input", "validation is applied to a different value than the one handed to the handler")
			}
		}
		// R-FLOW: the handler's data argument derives from the data parameter only through a type assertion
		k2 := key(rule, spec.fn, "handler receives the validated value")
		last := call.Call.Args[len(call.Call.Args)-1]
		if p, isParam := last.(*ssa.Parameter); isParam && worker != nil {
			for i, q := range worker.Params {
				if q == p && i < len(workerSite.Call.Args) {
					last = workerSite.Call.Args[i]
				}
			}
		}
		src := last
		if ta, ok := last.(*ssa.TypeAssert); ok {
			src = ta.X
		}
		if src == ssa.Value(dataParam) {
			c.R.Ok(rule, k2, c.M.InstrPos(call), "handler argument", "the data parameter itself (after a type assertion to the declared input type)")
		} else {
			c.R.Bad(rule, k2, c.M.InstrPos(call), "handler argument is not the validated input", "the value passed to the handler is "+c.stable(fn, c.M.ValPath(last)))
		}
	}
	// (3) CallStep / CallSignal: the step is called with the unserialized value, after a successful Unserialize
	for _, spec := range []struct{ fn, callee string }{
		{"schema.CallableSchema.CallStep", "Call"},
		{"schema.CallableSchema.CallSignal", "CallSignal"},
	} {
		fn := c.fn(rule, spec.fn)
		if fn == nil {
			continue
		}
		var stepCall *ssa.Call
		n := 0
		for _, b := range fn.Blocks {
			for _, in := range b.Instrs {
				if call, ok := in.(*ssa.Call); ok && call.Call.IsInvoke() && call.Call.Method.Name() == spec.callee {
					stepCall = call
					n++
				}
			}
		}
		k := key(rule, spec.fn, "step invoked once, with the unserialized input, after Unserialize succeeded")
		if n != 1 {
			c.R.Bad(rule, k, c.M.Pos(fn.Pos()), sprintf("%d calls of the step's %s", n, spec.callee), "expected exactly one")
			continue
		}
		u := c.errNilOfMethod(stepCall.Block(), "Unserialize")
		if u == nil || blockInLoop(stepCall.Block()) {
			c.R.Bad(rule, k, c.M.InstrPos(stepCall), "step called without a dominating successful Unserialize of the raw input", "raw or rejected input can reach the step")
			continue
		}
		last := stepCall.Call.Args[len(stepCall.Call.Args)-1]
		if e, ok := last.(*ssa.Extract); ok && e.Tuple == ssa.Value(u) && e.Index == 0 {
			// and Unserialize was applied to the raw data parameter
			raw := fn.Params[len(fn.Params)-1]
			okRaw := false
			for _, a := range u.Call.Args {
				if a == ssa.Value(raw) {
					okRaw = true
				}
			}
			if okRaw {
				c.R.Ok(rule, k, c.M.InstrPos(stepCall), "step call", "dominated by Unserialize("+raw.Name()+") == nil and fed exactly its result")
			} else {
				c.R.Bad(rule, k, c.M.InstrPos(stepCall), "Unserialize is not applied to the raw input parameter", "")
			}
		} else {
			c.R.Bad(rule, k, c.M.InstrPos(stepCall), "step is not called with the unserialized value", "the data argument of the step call is not result #0 of the dominating Unserialize")
		}
	}
	// (4) Call: every accepting return follows the declared-output lookup and carries the output validation's verdict
	if fn := c.fn(rule, "schema.CallableStepSchema.Call"); fn != nil {
		k := key(rule, "schema.CallableStepSchema.Call", "success only for a declared output ID whose data passed the output schema")
		if c.outputLookupDominatesAccept() {
			okVal := true
			var carries func(f *ssa.Function, depth int) bool
			carries = func(f *ssa.Function, depth int) bool {
				ei := core.ErrorResultIndex(f.Signature)
				for _, r := range core.ReturnsOf(f) {
					e := core.RetVal(r, ei)
					if c.M.ProvablyNonNilError(e, r.Block()) {
						continue
					}
					call, ok := e.(*ssa.Call)
					if ok && c.calledMethodName(call) == "Validate" {
						continue
					}
					// the error of the worker the function ends in: the worker's own returns are looked at
					if w, site := c.tailWorker(f); w != nil && depth < 2 {
						if ex, isEx := e.(*ssa.Extract); isEx && ex.Tuple == ssa.Value(site) {
							if carries(w, depth+1) {
								continue
							}
							return false
						}
					}
					// or: a nil error returned where the declared output's Validate was found to return nil
					passed := false
					if core.IsNilConst(e) {
						for _, cond := range r.Conds() {
							x, neq, isNil := core.NilCmp(cond.V)
							if !isNil || neq == cond.True {
								continue
							}
							// ... or where a verdict helper of the same receiver, of which the same holds, returned nil
							if hc, isCall := core.Unwrap(x).(*ssa.Call); isCall && depth < 2 {
								if h := c.verdictHelper(f, hc); h != nil && carries(h, depth+1) {
									passed = true
								}
							}
							if vc, isCall := core.Unwrap(x).(*ssa.Call); isCall && c.calledMethodName(vc) == "Validate" {
								v := vc.Call.Value
								if !vc.Call.IsInvoke() && len(vc.Call.Args) > 0 {
									v = vc.Call.Args[0]
								}
								for i := 0; i < 4; i++ {
									switch y := v.(type) {
									case *ssa.Extract:
										v = y.Tuple
									case *ssa.UnOp:
										v = y.X
									}
								}
								if _, isLk := v.(*ssa.Lookup); isLk {
									passed = true
								}
							}
						}
					}
					if !passed {
						return false
					}
				}
				return true
			}
			okVal = carries(fn, 0)
			if okVal {
				c.R.Ok(rule, k, c.M.Pos(fn.Pos()), "accepting returns of Call", "dominated by a successful lookup of the output ID in the outputs table; the returned error is the output schema's Validate verdict")
			} else {
				c.R.Bad(rule, k, c.M.Pos(fn.Pos()), "Call can succeed without validating the output data", "an accepting return does not return the output schema's Validate result")
			}
		} else {
			c.R.Bad(rule, k, c.M.Pos(fn.Pos()), "Call can succeed for an undeclared output ID", "an accepting return is not dominated by a successful comma-ok lookup of the output ID")
		}
	}
	c.R.Floor(rule, 8)
}

// ruleStepErrors (R-ERRPROV for C11): each failure class maps to its own error type.
func (c *Ctx) ruleStepErrors(rule string) {
	type want struct {
		fn     string
		method string // error of which call ("" = lookup miss)
		typ    string
		recv   string // "" any; "field": the call's receiver is loaded from a field (the input schema); "lookup": from a table lookup (the declared output)
	}
	recvKind := func(call *ssa.Call) string {
		v := call.Call.Value
		if !call.Call.IsInvoke() && len(call.Call.Args) > 0 {
			v = call.Call.Args[0]
		}
		for i := 0; i < 4; i++ {
			switch x := v.(type) {
			case *ssa.Extract:
				v = x.Tuple
			case *ssa.Lookup:
				return "lookup"
			case *ssa.UnOp:
				if _, ok := x.X.(*ssa.FieldAddr); ok {
					return "field"
				}
				v = x.X // a value receiver loaded through the looked-up pointer
			default:
				return ""
			}
		}
		return ""
	}
	for _, w := range []want{
		{"schema.CallableSchema.CallStep", "", "BadArgumentError", ""},
		{"schema.CallableSchema.CallStep", "Unserialize", "InvalidInputError", ""},
		{"schema.CallableSchema.CallStep", "Serialize", "InvalidOutputError", ""},
		{"schema.CallableSchema.CallSignal", "", "BadArgumentError", ""},
		{"schema.CallableSchema.CallSignal", "Unserialize", "InvalidInputError", ""},
		{"schema.CallableStepSchema.Call", "Validate", "InvalidInputError", "field"},
		{"schema.CallableStepSchema.Call", "Validate", "InvalidOutputError", "lookup"},
		{"schema.CallableStepSchema.Call", "", "InvalidOutputError", ""},
		{"schema.CallableSignalSchema.Call", "Validate", "InvalidInputError", ""},
	} {
		fn := c.fn(rule, w.fn)
		if fn == nil {
			continue
		}
		ei := core.ErrorResultIndex(fn.Signature)
		desc := "a failed " + w.method
		if w.method == "" {
			desc = "an unknown ID (failed table lookup)"
		}
		if w.recv == "lookup" {
			desc += " of the declared output"
		}
		k := key(rule, w.fn, desc+" yields "+w.typ)
		found, bad := 0, ""
		// the returns of the function, and of the same-receiver helpers whose error it hands on unchanged
		type retOf struct {
			r  core.Ret
			ei int
		}
		var rets []retOf
		for _, r := range core.ReturnsOf(fn) {
			rets = append(rets, retOf{r, ei})
		}
		for _, h := range c.verdictHelpersOf(fn) {
			for _, r := range core.ReturnsOf(h) {
				rets = append(rets, retOf{r, core.ErrorResultIndex(h.Signature)})
			}
		}
		for _, ro := range rets {
			r, ei := ro.r, ro.ei
			// which failure does this return belong to?
			match := false
			for _, cond := range r.Conds() {
				if w.method == "" {
					if t, ok := core.CommaOk(cond.V); ok && !cond.True {
						if _, isLk := t.(*ssa.Lookup); isLk {
							match = true
						}
					}
					continue
				}
				x, neq, ok := core.NilCmp(cond.V)
				if !ok || neq != cond.True {
					continue
				}
				var call *ssa.Call
				switch v := x.(type) {
				case *ssa.Call:
					call = v
				case *ssa.Extract:
					call, _ = v.Tuple.(*ssa.Call)
				}
				if call != nil && c.calledMethodName(call) == w.method && (w.recv == "" || recvKind(call) == w.recv) {
					match = true
				}
			}
			if !match {
				continue
			}
			e := core.RetVal(r, ei)
			// the error of a verdict helper handed on unchanged: the helper's own returns are examined above
			if hc, _, isCall := core.CallResult(core.Unwrap(e)); isCall && r.Return.Parent() == fn && c.verdictHelper(fn, hc) != nil {
				continue
			}
			found++
			tn := ""
			if mi, ok := e.(*ssa.MakeInterface); ok {
				if n, ok := mi.X.Type().(*types.Named); ok {
					tn = n.Obj().Name()
				}
			}
			if tn != w.typ {
				bad = tn
				if bad == "" {
					bad = "an unwrapped error"
				}
			}
		}
		switch {
		case found == 0:
			c.R.Bad(rule, k, c.M.Pos(fn.Pos()), "no error return for "+desc, "the failure class has no dedicated return in "+w.fn)
		case bad != "":
			c.R.Bad(rule, k, c.M.Pos(fn.Pos()), desc+" is reported as "+bad, "callers (the ATP server) distinguish failure classes by error type; expected "+w.typ)
		default:
			c.R.Ok(rule, k, c.M.Pos(fn.Pos()), "error type of "+desc, sprintf("%d return(s), all of type %s", found, w.typ))
		}
	}
}

// ruleStepData (R-STEPDATA): the per-run step data table is only ever extended by the guarded insert; nothing removes
// or replaces an entry, so the data a run's signals see is the data created first.
func (c *Ctx) ruleStepData(rule string) {
	targets := c.lockTargets("schema")
	total := 0
	for t, mutex := range targets {
		if c.methodFn(t, "CallSignal") == nil || c.methodFn(t, "Call") == nil {
			continue // only the callable step (the type whose methods run steps and signals)
		}
		st := fieldsOf(t)
		for i := 0; i < st.NumFields(); i++ {
			if _, ok := st.Field(i).Type().Underlying().(*types.Map); !ok {
				continue
			}
			field := st.Field(i).Name()
			inserts := 0
			for _, fn := range c.M.Funcs {
				for _, b := range fn.Blocks {
					for _, in := range b.Instrs {
						switch x := in.(type) {
						case *ssa.MapUpdate:
							if !c.isFieldLoad(x.Map, t, field) {
								continue
							}
							inserts++
							// controlled by a miss of the same key
							guarded := false
							for _, cond := range core.CondsAt(b) {
								if tu, ok := core.CommaOk(cond.V); ok && !cond.True {
									if lk, ok := tu.(*ssa.Lookup); ok && c.isFieldLoad(lk.X, t, field) && lk.Index == x.Key {
										guarded = true
									}
								}
							}
							k := key(rule, c.M.Key(fn), "insert into "+t.Obj().Name()+"."+field+" only on a miss of the same key")
							if guarded {
								c.R.Ok(rule, k, c.M.InstrPos(in), "step data insert", "controlled by a failed lookup of the same run ID (guarded by "+mutex+", see R-ATOMIC)")
							} else {
								c.R.Bad(rule, k, c.M.InstrPos(in), "step data entry can be overwritten", "the insert is not controlled by a miss of the same key: an existing run's data is replaced while its signals use the old one")
							}
						case ssa.CallInstruction:
							if bi, ok := x.Common().Value.(*ssa.Builtin); ok && bi.Name() == "delete" && c.isFieldLoad(x.Common().Args[0], t, field) {
								c.R.Bad(rule, key(rule, c.M.Key(fn), "delete from "+t.Obj().Name()+"."+field), c.M.InstrPos(in), "step data entry removed",
									"a signal that arrives after the removal re-creates the entry (the initializer runs again) and sees data the step never saw")
							}
						case *ssa.Store:
							if fa, ok := x.Addr.(*ssa.FieldAddr); ok && structOf(fa.X.Type()) != nil && structOf(fa.X.Type()).Obj() == t.Obj() && fieldName(fa.X.Type(), fa.Field) == field {
								if _, isAlloc := fa.X.(*ssa.Alloc); !isAlloc {
									c.R.Bad(rule, key(rule, c.M.Key(fn), "replace "+t.Obj().Name()+"."+field), c.M.InstrPos(in), "step data table replaced", "all run data is lost for running signals")
								}
							}
						}
					}
				}
			}
			total += inserts
		}
	}
	if total == 0 {
		c.R.Unresolved(rule, "insert site of the per-run step data table")
	}
	c.R.Floor(rule, 1)
}

// verdictHelper: call is a static call, made in f, of a method h of f's receiver whose last result is an error that f
// tests and, where it is non-nil, returns unchanged as its own error ("if err := s.check(..); err != nil { return .., err }").
// Such a helper's verdict is f's verdict: rules that look for facts on f's accepting paths may look at h's.
func (c *Ctx) verdictHelper(f *ssa.Function, call *ssa.Call) *ssa.Function {
	h := call.Call.StaticCallee()
	if h != nil && len(h.Blocks) == 0 && h.Origin() != nil {
		h = h.Origin() // a method of a generic type called inside the generic body: the body is the origin's
	}
	if h == nil || len(h.Blocks) == 0 {
		if cs := c.M.Callees(&call.Call); len(cs) == 1 && !call.Call.IsInvoke() {
			h = cs[0]
		}
	}
	if h != nil && h.Origin() != nil && len(h.Origin().Blocks) > 0 {
		h = h.Origin() // the generic body, not the instantiation wrapper around it
	}
	if h == nil || h == f || len(h.Blocks) == 0 || len(f.Params) == 0 || len(call.Call.Args) == 0 || call.Call.Args[0] != ssa.Value(f.Params[0]) {
		return nil
	}
	hei, fei := core.ErrorResultIndex(h.Signature), core.ErrorResultIndex(f.Signature)
	if hei < 0 || fei < 0 {
		return nil
	}
	var errVal ssa.Value = call
	if h.Signature.Results().Len() > 1 {
		errVal = nil
		for _, r := range *call.Referrers() {
			if ex, ok := r.(*ssa.Extract); ok && ex.Index == hei {
				errVal = ex
			}
		}
	}
	if errVal == nil {
		return nil
	}
	for _, r := range core.ReturnsOf(f) {
		if core.RetVal(r, fei) == errVal {
			return h
		}
	}
	return nil
}

// verdictHelpersOf: the verdict helpers called in f.
func (c *Ctx) verdictHelpersOf(f *ssa.Function) []*ssa.Function {
	var out []*ssa.Function
	seen := map[*ssa.Function]bool{}
	for _, b := range f.Blocks {
		for _, in := range b.Instrs {
			if call, ok := in.(*ssa.Call); ok {
				if h := c.verdictHelper(f, call); h != nil && !seen[h] {
					seen[h] = true
					out = append(out, h)
				}
			}
		}
	}
	return out
}

// tailWorker: f ends by handing over to a worker on the same receiver - every way out of f that does not fail returns,
// result for result, what one call `w(...)` of an unexported method returned (`return s.run(ctx, data, typedInput)`).
// The worker and the call, nil if f is not of that shape.
func (c *Ctx) tailWorker(f *ssa.Function) (*ssa.Function, *ssa.Call) {
	ei := core.ErrorResultIndex(f.Signature)
	if f.Signature.Recv() == nil || len(f.Params) == 0 || ei < 0 {
		return nil, nil
	}
	var site *ssa.Call
	n := 0
	for _, r := range core.ReturnsOf(f) {
		if c.M.RetNonNil(r, ei) {
			continue
		}
		n++
		for i, res := range r.Return.Results {
			ex, ok := res.(*ssa.Extract)
			if !ok || ex.Index != i {
				return nil, nil
			}
			call, ok := ex.Tuple.(*ssa.Call)
			if !ok || (site != nil && site != call) {
				return nil, nil
			}
			site = call
		}
	}
	if site == nil || n == 0 {
		return nil, nil
	}
	w := core.StaticBody(&site.Call)
	if w == nil || w == f || w.Signature.Recv() == nil || len(site.Call.Args) == 0 || site.Call.Args[0] != ssa.Value(f.Params[0]) ||
		token.IsExported(w.Name()) || len(core.PlainSites(w)) != 1 {
		return nil, nil
	}
	return w, site
}
