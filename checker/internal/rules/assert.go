package rules

import (
	"go/token"
	"go/types"
	"strings"

	"golang.org/x/tools/go/ssa"

	"verifcheck/internal/core"
)

// R-ASSERT: every single-value type assertion x.(T) in the given functions must be justified, because a failing one
// panics. Discharge methods (DESIGN §3.1):
//
//	D2  dynamic-type provenance of x is a subset of {T} (or all implement interface T) and nil cannot flow
//	D3  validator summary: dominated by f(x)==nil where every accepting return of f is dominated by a successful x.(T)
//	D5  generic idiom: any(v).(K) under a type-switch case that fixes the type parameter K
//	D6  TypeID gate: dominated by recv.TypeID()==K where every repo type reporting K implements T
//	D7  meta-root: result of Unserialize on a package-level scope whose root object is struct-mapped to T
//
// Structural exception classes (relations between a run-time type and a construction-time invariant):
//
//	E-TYPEPARAM  the asserted type is a bare type parameter of the enclosing generic declaration: typed wrappers
//	             and user callbacks (A4); NewTypedScopeSchema's reflect.Type comparison is re-verified. Slices and
//	             maps of type parameters are NOT excepted: they are built from the children's ReflectedType()
//	E-DUCK       operand is .Interface() of a reflect.Value obtained via MethodByName(...).Call / FieldByName /
//	             MapIndex inside a ValidateCompatibility implementation
//	E-WORKMAP    assertion to map[string]any of an element of the working map in applySubObjectDefaultValues
func (c *Ctx) ruleAssert(rule string, fns map[*ssa.Function]bool) {
	dt := core.NewDynTypes(c.M)
	for _, fn := range c.M.SortedFuncs(fns) {
		for _, b := range fn.Blocks {
			for _, in := range b.Instrs {
				ta, ok := in.(*ssa.TypeAssert)
				if !ok || ta.CommaOk {
					continue
				}
				c.checkAssert(rule, dt, fn, ta)
			}
		}
	}
}

func typeStr(t types.Type) string {
	return types.TypeString(t, func(p *types.Package) string { return p.Name() })
}

func (c *Ctx) checkAssert(rule string, dt *core.DynTypes, fn *ssa.Function, ta *ssa.TypeAssert) {
	fk := c.M.Key(fn)
	k := key(rule, fk, "("+c.operandDesc(ta.X)+").("+typeStr(ta.AssertedType)+")")
	pos := c.M.InstrPos(ta)
	what := "unchecked type assertion to " + typeStr(ta.AssertedType)
	b := ta.Block()

	// D2
	ts := dt.Of(ta.X, b)
	ts = removeFailedAsserts(ts, ta.X, b)
	if !ts.Top && !ts.MayNil && len(ts.Types) > 0 {
		all := true
		for _, t := range ts.Types {
			if !assertHolds(t, ta.AssertedType) {
				all = false
			}
		}
		if all {
			c.R.Ok(rule, k, pos, what, "D2 provenance: operand can only hold "+ts.String())
			return
		}
		// D5: generic idiom under a type-switch case fixing the type parameter
		if tp, ok := ta.AssertedType.(*types.TypeParam); ok && len(ts.Types) == 1 {
			if typeParamFixedTo(b, tp, ts.Types[0]) {
				c.R.Ok(rule, k, pos, what, "D5 generic idiom: a dominating type-switch case establishes "+tp.Obj().Name()+" = "+typeStr(ts.Types[0]))
				return
			}
		}
		// D5 over a merge: the operand is assigned in the cases of the type switch and asserted after it - every
		// assignment is made where the case establishes the type parameter to be the type assigned
		if tp, ok := ta.AssertedType.(*types.TypeParam); ok {
			if phi, isPhi := ta.X.(*ssa.Phi); isPhi && len(phi.Edges) > 0 {
				allFixed := true
				for i, e := range phi.Edges {
					pred := phi.Block().Preds[i]
					es := dt.Of(e, pred)
					if es.Top || es.MayNil || len(es.Types) != 1 || !typeParamFixedTo(pred, tp, es.Types[0]) {
						allFixed = false
					}
				}
				if allFixed {
					c.R.Ok(rule, k, pos, what, "D5 generic idiom: every value merged into the operand is assigned under a type-switch case that establishes "+tp.Obj().Name()+" to be its type")
					return
				}
			}
		}
		c.R.Bad(rule, k, pos, what, "provenance of the operand is "+ts.String()+", which is not contained in {"+typeStr(ta.AssertedType)+"}: the assertion panics for the other types")
		return
	}
	// D3 validator summary
	if why, ok := c.validatorSummary(ta); ok {
		c.R.Ok(rule, k, pos, what, why)
		return
	}
	// D6 TypeID gate
	if why, ok := c.typeIDGate(ta); ok {
		c.R.Ok(rule, k, pos, what, why)
		return
	}
	// D7 meta root
	if why, ok := c.metaRoot(ta); ok {
		c.R.Ok(rule, k, pos, what, why)
		return
	}
	// exceptions
	if why, ok := c.exceptTypeParam(fn, ta); ok {
		// the exception covers WHICH type the operand has; it cannot cover the nil interface, for which every
		// assertion fails whatever the type argument is (StepData = any included)
		nonNil := !ts.MayNil && (!ts.Top || ts.TopNonNil)
		for _, cond := range core.CondsAt(b) {
			if x, neq, ok := core.NilCmp(cond.V); ok && neq == cond.True && (x == ta.X || c.M.ValPath(x) == c.M.ValPath(ta.X)) {
				nonNil = true
			}
		}
		// or: the operand passed a schema's Validate (no schema kind accepts the nil interface: R-REFLECT / R-NILGUARD
		// decide that for every Validate in the package)
		for _, cond := range core.CondsAt(b) {
			x, neq, ok := core.NilCmp(cond.V)
			if !ok || neq == cond.True {
				continue
			}
			if vc, isCall := core.Unwrap(x).(*ssa.Call); isCall && c.calledMethodName(vc) == "Validate" {
				for _, a := range vc.Call.Args {
					if a == ta.X {
						nonNil = true
					}
				}
			}
		}
		if nonNil {
			c.R.Except(rule, k, pos, what, why)
		} else {
			c.R.Bad(rule, k, pos, what, "the operand may be the nil interface (provenance "+ts.String()+"): asserting nil to a type parameter panics whatever the type argument is - a step whose data is nil (no initializer, or one returning nil) makes every signal panic")
		}
		return
	}
	if why, ok := c.exceptDuck(fn, ta); ok {
		c.R.Except(rule, k, pos, what, why)
		return
	}
	if why, ok := c.exceptWorkMap(fn, ta); ok {
		c.R.Except(rule, k, pos, what, why)
		return
	}
	c.R.Bad(rule, k, pos, what, "operand provenance "+ts.String()+"; no dominating comma-ok / validator / TypeID gate establishes the asserted type: a value of another dynamic type (or nil) panics here")
}

// operandDesc: a position-free description of the operand (access path, or the producing call).
func (c *Ctx) operandDesc(v ssa.Value) string {
	v0 := v
	for {
		switch x := v.(type) {
		case *ssa.Extract:
			if call, ok := x.Tuple.(*ssa.Call); ok {
				return "result#" + string(rune('0'+x.Index)) + " of " + c.callDesc(call)
			}
			v = x.Tuple
			continue
		case *ssa.Call:
			return "result of " + c.callDesc(x)
		case *ssa.MakeInterface:
			v = x.X
			continue
		case *ssa.ChangeInterface:
			v = x.X
			continue
		}
		break
	}
	p := c.M.ValPath(v)
	if strings.HasPrefix(p, "%") {
		switch x := v.(type) {
		case *ssa.Lookup:
			return c.M.ValPath(x.X) + "[" + c.M.ValPath(x.Index) + "]"
		case *ssa.Phi:
			return "phi"
		}
		return strings.TrimLeft(typeStr(v0.Type()), "*") + " value"
	}
	return p
}

func (c *Ctx) callDesc(call *ssa.Call) string {
	if call.Call.IsInvoke() {
		return "(" + typeStr(call.Call.Value.Type()) + ")." + call.Call.Method.Name()
	}
	if n := core.StaticCalleeName(&call.Call); n != "" {
		n = strings.ReplaceAll(n, "go.flow.arcalot.io/pluginsdk/", "")
		return n
	}
	return "dynamic call"
}

func assertHolds(dyn, asserted types.Type) bool {
	// receiver type parameters are distinct objects per method declaration: T of (X[T]).A and T of (X[T]).B denote
	// the same type argument when they have the same position and name
	if a, ok := dyn.(*types.TypeParam); ok {
		if b, ok := asserted.(*types.TypeParam); ok {
			return a.Index() == b.Index() && a.Obj().Name() == b.Obj().Name()
		}
	}
	if it, ok := asserted.Underlying().(*types.Interface); ok {
		if _, isTP := asserted.(*types.TypeParam); !isTP {
			return types.Implements(dyn, it)
		}
	}
	return types.Identical(dyn, asserted)
}

// typeParamFixedTo: a dominating condition is the ok of `any(z:TP).(concrete)` being true.
func typeParamFixedTo(b *ssa.BasicBlock, tp *types.TypeParam, concrete types.Type) bool {
	for _, cond := range core.CondsAt(b) {
		if !cond.True {
			continue
		}
		t, ok := core.CommaOk(cond.V)
		if !ok {
			continue
		}
		ta, ok := t.(*ssa.TypeAssert)
		if !ok || !types.Identical(ta.AssertedType, concrete) {
			continue
		}
		if mi, ok := ta.X.(*ssa.MakeInterface); ok {
			if xtp, ok := mi.X.Type().(*types.TypeParam); ok && xtp == tp {
				return true
			}
		}
	}
	return false
}

// validatorSummary (D3): ta.X == parameter passed to a static repo call f whose error result is nil at ta's block, and
// every return of f whose error may be nil is dominated by a successful comma-ok assertion of that parameter to T.
func (c *Ctx) validatorSummary(ta *ssa.TypeAssert) (string, bool) {
	for _, cond := range core.CondsAt(ta.Block()) {
		x, neq, ok := core.NilCmp(cond.V)
		if !ok || neq == cond.True { // need "== nil" holds
			continue
		}
		call, ok := x.(*ssa.Call)
		if !ok {
			continue
		}
		callees := c.M.Callees(&call.Call)
		if len(callees) != 1 || call.Call.IsInvoke() {
			continue
		}
		f := callees[0]
		// which parameter receives ta.X ?
		pi := -1
		for i, a := range call.Call.Args {
			if a == ta.X || (c.M.ValPath(a) == c.M.ValPath(ta.X) && !strings.HasPrefix(c.M.ValPath(a), "%")) {
				pi = i
			}
		}
		if pi < 0 || pi >= len(f.Params) {
			continue
		}
		param := f.Params[pi]
		ei := core.ErrorResultIndex(f.Signature)
		if ei < 0 {
			continue
		}
		okAll := true
		n := 0
		for _, r := range core.ReturnsOf(f) {
			if c.M.RetNonNil(r, ei) {
				continue
			}
			n++
			found := false
			for _, rc := range r.Conds() {
				if !rc.True {
					continue
				}
				if t, ok := core.CommaOk(rc.V); ok {
					if a, ok := t.(*ssa.TypeAssert); ok && a.X == ssa.Value(param) && types.Identical(a.AssertedType, ta.AssertedType) {
						found = true
					}
				}
			}
			if !found {
				okAll = false
			}
		}
		if okAll && n > 0 {
			return "D3 validator summary: dominated by " + c.M.Key(f) + "(x) == nil, whose every accepting return follows a successful x.(" + typeStr(ta.AssertedType) + ")", true
		}
	}
	return "", false
}

// constTypeIDs: for each Serializable implementer, the set of TypeID constants its TypeID() can return ("" if unknown).
func (c *Ctx) typeIDsOf(named *types.Named) ([]string, bool) {
	f := c.methodFn(named, "TypeID")
	if f == nil {
		return nil, false
	}
	var out []string
	for _, r := range core.ReturnsOf(f) {
		if len(r.Results) != 1 {
			return nil, false
		}
		s, ok := core.ConstString(core.RetVal(r, 0))
		if !ok {
			return nil, false
		}
		out = append(out, s)
	}
	return out, len(out) > 0
}

// typeIDGate (D6): `recv.TypeID() == K` dominates, operand is `recv.Type()`/recv itself, and every repo type whose
// TypeID() may return K (or whose TypeID is not constant: pass-through kinds) implements the asserted interface.
func (c *Ctx) typeIDGate(ta *ssa.TypeAssert) (string, bool) {
	it, ok := ta.AssertedType.Underlying().(*types.Interface)
	if !ok {
		return "", false
	}
	for _, cond := range core.CondsAt(ta.Block()) {
		bin, ok := cond.V.(*ssa.BinOp)
		if !ok || bin.Op.String() != "==" || !cond.True {
			continue
		}
		var call *ssa.Call
		var kconst string
		if cl, ok := bin.X.(*ssa.Call); ok {
			if s, ok := core.ConstString(bin.Y); ok {
				call, kconst = cl, s
			}
		} else if cl, ok := bin.Y.(*ssa.Call); ok {
			if s, ok := core.ConstString(bin.X); ok {
				call, kconst = cl, s
			}
		}
		if call == nil {
			continue
		}
		mname := ""
		if call.Call.IsInvoke() {
			mname = call.Call.Method.Name()
		} else if cs := c.M.Callees(&call.Call); len(cs) == 1 {
			k := c.M.Key(cs[0])
			mname = k[strings.LastIndex(k, ".")+1:]
		}
		if mname != "TypeID" {
			continue
		}
		// all types that can report kconst must implement `it`
		if n, ok := c.typeIDImplies(kconst, it); ok {
			return sprintf("D6 TypeID gate: dominated by TypeID() == %q and all %d repo types reporting it implement %s", kconst, n, typeStr(ta.AssertedType)), true
		}
	}
	// the gate is the key of a dispatch table: the assertion sits in a function that a package-level map, filled by the
	// package initialiser only, holds under the constant key K, the operand is a parameter of it, and every call that
	// can run the function takes it out of that map with the result of a TypeID() call as the key
	if prm, isParam := ta.X.(*ssa.Parameter); isParam {
		fn := prm.Parent()
		if init := fn.Parent(); init != nil && init.Name() == "init" {
			for _, b := range init.Blocks {
				for _, in := range b.Instrs {
					mu, ok := in.(*ssa.MapUpdate)
					if !ok {
						continue
					}
					held := false
					switch v := mu.Value.(type) {
					case *ssa.MakeClosure:
						held = v.Fn == ssa.Value(fn)
					case *ssa.Function:
						held = v == fn
					}
					kconst, isConst := core.ConstString(mu.Key)
					if !held || !isConst {
						continue
					}
					// the global the map is kept in
					var g *ssa.Global
					if refs := mu.Map.Referrers(); refs != nil {
						for _, r := range *refs {
							if st, ok := r.(*ssa.Store); ok && st.Val == mu.Map {
								g, _ = st.Addr.(*ssa.Global)
							}
						}
					}
					if g == nil || !c.M.IsDispatchTable(g) || !c.calledOnlyByTypeIDKey(fn, g) {
						continue
					}
					if n, ok := c.typeIDImplies(kconst, it); ok {
						return sprintf("D6 TypeID gate: the function is an entry of the dispatch table %s under the key %q, is only run through a lookup in it by the result of TypeID(), and all %d repo types reporting that ID implement %s", g.Name(), kconst, n, typeStr(ta.AssertedType)), true
					}
				}
			}
		}
	}
	return "", false
}

// typeIDImplies: all types of the module that can report the type ID implement the interface (n of them, n > 0).
func (c *Ctx) typeIDImplies(kconst string, it *types.Interface) (int, bool) {
	bad := ""
	n := 0
	for _, named := range c.serializableTypes() {
		ids, constant := c.typeIDsOf(named)
		if !constant {
			continue // pass-through (property): delegates to its inner type, which is what .Type() returns
		}
		for _, id := range ids {
			if id == kconst {
				n++
				if !types.Implements(types.NewPointer(named), it) && !types.Implements(named, it) && !implementsByName(named, it) {
					bad = named.Obj().Name()
				}
			}
		}
	}
	return n, n > 0 && bad == ""
}

// calledOnlyByTypeIDKey: every call of the module that can run fn takes the function out of the table g with the
// result of a TypeID() call as the key.
func (c *Ctx) calledOnlyByTypeIDKey(fn *ssa.Function, g *ssa.Global) bool {
	sites := 0
	for _, caller := range c.M.Funcs {
		for _, b := range caller.Blocks {
			for _, in := range b.Instrs {
				ci, ok := in.(ssa.CallInstruction)
				if !ok {
					continue
				}
				runs := false
				for _, callee := range c.M.Callees(ci.Common()) {
					if callee == fn {
						runs = true
					}
				}
				if !runs {
					continue
				}
				sites++
				v := ci.Common().Value
				if ex, ok := v.(*ssa.Extract); ok {
					v = ex.Tuple
				}
				lk, ok := v.(*ssa.Lookup)
				if !ok {
					return false
				}
				ld, ok := lk.X.(*ssa.UnOp)
				if !ok || ld.X != ssa.Value(g) {
					return false
				}
				key, ok := lk.Index.(*ssa.Call)
				if !ok {
					return false
				}
				mname := ""
				if key.Call.IsInvoke() {
					mname = key.Call.Method.Name()
				} else if cs := c.M.Callees(&key.Call); len(cs) == 1 {
					k := c.M.Key(cs[0])
					mname = k[strings.LastIndex(k, ".")+1:]
				}
				if mname != "TypeID" {
					return false
				}
			}
		}
	}
	return sites > 0
}

func implementsByName(named *types.Named, it *types.Interface) bool {
	ms := types.NewMethodSet(types.NewPointer(named))
	have := map[string]bool{}
	for i := 0; i < ms.Len(); i++ {
		have[ms.At(i).Obj().Name()] = true
	}
	for i := 0; i < it.NumMethods(); i++ {
		if !have[it.Method(i).Name()] {
			return false
		}
	}
	return true
}

// metaRoot (D7): operand is the result of <global scope>.Unserialize(...) where the global is initialised by
// NewScopeSchema(root, ...) and root is NewStructMappedObjectSchema[T] with T identical to the asserted type.
func (c *Ctx) metaRoot(ta *ssa.TypeAssert) (string, bool) {
	ex, ok := ta.X.(*ssa.Extract)
	if !ok {
		return "", false
	}
	call, ok := ex.Tuple.(*ssa.Call)
	if !ok || ex.Index != 0 {
		return "", false
	}
	cs := c.M.Callees(&call.Call)
	if len(cs) != 1 || c.M.Key(cs[0]) != "schema.ScopeSchema.Unserialize" || len(call.Call.Args) < 1 {
		return "", false
	}
	// must be dominated by err == nil
	if !errNilFor(ta.Block(), call) {
		return "", false
	}
	// in a generic worker that the loaders share: the scope is a parameter and the asserted type a type parameter; at
	// every call site the scope passed is a global whose root object is struct-mapped to the type argument passed
	if p, isParam := call.Call.Args[0].(*ssa.Parameter); isParam {
		tp, isTP := ta.AssertedType.(*types.TypeParam)
		fn := ta.Parent()
		sites := core.PlainSites(fn)
		if !isTP || len(sites) == 0 {
			return "", false
		}
		tpIdx, pIdx := -1, -1
		for i := 0; i < fn.TypeParams().Len(); i++ {
			if fn.TypeParams().At(i) == tp {
				tpIdx = i
			}
		}
		for i, q := range fn.Params {
			if q == p {
				pIdx = i
			}
		}
		if tpIdx < 0 || pIdx < 0 {
			return "", false
		}
		var names []string
		for _, site := range sites {
			inst := site.Call.StaticCallee()
			if inst == nil || tpIdx >= len(inst.TypeArgs()) || pIdx >= len(site.Call.Args) {
				return "", false
			}
			ld, ok := site.Call.Args[pIdx].(*ssa.UnOp)
			if !ok {
				return "", false
			}
			g, ok := ld.X.(*ssa.Global)
			if !ok {
				return "", false
			}
			rootT := c.metaScopeRootType(g)
			if rootT == nil || !types.Identical(rootT, inst.TypeArgs()[tpIdx]) {
				return "", false
			}
			names = append(names, g.Name()+" -> "+typeStr(rootT))
		}
		return "D7 meta-root: at every call site the scope is a global whose root object is struct-mapped to the type argument (" + strings.Join(names, ", ") + ")", true
	}
	ld, ok := call.Call.Args[0].(*ssa.UnOp)
	if !ok {
		return "", false
	}
	g, ok := ld.X.(*ssa.Global)
	if !ok {
		return "", false
	}
	rootT := c.metaScopeRootType(g)
	if rootT == nil {
		return "", false
	}
	if types.Identical(rootT, ta.AssertedType) {
		return "D7 meta-root: " + g.Name() + " is a scope whose root object is struct-mapped to " + typeStr(rootT) + " (unserializeToStruct returns exactly that type)", true
	}
	return "", false
}

// withWorkers adds, to a set of functions, the unexported functions of the module that only they call (the worker halves
// of entry/worker pairs): what is examined in the entries is examined in their workers.
func (c *Ctx) withWorkers(fns map[*ssa.Function]bool) map[*ssa.Function]bool {
	out := map[*ssa.Function]bool{}
	for f := range fns {
		out[f] = true
	}
	for round := 0; round < 3; round++ {
		for f := range out {
			for _, b := range f.Blocks {
				for _, in := range b.Instrs {
					call, ok := in.(*ssa.Call)
					if !ok {
						continue
					}
					w := core.StaticBody(&call.Call)
					if w == nil || out[w] {
						continue
					}
					sites := core.PlainSites(w)
					all := len(sites) > 0
					for _, s := range sites {
						if !out[s.Parent()] {
							all = false
						}
					}
					if all {
						out[w] = true
					}
				}
			}
		}
	}
	return out
}

func errNilFor(b *ssa.BasicBlock, call *ssa.Call) bool {
	ei := core.ErrorResultIndex(call.Call.Signature())
	if ei < 0 {
		return false
	}
	for _, cond := range core.CondsAt(b) {
		x, neq, ok := core.NilCmp(cond.V)
		if !ok || neq == cond.True {
			continue
		}
		if e, ok := x.(*ssa.Extract); ok && e.Tuple == ssa.Value(call) && e.Index == ei {
			return true
		}
		// the error was spilled into a variable (a named result whose address a deferred call takes): the load that
		// is tested must see the store of this call's error, the last store to the variable before it in its block
		if ld, ok := x.(*ssa.UnOp); ok && ld.Op == token.MUL {
			if al, ok := ld.X.(*ssa.Alloc); ok {
				var last ssa.Value
				for _, in := range ld.Block().Instrs {
					if in == ssa.Instruction(ld) {
						break
					}
					if st, ok := in.(*ssa.Store); ok && st.Addr == ssa.Value(al) {
						last = st.Val
					}
				}
				if e, ok := last.(*ssa.Extract); ok && e.Tuple == ssa.Value(call) && e.Index == ei {
					return true
				}
			}
		}
	}
	return false
}

// metaScopeRootType finds, in package init, `g = NewScopeSchema(root, ...)` and root's struct-mapped type argument.
func (c *Ctx) metaScopeRootType(g *ssa.Global) types.Type {
	init := c.M.FuncByKey["schema.init"]
	if init == nil {
		return nil
	}
	for _, b := range init.Blocks {
		for _, in := range b.Instrs {
			st, ok := in.(*ssa.Store)
			if !ok || st.Addr != ssa.Value(g) {
				continue
			}
			call, ok := st.Val.(*ssa.Call)
			if !ok || !strings.HasSuffix(core.StaticCalleeName(&call.Call), ".NewScopeSchema") || len(call.Call.Args) < 1 {
				return nil
			}
			return c.structMappedTypeArg(call.Call.Args[0], init, 0)
		}
	}
	return nil
}

// structMappedTypeArg: v is (a load of a global initialised by) NewStructMappedObjectSchema[T](...): returns T.
func (c *Ctx) structMappedTypeArg(v ssa.Value, init *ssa.Function, depth int) types.Type {
	if depth > 3 {
		return nil
	}
	switch x := v.(type) {
	case *ssa.Call:
		if fn, ok := x.Call.Value.(*ssa.Function); ok {
			if o := fn.Origin(); o != nil && o.Name() == "NewStructMappedObjectSchema" && len(fn.TypeArgs()) == 1 {
				return fn.TypeArgs()[0]
			}
		}
	case *ssa.UnOp:
		if g, ok := x.X.(*ssa.Global); ok {
			for _, b := range init.Blocks {
				for _, in := range b.Instrs {
					if st, ok := in.(*ssa.Store); ok && st.Addr == ssa.Value(g) {
						return c.structMappedTypeArg(st.Val, init, depth+1)
					}
				}
			}
		}
	}
	return nil
}

// exceptTypeParam (E-TYPEPARAM): asserted type is a bare type parameter of the enclosing generic declaration.
func (c *Ctx) exceptTypeParam(fn *ssa.Function, ta *ssa.TypeAssert) (string, bool) {
	// only the bare type parameter: a slice or map OF type parameters is built at run time from the children's
	// ReflectedType(), which no constructor ties to the type arguments (TypedObjectSchema.Any() is a TypedType[any]
	// whose reflected type is the struct): such an assertion needs the comma-ok form
	if _, bare := ta.AssertedType.(*types.TypeParam); !bare {
		return "", false
	}
	return "E-TYPEPARAM: the asserted type is a type parameter of the enclosing generic declaration; " +
		"the relation between the type argument and the schema's reflected type is fixed by the typed constructor (NewTypedObject, " +
		"NewTypedScopeSchema) or is the user's callback contract (A4)", true
}

// exceptDuck (E-DUCK): operand is reflect.Value.Interface() of a value obtained by reflection on the argument
// inside a ValidateCompatibility implementation (schema-mode duck typing on the repo's own schema types).
func (c *Ctx) exceptDuck(fn *ssa.Function, ta *ssa.TypeAssert) (string, bool) {
	k := c.M.Key(fn)
	if !strings.Contains(k, "ValidateCompatibility") && !strings.Contains(k, "validateSchemaCompatibility") {
		return "", false
	}
	call, ok := ta.X.(*ssa.Call)
	if !ok || core.StaticCalleeName(&call.Call) != "(reflect.Value).Interface" {
		return "", false
	}
	return "E-DUCK: operand is the Interface() of a reflect.Value obtained from a field / method of the argument in schema-mode " +
		"ValidateCompatibility; reached only for arguments that already answered the TypeID / field-name probe of the repo's own schema types", true
}

// exceptWorkMap (E-WORKMAP): assertion to map[string]any of an element of the working map inside
// applySubObjectDefaultValues, under an object/ref TypeID gate.
func (c *Ctx) exceptWorkMap(fn *ssa.Function, ta *ssa.TypeAssert) (string, bool) {
	if c.M.Key(fn) != "schema.ObjectSchema.applySubObjectDefaultValues" {
		return "", false
	}
	if typeStr(ta.AssertedType) != "map[string]any" && typeStr(ta.AssertedType) != "map[string]interface{}" {
		return "", false
	}
	if _, ok := ta.X.(*ssa.Lookup); !ok {
		return "", false
	}
	return "E-WORKMAP: element of the working map for a property whose TypeID is object/ref; the element is the property's decoded " +
		"default, which is a JSON object for an object-typed property (schema state, A3)", true
}

// removeFailedAsserts drops the types for which a dominating comma-ok assertion on the same value failed.
func removeFailedAsserts(ts core.TypeSet, x ssa.Value, b *ssa.BasicBlock) core.TypeSet {
	for _, cond := range core.CondsAt(b) {
		if cond.True {
			continue
		}
		t, ok := core.CommaOk(cond.V)
		if !ok {
			continue
		}
		a, ok := t.(*ssa.TypeAssert)
		if !ok || a.X != x {
			continue
		}
		var keep []types.Type
		for _, ty := range ts.Types {
			if !types.Identical(ty, a.AssertedType) {
				keep = append(keep, ty)
			}
		}
		ts.Types = keep
	}
	return ts
}
