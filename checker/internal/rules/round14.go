package rules

import (
	"go/types"
	"strings"

	"golang.org/x/tools/go/ssa"

	"verifcheck/internal/core"
)

// Rules written for the misses of seeding round 14.

// R-PARSEERR (C02, C16 "a text that does not denote a number of the type is refused, never turned into another number"):
// beside a non-nil error strconv hands back a number that is not what the text denotes - the largest value of the type
// or an infinity for a range error, zero for a syntax error. So every use of the numeric result of strconv.ParseFloat /
// ParseInt / ParseUint / Atoi sits where that call's error is known to be nil, or hands the pair (number, error) on as it
// is. A helper that decides which errors count (`if notANumber(err) { return }`) is followed through what its outcome
// says about the error: an outcome that leaves "a range error" open does not establish nil.
func (c *Ctx) ruleParseErr(rule string) {
	n := 0
	for _, fn := range c.M.SortedFuncs(c.scopePkg("schema", "atp", "plugin")) {
		idx := map[string]int{}
		for _, b := range fn.Blocks {
			for _, in := range b.Instrs {
				call, ok := in.(*ssa.Call)
				if !ok {
					continue
				}
				name := core.StaticCalleeName(&call.Call)
				switch name {
				case "strconv.ParseFloat", "strconv.ParseInt", "strconv.ParseUint", "strconv.Atoi":
				default:
					continue
				}
				var num, errv *ssa.Extract
				if refs := call.Referrers(); refs != nil {
					for _, r := range *refs {
						if ex, isEx := r.(*ssa.Extract); isEx {
							if ex.Index == 0 {
								num = ex
							} else {
								errv = ex
							}
						}
					}
				}
				idx[name]++
				n++
				k := key(rule, c.M.Key(fn), sprintf("the number of %s #%d is used only where its error is nil", name, idx[name]))
				if num == nil || num.Referrers() == nil {
					c.R.Ok(rule, k, c.M.InstrPos(call), "number parsed from text", "the numeric result is not used")
					continue
				}
				// the error, and what is read back from a variable it was put into
				isErr := func(v ssa.Value) bool {
					if errv == nil {
						return false
					}
					if v == ssa.Value(errv) {
						return true
					}
					ld, isLoad := v.(*ssa.UnOp)
					if !isLoad || errv.Referrers() == nil {
						return false
					}
					for _, r := range *errv.Referrers() {
						if st, isStore := r.(*ssa.Store); isStore && st.Val == ssa.Value(errv) && sameAddr(st.Addr, ld.X) && noStoreBetween(st, ld, ld.X) {
							return true
						}
					}
					return false
				}
				est := func(cond core.Cond) bool {
					x, neq, isNil := core.NilCmp(cond.V)
					return isNil && cond.True != neq && isErr(viaArg(cond, x))
				}
				holds := core.MustHold(fn, est)
				bad := ""
				var visit func(v ssa.Value, depth int)
				visit = func(v ssa.Value, depth int) {
					if v.Referrers() == nil || bad != "" {
						return
					}
					for _, r := range *v.Referrers() {
						switch x := r.(type) {
						case *ssa.DebugRef:
							continue
						case *ssa.Return:
							// handed on beside its error
							paired := false
							for _, res := range x.Results {
								if isErr(res) {
									paired = true
								}
							}
							if paired {
								continue
							}
						case *ssa.Phi:
							// merged: what counts is the edge the number arrives on, and then the uses of the merge
							okEdge := true
							for i, e := range x.Edges {
								if e == v && !holds[x.Block().Preds[i]] && !edgeEstablishes(x.Block().Preds[i], x.Block(), est) {
									okEdge = false
								}
							}
							if okEdge {
								continue
							}
							bad = c.M.InstrPos(x)
							if !x.Pos().IsValid() {
								bad = c.M.InstrPos(call)
							}
							return
						}
						if !holds[r.Block()] {
							bad = c.M.InstrPos(r)
							if !r.Pos().IsValid() {
								bad = c.M.InstrPos(call)
							}
							return
						}
					}
				}
				visit(num, 0)
				if bad == "" {
					c.R.Ok(rule, k, c.M.InstrPos(call), "number parsed from text", "every use of the numeric result lies behind `err == nil` for the error of the same call, or hands number and error on together")
				} else {
					c.R.Bad(rule, k, c.M.InstrPos(call), "the number strconv hands back beside an error is used (at "+bad+")",
						"on a path to that use the error of the call is not known to be nil: for a range error the number is the largest value of the type or an infinity, for a syntax error zero - the text is accepted as a number it does not denote")
				}
			}
		}
	}
	if n == 0 {
		c.R.Unresolved(rule, "a call of strconv.ParseFloat / ParseInt / ParseUint / Atoi")
	}
}

// edgeEstablishes: the edge from -> to carries a condition that est accepts.
func edgeEstablishes(from, to *ssa.BasicBlock, est func(core.Cond) bool) bool {
	for _, cond := range core.EdgeConds(from, to) {
		if est(cond) {
			return true
		}
	}
	return false
}

// R-OFFERALL (C15 "a schema is compatible with itself, with a twin and with the schema rebuilt from its description"):
// the comparison of two objects looks every property of the consumer up in the table of what the producer offers, and the
// rules for a pair (R-DISABLED among them: disabled on both sides is no conflict) need to see the producer's property.
// So the table that is handed to the comparison holds every property of the producer: every way round the loop over
// `producer.Properties()` that fills it passes the store of that entry.
func (c *Ctx) ruleOfferAll(rule string) {
	n := 0
	for _, fn := range c.M.SortedFuncs(c.scopePkg("schema")) {
		for _, b := range fn.Blocks {
			for _, in := range b.Instrs {
				rg, ok := in.(*ssa.Range)
				if !ok {
					continue
				}
				// a range over what Properties() of another object hands out
				src, isCall := core.Unwrap(rg.X).(*ssa.Call)
				if !isCall || c.calledMethodName(src) != "Properties" {
					continue
				}
				recv := src.Call.Value
				if !src.Call.IsInvoke() && len(src.Call.Args) > 0 {
					recv = src.Call.Args[0]
				}
				if len(fn.Params) > 0 && core.Unwrap(recv) == ssa.Value(fn.Params[0]) {
					continue // the receiver's own properties
				}
				// the loop fills a map made in this function, with the key and the value of the entry, and that map is handed
				// to a function of the package afterwards
				var next *ssa.Next
				for _, r := range *rg.Referrers() {
					if nx, isNext := r.(*ssa.Next); isNext {
						next = nx
					}
				}
				if next == nil {
					continue
				}
				fromEntry := func(v ssa.Value, index int) bool {
					ex, isEx := core.Unwrap(v).(*ssa.Extract)
					return isEx && ex.Tuple == ssa.Value(next) && ex.Index == index
				}
				var store *ssa.MapUpdate
				loop := naturalLoop(next.Block())
				for lb := range loop {
					for _, lin := range lb.Instrs {
						mu, isMU := lin.(*ssa.MapUpdate)
						if !isMU || !fromEntry(mu.Key, 1) {
							continue
						}
						val := mu.Value
						if mi, isMI := val.(*ssa.MakeInterface); isMI {
							val = mi.X
						}
						if _, isMake := mu.Map.(*ssa.MakeMap); isMake && fromEntry(val, 2) {
							store = mu
						}
					}
				}
				if store == nil {
					continue
				}
				handed := false
				for _, r := range *store.Map.(*ssa.MakeMap).Referrers() {
					if hc, isCall := r.(*ssa.Call); isCall && core.StaticBody(&hc.Call) != nil {
						handed = true
					}
				}
				if !handed {
					continue
				}
				n++
				k := key(rule, c.M.Key(fn), "every property the producer declares is entered into the table of what it offers")
				if skip := c.loopSkips(next.Block(), store); skip != "" {
					c.R.Bad(rule, k, c.M.InstrPos(store), "a property of the producer is left out of the table of what it offers (the way round the loop at "+skip+" does not store it)",
						"the consumer's loop treats a property that is not in the table as not offered: the rules for a pair of properties (disabled on both sides, required on both sides) cannot apply, and a schema with such a property is refused by itself and by the schema rebuilt from its own description")
				} else {
					c.R.Ok(rule, k, c.M.InstrPos(store), "table of the producer's properties", "every way round the loop over the producer's Properties() passes the store of the entry under its key")
				}
			}
		}
	}
	if n == 0 {
		c.R.Unresolved(rule, "a loop over the producer's Properties() that fills the table handed to the comparison")
	}
}

// loopSkips: a way from the loop's header back to it that does not pass the instruction (its position, "" if none).
func (c *Ctx) loopSkips(header *ssa.BasicBlock, target ssa.Instruction) string {
	loop := naturalLoop(header)
	skipped := ""
	seen := map[*ssa.BasicBlock]bool{}
	var walk func(b *ssa.BasicBlock)
	walk = func(b *ssa.BasicBlock) {
		if seen[b] || skipped != "" || !loop[b] {
			return
		}
		seen[b] = true
		for _, in := range b.Instrs {
			if in == target {
				return
			}
		}
		for _, s := range b.Succs {
			if s == header {
				skipped = c.M.InstrPos(b.Instrs[len(b.Instrs)-1])
				for _, in := range b.Instrs {
					if in.Pos().IsValid() {
						skipped = c.M.InstrPos(in)
					}
				}
				return
			}
			walk(s)
		}
	}
	for _, s := range header.Succs {
		walk(s)
	}
	return skipped
}

// R-EMPTYFLAG (C03 "a value is routed by its discriminator alone", C01): whether the zero value of a Go field stands for
// "not set" is a declaration of the property (TreatEmptyAsDefaultValue; a disabled property, which nothing can supply).
// A field of a kind that has no nil - a string, a number, a struct - cannot tell the two apart by itself: 0 is a key of
// an integer one-of, "" a string like any other. So wherever the schema package branches on reflect.Value.IsZero(), what
// is done on the zero side is done only for a property that declares it: every block that is entered only with IsZero()
// true and does more than consult the property lies behind a flag of the property (a bool field of PropertySchema read
// as true), or behind a test that the value is of a kind that has nil.
func (c *Ctx) ruleEmptyFlag(rule string) {
	n := 0
	isFlag := func(v ssa.Value) bool {
		ld, ok := core.Unwrap(v).(*ssa.UnOp)
		if !ok {
			return false
		}
		fa, ok := ld.X.(*ssa.FieldAddr)
		if !ok {
			return false
		}
		bt, isBasic := ld.Type().Underlying().(*types.Basic)
		return isBasic && bt.Kind() == types.Bool && strings.HasSuffix(strings.TrimPrefix(typeStr(fa.X.Type()), "*"), "PropertySchema")
	}
	for _, fn := range c.M.SortedFuncs(c.scopePkg("schema")) {
		idx := 0
		for _, b := range fn.Blocks {
			for _, in := range b.Instrs {
				call, ok := in.(*ssa.Call)
				if !ok || reflectValueMethod(call) != "IsZero" {
					continue
				}
				idx++
				n++
				k := key(rule, c.M.Key(fn), sprintf("IsZero() test #%d decides 'not set' only for a property that declares it", idx))
				// the blocks entered only with IsZero() true
				saysZero := func(cond core.Cond) bool {
					return cond.True && core.Unwrap(cond.V) == ssa.Value(call)
				}
				saysFlag := func(cond core.Cond) bool {
					if cond.True && isFlag(cond.V) {
						return true
					}
					// a kind that has nil: IsZero() is IsNil() there
					if bin, isBin := cond.V.(*ssa.BinOp); isBin && cond.True && bin.Op.String() == "==" {
						for _, side := range []ssa.Value{bin.X, bin.Y} {
							if kc, isCall := core.Unwrap(side).(*ssa.Call); isCall && reflectValueMethod(kc) == "Kind" {
								other := bin.X
								if side == bin.X {
									other = bin.Y
								}
								if kv, isConst := core.ConstInt(other); isConst {
									switch kv {
									case int64(kindConst(c, "Pointer")), int64(kindConst(c, "Interface")), int64(kindConst(c, "Slice")), int64(kindConst(c, "Map")), int64(kindConst(c, "Func")), int64(kindConst(c, "Chan")):
										return true
									}
								}
							}
						}
					}
					return false
				}
				zero := core.MustHold(fn, saysZero)
				flag := core.MustHold(fn, saysFlag)
				bad := ""
				for _, zb := range fn.Blocks {
					if !zero[zb] || flag[zb] {
						continue
					}
					// a block that only consults the property (reads a flag, branches on it) decides nothing yet
					decides := false
					for _, zin := range zb.Instrs {
						switch x := zin.(type) {
						case *ssa.FieldAddr, *ssa.If, *ssa.DebugRef, *ssa.Jump:
						case *ssa.UnOp:
							if !isFlag(x) {
								decides = true
							}
						default:
							decides = true
						}
					}
					if decides && bad == "" {
						bad = c.M.InstrPos(zb.Instrs[0])
						for _, zin := range zb.Instrs {
							if zin.Pos().IsValid() {
								bad = c.M.InstrPos(zin)
								break
							}
						}
					}
				}
				if bad == "" {
					c.R.Ok(rule, k, c.M.InstrPos(call), "zero value read as 'not set'", "what is done on the zero side is done only behind a flag of the property (or for a kind that has nil)")
				} else {
					c.R.Bad(rule, k, c.M.InstrPos(call), "the zero value of a field is read as 'not set' for a property that does not declare it (at "+bad+")",
						"0 and \"\" are values like any other unless the property says otherwise (TreatEmptyAsDefaultValue, disabled): a struct whose discriminator field is 0 names the member with the key 0, not none")
				}
			}
		}
	}
	if n == 0 {
		c.R.Unresolved(rule, "a branch on reflect.Value.IsZero() in the schema package")
	}
}

func kindConst(c *Ctx, name string) int64 {
	if rp := c.M.Prog.ImportedPackage("reflect"); rp != nil {
		if k := rp.Const(name); k != nil {
			if v, ok := core.ConstInt(k.Value); ok {
				return v
			}
		}
	}
	return -1
}
