package rules

import (
	"go/constant"
	"go/token"
	"go/types"
	"strings"

	"golang.org/x/tools/go/ssa"

	"verifcheck/internal/core"
)

// Rules written for the misses of seeding round 14.

// R-PARSEERR (C02, C16 "a text that does not denote a number of the type is refused, never turned into another number"):
// beside a non-nil error strconv hands back a number that is not what the text denotes - the largest value of the type
// or an infinity for a range error, zero for a syntax error. So every use of the numeric result of strconv.ParseFloat /
// ParseInt / ParseUint / Atoi sits where that call's error is known to be nil, or hands the pair (number, error) on as it
// is. A helper that decides which errors count (`if notANumber(err) { return }`) is followed through what its outcome
// says about the error: an outcome that leaves "a range error" open does not establish nil.
func (c *Ctx) ruleParseErr(rule string) {
	n := 0
	for _, fn := range c.M.SortedFuncs(c.scopePkg("schema", "atp", "plugin")) {
		idx := map[string]int{}
		for _, b := range fn.Blocks {
			for _, in := range b.Instrs {
				call, ok := in.(*ssa.Call)
				if !ok {
					continue
				}
				name := core.StaticCalleeName(&call.Call)
				switch name {
				case "strconv.ParseFloat", "strconv.ParseInt", "strconv.ParseUint", "strconv.Atoi":
				default:
					continue
				}
				var num, errv *ssa.Extract
				if refs := call.Referrers(); refs != nil {
					for _, r := range *refs {
						if ex, isEx := r.(*ssa.Extract); isEx {
							if ex.Index == 0 {
								num = ex
							} else {
								errv = ex
							}
						}
					}
				}
				idx[name]++
				n++
				k := key(rule, c.M.Key(fn), sprintf("the number of %s #%d is used only where its error is nil", name, idx[name]))
				if num == nil || num.Referrers() == nil {
					c.R.Ok(rule, k, c.M.InstrPos(call), "number parsed from text", "the numeric result is not used")
					continue
				}
				// the error, and what is read back from a variable it was put into
				isErr := func(v ssa.Value) bool {
					if errv == nil {
						return false
					}
					if v == ssa.Value(errv) {
						return true
					}
					ld, isLoad := v.(*ssa.UnOp)
					if !isLoad || errv.Referrers() == nil {
						return false
					}
					for _, r := range *errv.Referrers() {
						if st, isStore := r.(*ssa.Store); isStore && st.Val == ssa.Value(errv) && sameAddr(st.Addr, ld.X) && noStoreBetween(st, ld, ld.X) {
							return true
						}
					}
					return false
				}
				est := func(cond core.Cond) bool {
					x, neq, isNil := core.NilCmp(cond.V)
					return isNil && cond.True != neq && isErr(viaArg(cond, x))
				}
				bad := c.numberUses(fn, num, est, isErr, call, 0)
				if bad == "" {
					c.R.Ok(rule, k, c.M.InstrPos(call), "number parsed from text", "every use of the numeric result lies behind `err == nil` for the error of the same call, or hands number and error on together")
				} else {
					c.R.Bad(rule, k, c.M.InstrPos(call), "the number strconv hands back beside an error is used (at "+bad+")",
						"on a path to that use the error of the call is not known to be nil: for a range error the number is the largest value of the type or an infinity, for a syntax error zero - the text is accepted as a number it does not denote")
				}
			}
		}
	}
	if n == 0 {
		c.R.Unresolved(rule, "a call of strconv.ParseFloat / ParseInt / ParseUint / Atoi")
	}
}

// numberUses: the uses of num (a number that is only good where est holds) in fn; the position of a use that is reached
// without est, "" if there is none. A use is where the number (or what is computed from it) leaves the arithmetic: handed
// to a call, stored, returned, or decides a branch. Arithmetic and comparisons on the way only pass it on - `overflows :=
// n > limit` may be worked out before the error is looked at, as long as nothing is done with it before. A return that
// hands the number out beside the error, or beside a verdict computed from the error (`return n, err == nil`), moves
// the obligation to the call sites, where the verdict stands for the error.
func (c *Ctx) numberUses(fn *ssa.Function, num ssa.Value, est func(core.Cond) bool, isErr func(ssa.Value) bool, origin *ssa.Call, level int) string {
	holds := core.MustHold(fn, est)
	bad := ""
	seen := map[ssa.Value]bool{}
	errMerge := map[ssa.Value]ssa.Value{} // merged number -> the merge that carries its error
	var visit func(v ssa.Value, depth int)
	visit = func(v ssa.Value, depth int) {
		if v.Referrers() == nil || bad != "" || seen[v] || depth > 6 {
			return
		}
		seen[v] = true
		for _, r := range *v.Referrers() {
			if bad != "" {
				return
			}
			switch x := r.(type) {
			case *ssa.DebugRef:
				continue
			case *ssa.Return:
				paired := false
				for j, res := range x.Results {
					if isErr(res) || (errMerge[v] != nil && res == errMerge[v]) {
						paired = true // handed on beside its error
						continue
					}
					// ... or beside a verdict: `err == nil` / `err != nil`
					e, neq, isNil := core.NilCmp(res)
					if !isNil || !isErr(e) || level > 1 {
						continue
					}
					numIdx := -1
					for i, res2 := range x.Results {
						if res2 == v {
							numIdx = i
						}
					}
					sites := core.PlainSites(fn)
					if numIdx < 0 || len(sites) == 0 {
						continue
					}
					paired = true
					for _, site := range sites {
						var numEx, okEx *ssa.Extract
						if site.Referrers() != nil {
							for _, sr := range *site.Referrers() {
								if ex, isEx := sr.(*ssa.Extract); isEx {
									if ex.Index == numIdx {
										numEx = ex
									}
									if ex.Index == j {
										okEx = ex
									}
								}
							}
						}
						if numEx == nil {
							continue
						}
						good := !neq // `err == nil`: the verdict true stands for "no error"
						est2 := func(cond core.Cond) bool {
							return okEx != nil && core.Unwrap(cond.V) == ssa.Value(okEx) && cond.True == good
						}
						if b2 := c.numberUses(site.Parent(), numEx, est2, func(ssa.Value) bool { return false }, site, level+1); b2 != "" && bad == "" {
							bad = b2
						}
					}
				}
				if paired {
					continue
				}
			case *ssa.BinOp, *ssa.UnOp, *ssa.Convert, *ssa.ChangeType:
				if !holds[r.Block()] {
					visit(r.(ssa.Value), depth+1)
				}
				continue
			case *ssa.Phi:
				// merged: what counts is the edge the number arrives on, and then the uses of the merge
				okEdge := true
				for i, e := range x.Edges {
					if e == v && !holds[x.Block().Preds[i]] && !edgeEstablishes(x.Block().Preds[i], x.Block(), est) {
						okEdge = false
					}
				}
				if !okEdge {
					// the error may be merged alongside (one result variable for the number, one for the error): the merge
					// of the block that carries the error on every edge on which this one carries the number
					for _, in := range x.Block().Instrs {
						y, isPhi := in.(*ssa.Phi)
						if !isPhi || y == x {
							continue
						}
						along := true
						for i, e := range x.Edges {
							if e == v && !(isErr(y.Edges[i]) || (errMerge[v] != nil && y.Edges[i] == errMerge[v])) {
								along = false
							}
						}
						if along {
							errMerge[x] = y
						}
					}
					visit(x, depth+1)
				}
				continue
			}
			if !holds[r.Block()] {
				bad = c.M.InstrPos(r)
				if !r.Pos().IsValid() {
					bad = c.M.InstrPos(origin)
				}
				return
			}
		}
	}
	visit(num, 0)
	return bad
}

// edgeEstablishes: the edge from -> to carries a condition that est accepts.
func edgeEstablishes(from, to *ssa.BasicBlock, est func(core.Cond) bool) bool {
	for _, cond := range core.EdgeConds(from, to) {
		if est(cond) {
			return true
		}
	}
	return false
}

// R-OFFERALL (C15 "a schema is compatible with itself, with a twin and with the schema rebuilt from its description"):
// the comparison of two objects looks every property of the consumer up in the table of what the producer offers, and the
// rules for a pair (R-DISABLED among them: disabled on both sides is no conflict) need to see the producer's property.
// So the table that is handed to the comparison holds every property of the producer: every way round the loop over
// `producer.Properties()` that fills it passes the store of that entry.
func (c *Ctx) ruleOfferAll(rule string) {
	n := 0
	for _, fn := range c.M.SortedFuncs(c.scopePkg("schema")) {
		for _, b := range fn.Blocks {
			for _, in := range b.Instrs {
				rg, ok := in.(*ssa.Range)
				if !ok {
					continue
				}
				// a range over what Properties() of another object hands out
				src, isCall := core.Unwrap(rg.X).(*ssa.Call)
				if !isCall || c.calledMethodName(src) != "Properties" {
					continue
				}
				recv := src.Call.Value
				if !src.Call.IsInvoke() && len(src.Call.Args) > 0 {
					recv = src.Call.Args[0]
				}
				if fn.Signature.Recv() != nil && len(fn.Params) > 0 && core.Unwrap(recv) == ssa.Value(fn.Params[0]) {
					continue // the receiver's own properties
				}
				// the loop fills a map made in this function, with the key and the value of the entry, and that map is handed
				// to a function of the package afterwards (or handed out to the caller)
				var next *ssa.Next
				for _, r := range *rg.Referrers() {
					if nx, isNext := r.(*ssa.Next); isNext {
						next = nx
					}
				}
				if next == nil {
					continue
				}
				fromEntry := func(v ssa.Value, index int) bool {
					ex, isEx := core.Unwrap(v).(*ssa.Extract)
					return isEx && ex.Tuple == ssa.Value(next) && ex.Index == index
				}
				var store *ssa.MapUpdate
				loop := naturalLoop(next.Block())
				for lb := range loop {
					for _, lin := range lb.Instrs {
						mu, isMU := lin.(*ssa.MapUpdate)
						if !isMU || !fromEntry(mu.Key, 1) {
							continue
						}
						val := mu.Value
						if mi, isMI := val.(*ssa.MakeInterface); isMI {
							val = mi.X
						}
						if _, isMake := mu.Map.(*ssa.MakeMap); isMake && fromEntry(val, 2) {
							store = mu
						}
					}
				}
				if store == nil {
					continue
				}
				handed := false
				for _, r := range *store.Map.(*ssa.MakeMap).Referrers() {
					if hc, isCall := r.(*ssa.Call); isCall && core.StaticBody(&hc.Call) != nil {
						handed = true
					}
					if _, isRet := r.(*ssa.Return); isRet {
						handed = true // a helper that builds the table for its caller
					}
				}
				if !handed {
					continue
				}
				n++
				k := key(rule, c.M.Key(fn), "every property the producer declares is entered into the table of what it offers")
				if skip := c.loopSkips(next.Block(), store); skip != "" {
					c.R.Bad(rule, k, c.M.InstrPos(store), "a property of the producer is left out of the table of what it offers (the way round the loop at "+skip+" does not store it)",
						"the consumer's loop treats a property that is not in the table as not offered: the rules for a pair of properties (disabled on both sides, required on both sides) cannot apply, and a schema with such a property is refused by itself and by the schema rebuilt from its own description")
				} else {
					c.R.Ok(rule, k, c.M.InstrPos(store), "table of the producer's properties", "every way round the loop over the producer's Properties() passes the store of the entry under its key")
				}
			}
		}
	}
	if n == 0 {
		c.R.Unresolved(rule, "a loop over the producer's Properties() that fills the table handed to the comparison")
	}
}

// loopSkips: a way from the loop's header back to it that does not pass the instruction (its position, "" if none).
func (c *Ctx) loopSkips(header *ssa.BasicBlock, target ssa.Instruction) string {
	loop := naturalLoop(header)
	skipped := ""
	seen := map[*ssa.BasicBlock]bool{}
	var walk func(b *ssa.BasicBlock)
	walk = func(b *ssa.BasicBlock) {
		if seen[b] || skipped != "" || !loop[b] {
			return
		}
		seen[b] = true
		for _, in := range b.Instrs {
			if in == target {
				return
			}
		}
		for _, s := range b.Succs {
			if s == header {
				skipped = c.M.InstrPos(b.Instrs[len(b.Instrs)-1])
				for _, in := range b.Instrs {
					if in.Pos().IsValid() {
						skipped = c.M.InstrPos(in)
					}
				}
				return
			}
			walk(s)
		}
	}
	for _, s := range header.Succs {
		walk(s)
	}
	return skipped
}

// R-EMPTYFLAG (C03 "a value is routed by its discriminator alone", C01): whether the zero value of a Go field stands for
// "not set" is a declaration of the property (TreatEmptyAsDefaultValue; a disabled property, which nothing can supply).
// A field of a kind that has no nil - a string, a number, a struct - cannot tell the two apart by itself: 0 is a key of
// an integer one-of, "" a string like any other. So wherever the schema package branches on reflect.Value.IsZero(), what
// is done on the zero side is done only for a property that declares it: every block that is entered only with IsZero()
// true and does more than consult the property lies behind a flag of the property (a bool field of PropertySchema read
// as true), or behind a test that the value is of a kind that has nil.
func (c *Ctx) ruleEmptyFlag(rule string) {
	n := 0
	isFlag := func(v ssa.Value) bool {
		ld, ok := core.Unwrap(v).(*ssa.UnOp)
		if !ok {
			return false
		}
		fa, ok := ld.X.(*ssa.FieldAddr)
		if !ok {
			return false
		}
		bt, isBasic := ld.Type().Underlying().(*types.Basic)
		return isBasic && bt.Kind() == types.Bool && strings.HasSuffix(strings.TrimPrefix(typeStr(fa.X.Type()), "*"), "PropertySchema")
	}
	for _, fn := range c.M.SortedFuncs(c.scopePkg("schema")) {
		idx := 0
		for _, b := range fn.Blocks {
			for _, in := range b.Instrs {
				call, ok := in.(*ssa.Call)
				if !ok || reflectValueMethod(call) != "IsZero" {
					continue
				}
				idx++
				n++
				k := key(rule, c.M.Key(fn), sprintf("IsZero() test #%d decides 'not set' only for a property that declares it", idx))
				// the blocks entered only with IsZero() true
				saysZero := func(cond core.Cond) bool {
					return cond.True && core.Unwrap(cond.V) == ssa.Value(call)
				}
				saysFlag := func(cond core.Cond) bool {
					if cond.True && isFlag(cond.V) {
						return true
					}
					// a kind that has nil: IsZero() is IsNil() there
					if bin, isBin := cond.V.(*ssa.BinOp); isBin && cond.True && bin.Op.String() == "==" {
						for _, side := range []ssa.Value{bin.X, bin.Y} {
							if kc, isCall := core.Unwrap(side).(*ssa.Call); isCall && reflectValueMethod(kc) == "Kind" {
								other := bin.X
								if side == bin.X {
									other = bin.Y
								}
								if kv, isConst := core.ConstInt(other); isConst {
									switch kv {
									case int64(kindConst(c, "Pointer")), int64(kindConst(c, "Interface")), int64(kindConst(c, "Slice")), int64(kindConst(c, "Map")), int64(kindConst(c, "Func")), int64(kindConst(c, "Chan")):
										return true
									}
								}
							}
						}
					}
					return false
				}
				zero := core.MustHold(fn, saysZero)
				flag := core.MustHold(fn, saysFlag)
				bad := ""
				for _, zb := range fn.Blocks {
					if !zero[zb] || flag[zb] {
						continue
					}
					// a block that only consults the property (reads a flag, branches on it) decides nothing yet
					decides := false
					for _, zin := range zb.Instrs {
						switch x := zin.(type) {
						case *ssa.FieldAddr, *ssa.If, *ssa.DebugRef, *ssa.Jump:
						case *ssa.UnOp:
							if !isFlag(x) {
								decides = true
							}
						default:
							decides = true
						}
					}
					if decides && bad == "" {
						bad = c.M.InstrPos(zb.Instrs[0])
						for _, zin := range zb.Instrs {
							if zin.Pos().IsValid() {
								bad = c.M.InstrPos(zin)
								break
							}
						}
					}
				}
				if bad == "" {
					c.R.Ok(rule, k, c.M.InstrPos(call), "zero value read as 'not set'", "what is done on the zero side is done only behind a flag of the property (or for a kind that has nil)")
				} else {
					c.R.Bad(rule, k, c.M.InstrPos(call), "the zero value of a field is read as 'not set' for a property that does not declare it (at "+bad+")",
						"0 and \"\" are values like any other unless the property says otherwise (TreatEmptyAsDefaultValue, disabled): a struct whose discriminator field is 0 names the member with the key 0, not none")
				}
			}
		}
	}
	if n == 0 {
		c.R.Unresolved(rule, "a branch on reflect.Value.IsZero() in the schema package")
	}
}

func kindConst(c *Ctx, name string) int64 {
	if rp := c.M.Prog.ImportedPackage("reflect"); rp != nil {
		if k := rp.Const(name); k != nil {
			if v, ok := core.ConstInt(k.Value); ok {
				return v
			}
		}
	}
	return -1
}

// R-HANDLERARG (C11 "the run's step data is the only step data its signal handlers see"): a value that comes out of a
// comma-ok type assertion is the zero value of the asserted type when the assertion fails. Where such a value is handed
// to a handler - a call of a function value kept in a field of the receiver - it is handed over only where the
// assertion is known to have succeeded: on the way of every merge edge that carries it, or at the call itself. With the
// verdict dropped (`typed, _ := stepData.(StepData)`) a handler declared with another step-data type runs on a zero
// value that is not the run's data, and the call reports success.
func (c *Ctx) ruleHandlerArg(rule string) {
	n := 0
	for _, fn := range c.M.SortedFuncs(c.scopePkg("schema")) {
		idx := 0
		report := func(pos string, found bool, bad string) {
			if !found {
				return
			}
			idx++
			n++
			k := key(rule, c.M.Key(fn), sprintf("asserted value #%d reaches the handler only where the assertion succeeded", idx))
			if bad == "" {
				c.R.Ok(rule, k, pos, "argument of a handler", "handed over only behind the true verdict of the assertion it came out of (on the merge edge that carries it, at the call, through a flag merged alongside, or behind the nil error of the helper that made the assertion)")
			} else {
				c.R.Bad(rule, k, bad, "a handler is called with what a failed type assertion leaves behind",
					"the verdict of the comma-ok assertion is not consulted on the way: for a value of another type the handler runs on the zero value of the asserted type - not the data it was registered for - and the call reports success")
			}
		}
		for _, b := range fn.Blocks {
			for _, in := range b.Instrs {
				switch x := in.(type) {
				case *ssa.TypeAssert:
					val, okv := commaOkParts(x)
					if val == nil {
						continue
					}
					est := func(cond core.Cond) bool {
						return okv != nil && core.Unwrap(cond.V) == ssa.Value(okv) && cond.True
					}
					found, bad := c.handlerUses(fn, val, okv, est)
					report(c.M.InstrPos(x), found, bad)
				case *ssa.Call:
					// a helper of the package that makes the assertion and hands out (value, error): its nil error stands
					// for the true verdict, provided every way out of it that hands out an unverified value has an error
					h := core.StaticBody(&x.Call)
					if h == nil || h == fn || h.Pkg != fn.Pkg || h.Signature.Results().Len() != 2 || !core.IsErrorType(h.Signature.Results().At(1).Type()) || x.Referrers() == nil {
						continue
					}
					var hval, hok *ssa.Extract
					for _, hb := range h.Blocks {
						for _, hin := range hb.Instrs {
							if ta, isTA := hin.(*ssa.TypeAssert); isTA {
								if v, o := commaOkParts(ta); v != nil && hval == nil {
									hval, hok = v, o
								}
							}
						}
					}
					if hval == nil {
						continue
					}
					var val, errv *ssa.Extract
					for _, r := range *x.Referrers() {
						if ex, isEx := r.(*ssa.Extract); isEx {
							if ex.Index == 0 {
								val = ex
							} else {
								errv = ex
							}
						}
					}
					if val == nil {
						continue
					}
					est := func(cond core.Cond) bool {
						e, neq, isNil := core.NilCmp(cond.V)
						return isNil && errv != nil && e == ssa.Value(errv) && cond.True != neq
					}
					found, bad := c.handlerUses(fn, val, nil, est)
					if found && bad == "" {
						// the helper: a way out that hands out the asserted value without the verdict has an error
						hest := func(cond core.Cond) bool {
							return hok != nil && core.Unwrap(cond.V) == ssa.Value(hok) && cond.True
						}
						hholds := core.MustHold(h, hest)
						for _, site := range core.RetSites(h, 0) {
							if !derivedFrom(site.Val, func(v ssa.Value) bool { return v == ssa.Value(hval) }) {
								continue
							}
							from := site.Ret.Block()
							if len(site.Path) > 0 {
								from = site.Path[0]
							}
							if !hholds[from] && !c.M.ProvablyNonNilError(core.RetVal(site.Ret, 1), site.Ret.Block()) {
								bad = c.M.InstrPos(site.Ret)
							}
						}
					}
					report(c.M.InstrPos(x), found, bad)
				}
			}
		}
	}
	if n == 0 {
		c.R.Unresolved(rule, "a handler (function value in a field of the receiver) that is handed the result of a comma-ok type assertion")
	}
}

func commaOkParts(ta *ssa.TypeAssert) (val, okv *ssa.Extract) {
	if !ta.CommaOk || ta.Referrers() == nil {
		return nil, nil
	}
	for _, r := range *ta.Referrers() {
		if ex, isEx := r.(*ssa.Extract); isEx {
			if ex.Index == 0 {
				val = ex
			} else {
				okv = ex
			}
		}
	}
	return val, okv
}

// handlerUses: the calls of a function value read from a field of fn's receiver that are handed val (a value that is
// only good where est holds); found tells whether there is such a call, bad is the position of one that is reached
// without est. A verdict that is merged alongside the value (`typed, matches := zero, true; if x != nil { typed, matches
// = x.(T) }; if matches { handler(typed) }`) stands for it after the merge.
func (c *Ctx) handlerUses(fn *ssa.Function, val ssa.Value, okv ssa.Value, est func(core.Cond) bool) (found bool, bad string) {
	holds := core.MustHold(fn, est)
	seen := map[ssa.Value]bool{}
	var follow func(v ssa.Value, good bool, alt map[*ssa.BasicBlock]bool, depth int)
	follow = func(v ssa.Value, good bool, alt map[*ssa.BasicBlock]bool, depth int) {
		if v.Referrers() == nil || seen[v] || depth > 4 {
			return
		}
		seen[v] = true
		for _, r := range *v.Referrers() {
			switch x := r.(type) {
			case *ssa.Phi:
				edgeGood := true
				for i, e := range x.Edges {
					if e == v && !good && !holds[x.Block().Preds[i]] && !edgeEstablishes(x.Block().Preds[i], x.Block(), est) {
						edgeGood = false
					}
				}
				nalt := alt
				if !edgeGood && okv != nil {
					// the verdict merged alongside: a merge of the same block that carries the verdict on every edge on
					// which this one carries the value, and a constant true elsewhere
					for _, in := range x.Block().Instrs {
						y, isPhi := in.(*ssa.Phi)
						if !isPhi || y == x {
							continue
						}
						along := true
						for i, e := range x.Edges {
							if e == v {
								if y.Edges[i] != okv {
									along = false
								}
							} else if cst, isC := y.Edges[i].(*ssa.Const); !isC || cst.Value == nil || cst.Value.Kind() != constant.Bool || !constant.BoolVal(cst.Value) {
								along = false
							}
						}
						if along {
							flag := y
							nalt = core.MustHold(fn, func(cond core.Cond) bool { return core.Unwrap(cond.V) == ssa.Value(flag) && cond.True })
						}
					}
				}
				follow(x, edgeGood, nalt, depth+1)
			case *ssa.MakeInterface, *ssa.ChangeType, *ssa.ChangeInterface:
				follow(x.(ssa.Value), good, alt, depth+1)
			case *ssa.Call:
				if x.Call.IsInvoke() || x.Call.StaticCallee() != nil {
					continue
				}
				ld, isLoad := x.Call.Value.(*ssa.UnOp)
				if !isLoad {
					continue
				}
				fa, isField := ld.X.(*ssa.FieldAddr)
				if !isField || len(fn.Params) == 0 || !reachedFrom(fa.X, fn.Params[0], 0) {
					continue
				}
				found = true
				if !good && !holds[x.Block()] && !(alt != nil && alt[x.Block()]) && bad == "" {
					bad = c.M.InstrPos(x)
				}
			}
		}
	}
	follow(val, false, nil, 0)
	return found, bad
}

// R-CTORFLAG (C18 "an error the handler returned is reported as function-reported, a call-shape problem is not"): the
// constructor of the call error takes the error and the flag that says which of the two it is. Every value it hands
// out is a record made there, in which the flag field holds the flag parameter and an error field the error parameter:
// a constructor that hands back something it was given (an existing call error found with errors.As, "do not wrap
// twice") silently ignores the flag for that input - a nested call-shape error that the handler returned is reported as
// not function-reported, and what the handler wrapped around it is gone.
func (c *Ctx) ruleCtorFlag(rule string) {
	fn := c.fn(rule, "schema.NewFunctionCallError")
	if fn == nil {
		return
	}
	var flagP, errP *ssa.Parameter
	for _, p := range fn.Params {
		if bt, ok := p.Type().Underlying().(*types.Basic); ok && bt.Kind() == types.Bool {
			flagP = p
		}
		if core.IsErrorType(p.Type()) {
			errP = p
		}
	}
	k := key(rule, c.M.Key(fn), "every value handed out is made here from the error and the flag that were given")
	if flagP == nil || errP == nil || fn.Signature.Results().Len() != 1 {
		c.R.Unresolved(rule, "the constructor of the call error with an error and a flag parameter")
		return
	}
	bad := ""
	sites := core.RetSites(fn, 0)
	for _, site := range sites {
		v := core.Unwrap(site.Val)
		if mi, ok := v.(*ssa.MakeInterface); ok {
			v = mi.X
		}
		al, isAlloc := v.(*ssa.Alloc)
		if !isAlloc {
			if ld, isLoad := v.(*ssa.UnOp); isLoad {
				al, isAlloc = ld.X.(*ssa.Alloc)
			}
		}
		hasFlag, hasErr := false, false
		if isAlloc && al.Referrers() != nil {
			for _, r := range *al.Referrers() {
				fa, ok := r.(*ssa.FieldAddr)
				if !ok || fa.Referrers() == nil {
					continue
				}
				for _, r2 := range *fa.Referrers() {
					if st, ok := r2.(*ssa.Store); ok && st.Addr == ssa.Value(fa) {
						if st.Val == ssa.Value(flagP) {
							hasFlag = true
						}
						if core.Unwrap(st.Val) == ssa.Value(errP) {
							hasErr = true
						}
					}
				}
			}
		}
		if !(hasFlag && hasErr) && bad == "" {
			bad = c.M.InstrPos(site.Ret)
		}
	}
	if bad == "" && len(sites) > 0 {
		c.R.Ok(rule, k, c.M.Pos(fn.Pos()), "constructor of the call error", "every way out returns a record made here whose fields are stored from the error and the flag parameters")
	} else {
		c.R.Bad(rule, k, bad, "the constructor of the call error hands out something else than a record made from its arguments",
			"for that input the flag is ignored: Call reports a handler's error with the flag of whatever error was found inside it, and the error value is not the one the handler returned")
	}
}

// R-FIELDIFACE (C04 "no operation panics on a Go value"): reflect refuses to hand out, with Interface(), a value that was
// obtained from an unexported struct field ("cannot return value obtained from unexported field or method") - while
// String(), Int(), Uint() work on it. Properties are mapped to struct fields by name, exported or not, and no
// constructor refuses such a mapping. So wherever package schema calls Interface() on a value that it got out of a
// struct through reflection in the same function (FieldByIndex / FieldByIndexErr / FieldByName / Field, and what Elem,
// Convert, Index, Indirect make of it), CanInterface() was found true for a value of that chain on every way there,
// or the function recovers.
func (c *Ctx) ruleFieldIface(rule string) {
	n := 0
	// fieldSource: the values on the ways from v back to a field lookup (nil if no way leads to one)
	fieldSource := func(v ssa.Value) []ssa.Value {
		var chain []ssa.Value
		found := false
		seen := map[ssa.Value]bool{}
		var rec func(v ssa.Value, depth int)
		rec = func(v ssa.Value, depth int) {
			if v == nil || seen[v] || depth > 8 {
				return
			}
			seen[v] = true
			chain = append(chain, v)
			switch x := v.(type) {
			case *ssa.Extract:
				rec(x.Tuple, depth+1)
			case *ssa.Phi:
				for _, e := range x.Edges {
					rec(e, depth+1)
				}
			case *ssa.UnOp:
				// a local variable the value is kept in (its address is handed out, so it lives in a cell)
				if al, isAlloc := x.X.(*ssa.Alloc); isAlloc && x.Op == token.MUL && al.Referrers() != nil {
					chain = append(chain, al)
					for _, r := range *al.Referrers() {
						if st, isStore := r.(*ssa.Store); isStore && st.Addr == ssa.Value(al) {
							rec(st.Val, depth+1)
						}
					}
				}
			case *ssa.Call:
				switch reflectValueMethod(x) {
				case "FieldByIndexErr", "FieldByIndex", "FieldByName", "Field":
					// a field looked up under a constant, exported name (the schema types' own `MinValue`, `ItemsValue`)
					// can always be handed out
					if name, isConst := core.ConstString(x.Call.Args[len(x.Call.Args)-1]); isConst && name != "" && token.IsExported(name) {
						return
					}
					found = true
				case "Elem", "Convert", "Index", "Addr":
					rec(x.Call.Args[0], depth+1)
				}
				if core.StaticCalleeName(&x.Call) == "reflect.Indirect" && len(x.Call.Args) == 1 {
					rec(x.Call.Args[0], depth+1)
				}
			}
		}
		rec(v, 0)
		if !found {
			return nil
		}
		return chain
	}
	for _, fn := range c.M.SortedFuncs(c.scopePkg("schema")) {
		idx := 0
		for _, b := range fn.Blocks {
			for _, in := range b.Instrs {
				call, ok := in.(*ssa.Call)
				if !ok || reflectValueMethod(call) != "Interface" {
					continue
				}
				chain := fieldSource(call.Call.Args[0])
				if chain == nil {
					continue
				}
				idx++
				n++
				k := key(rule, c.M.Key(fn), sprintf("Interface() #%d on a value read out of a struct field: reflection may hand it out", idx))
				est := func(cond core.Cond) bool {
					cc, ok := cond.V.(*ssa.Call)
					if !ok || !cond.True || reflectValueMethod(cc) != "CanInterface" {
						return false
					}
					for _, v := range chain {
						if cc.Call.Args[0] == v {
							return true
						}
						if ld, isLoad := cc.Call.Args[0].(*ssa.UnOp); isLoad && ld.X == v {
							return true // another read of the cell the value is kept in
						}
					}
					return false
				}
				switch {
				case core.MustHold(fn, est)[b]:
					c.R.Ok(rule, k, c.M.InstrPos(call), "Interface() on a reflected struct field", "CanInterface() of the field value was found true on every way here")
				case isRecoverScope(fn):
					c.R.Ok(rule, k, c.M.InstrPos(call), "Interface() on a reflected struct field", "the function recovers")
				default:
					c.R.Bad(rule, k, c.M.InstrPos(call), "Interface() on a value that may come from an unexported struct field",
						"properties are mapped to struct fields by name, exported or not: for a property mapped to an unexported field reflect panics ('cannot return value obtained from unexported field or method') where the operation should return an error")
				}
			}
		}
	}
	if n == 0 {
		// nothing of that shape: the value may be handed to another function before Interface() is called on it (R-UNSETNIL's
		// CanInterface clause follows the presence function's results); no obligation of this rule then
		c.R.Info(rule, key(rule, "schema", "Interface() calls on values read out of a struct field in the same function"), "-", "none found", "not decided here")
	}
}
