package rules

import (
	"go/token"
	"go/types"
	"os"
	"sort"
	"strings"

	"golang.org/x/tools/go/ssa"

	"verifcheck/internal/core"
)

// R-REFLEX (C15 "every schema is compatible with itself and with a schema rebuilt from its own description").
//
// Whether a comparison accepts a self pair depends on values - which is why the clause as a whole is not decidable
// here. One class of rejection is decidable from the shape of the code: a rejection in schema mode whose path condition
// consists of nothing but
//
//   - flags: a bool field, or a getter that returns one, of a schema struct - of the consumer (the receiver, the entries
//     of its tables) or of the producer (anything else of the same type),
//   - conditions that hold for every self pair: the argument asserts to a schema type, a child comparison returned nil
//     (induction: the children of a self pair are self pairs), `x.M() == y.M()` for the same getter M on both sides, a
//     TypeID comparison that the receiver's own TypeID satisfies, the iteration conditions of loops.
//
// For a self pair the producer's flags are the consumer's. If the flag conditions of such a path do not contradict each
// other once the producer is read as the consumer, there is a schema - one with exactly those flags - that is refused as
// a producer for itself. Paths with any other condition are not decided (and not reported).
//
// The rule found its first instance in a repair: 33148b8 refused every producer whose property is required when the
// consumer's is disabled - also the schema itself, whose property is both.
func (c *Ctx) ruleReflex(rule string) {
	decided, undecided := 0, 0
	for _, fn := range c.compatFuncs() {
		ei := core.ErrorResultIndex(fn.Signature)
		if ei < 0 || len(fn.Params) == 0 || len(fn.Blocks) == 0 {
			continue
		}
		rx := &reflexFn{c: c, fn: fn, ei: ei}
		paths, overflow := rx.paths(fn, 4000)
		if overflow {
			c.R.Add(core.Obligation{Rule: rule, Key: key(rule, c.M.Key(fn), "paths to rejections"), Pos: c.M.Pos(fn.Pos()), Status: core.Info,
				What: "rejections of a self pair", How: "more than 4000 paths: not decided"})
			continue
		}
		type verdict struct {
			bad   bool
			flags string
			n     int
		}
		byReturn := map[*ssa.Return]*verdict{}
		var order []*ssa.Return
		for _, p := range paths {
			r := p.ret
			v := byReturn[r]
			if v == nil {
				v = &verdict{}
				byReturn[r] = v
				order = append(order, r)
			}
			flags, ok := rx.decide(p)
			if os.Getenv("VERIF_DEBUG") == "reflex" {
				println("REFLEX", c.M.Key(fn), c.M.InstrPos(r), len(p.atoms), flags, ok)
			}
			if !ok {
				undecided++
				continue
			}
			if flags == notARejection {
				continue
			}
			decided++
			v.n++
			if flags != "" && !v.bad {
				v.bad, v.flags = true, flags
			}
		}
		sort.Slice(order, func(i, j int) bool { return order[i].Pos() < order[j].Pos() })
		idx := 0
		for _, r := range order {
			v := byReturn[r]
			if v.n == 0 {
				continue
			}
			idx++
			k := key(rule, c.M.Key(fn), sprintf("rejection #%d decided by flags alone does not hit a self pair", idx))
			if v.bad {
				c.R.Bad(rule, k, c.M.InstrPos(r), "a schema can be refused as a producer for itself",
					"the path to this rejection asks nothing but flags, and they do not contradict each other when the producer is the consumer: a schema with "+v.flags+" is not compatible with itself, with an identical twin or with the schema rebuilt from its own description")
			} else {
				c.R.Ok(rule, k, c.M.InstrPos(r), "schema-mode rejection decided by flags of the two schemas", sprintf("%d path(s), each asks a flag of the producer for one value and the same flag of the consumer for the other", v.n))
			}
		}
	}
	c.R.Note("%s: %d flag-only paths to schema-mode rejections decided, %d paths with other conditions not decided", rule, decided, undecided)
	if decided == 0 {
		c.R.Unresolved(rule, "schema-mode rejections whose path condition consists of flags only")
	}
}

const notARejection = "-"

type reflexAtom struct {
	v     ssa.Value
	truth bool
	from  *ssa.BasicBlock // predecessor on the path (for phis)
}

type reflexPath struct {
	blocks []*ssa.BasicBlock
	atoms  []reflexAtom
	ret    *ssa.Return
	// helper: the rejection is the non-nil return of a helper called in the return statement
	helperAtoms []reflexAtom
	helperFn    *ssa.Function
	helperArg   ssa.Value
}

type reflexFn struct {
	c  *Ctx
	fn *ssa.Function
	ei int
}

// paths enumerates the acyclic paths (a loop header may be passed twice) from the entry of fn to its returns.
func (rx *reflexFn) paths(fn *ssa.Function, limit int) ([]*reflexPath, bool) {
	var out []*reflexPath
	overflow := false
	visits := map[*ssa.BasicBlock]int{}
	var blocks []*ssa.BasicBlock
	var atoms []reflexAtom
	var walk func(b *ssa.BasicBlock)
	walk = func(b *ssa.BasicBlock) {
		if overflow {
			return
		}
		max := 1
		if isLoopHeader(b) {
			max = 2
		}
		if visits[b] >= max {
			return
		}
		visits[b]++
		blocks = append(blocks, b)
		defer func() {
			visits[b]--
			blocks = blocks[:len(blocks)-1]
		}()
		last := b.Instrs[len(b.Instrs)-1]
		switch x := last.(type) {
		case *ssa.Return:
			if len(out) >= limit {
				overflow = true
				return
			}
			out = append(out, &reflexPath{blocks: append([]*ssa.BasicBlock{}, blocks...), atoms: append([]reflexAtom{}, atoms...), ret: x})
		case *ssa.If:
			var from *ssa.BasicBlock
			if len(blocks) >= 2 {
				from = blocks[len(blocks)-2]
			}
			for i, s := range b.Succs {
				atoms = append(atoms, reflexAtom{v: x.Cond, truth: i == 0, from: from})
				walk(s)
				atoms = atoms[:len(atoms)-1]
			}
		default:
			for _, s := range b.Succs {
				walk(s)
			}
		}
	}
	walk(fn.Blocks[0])
	return out, overflow
}

// predOn: the block the path was in before it entered b for the last time before position i.
func predOn(p []*ssa.BasicBlock, b *ssa.BasicBlock) *ssa.BasicBlock {
	for i := len(p) - 1; i > 0; i-- {
		if p[i] == b {
			return p[i-1]
		}
	}
	return nil
}

// decide: ("", true) - the path is decided and harmless (not a rejection of a self pair); (flags, true) - a self pair
// with these flags is refused; (_, false) - not decided.
func (rx *reflexFn) decide(p *reflexPath) (string, bool) {
	c, fn := rx.c, rx.fn
	e := core.RetVal(p.ret, rx.ei)
	flags := map[string]bool{}
	contradiction := false
	sawFlag := false
	schemaMode := false
	add := func(name string, truth bool) {
		sawFlag = true
		if old, ok := flags[name]; ok && old != truth {
			contradiction = true
		}
		flags[name] = truth
	}
	var evalAtoms func(atoms []reflexAtom, blocks []*ssa.BasicBlock, g *ssa.Function, selfOf func(ssa.Value) (string, bool)) bool
	// classify: the struct value the flag is read from -> type name; self / other does not matter once substituted
	flagOf := func(v ssa.Value, g *ssa.Function) (string, bool) {
		switch x := v.(type) {
		case *ssa.UnOp:
			if x.Op != token.MUL {
				return "", false
			}
			fa, ok := x.X.(*ssa.FieldAddr)
			if !ok {
				return "", false
			}
			if bt, ok := x.Type().Underlying().(*types.Basic); !ok || bt.Kind() != types.Bool {
				return "", false
			}
			tn := schemaStructName(fa.X.Type())
			if tn == "" {
				return "", false
			}
			return tn + "." + fieldName(fa.X.Type(), fa.Field), true
		case *ssa.Call:
			if bt, ok := x.Type().Underlying().(*types.Basic); !ok || bt.Kind() != types.Bool {
				return "", false
			}
			if x.Call.IsInvoke() {
				if len(x.Call.Args) != 0 {
					return "", false
				}
				// every implementation is a getter of the same field, or the method name stands for the flag
				name := ""
				for _, callee := range c.M.Callees(&x.Call) {
					f := getterField(callee)
					if f == "" || (name != "" && f != name) {
						return "iface." + x.Call.Method.Name(), true
					}
					name = f
				}
				if name == "" {
					return "iface." + x.Call.Method.Name(), true
				}
				return name, true
			}
			sc := x.Call.StaticCallee()
			if sc == nil || sc.Signature.Recv() == nil || len(x.Call.Args) != 1 {
				return "", false
			}
			if f := getterField(sc); f != "" {
				return f, true
			}
			// a method that forwards to the root object's getter (scope, reference): the method name
			if schemaStructName(sc.Params[0].Type()) != "" {
				return "iface." + sc.Name(), true
			}
		}
		return "", false
	}
	evalAtoms = func(atoms []reflexAtom, blocks []*ssa.BasicBlock, g *ssa.Function, _ func(ssa.Value) (string, bool)) bool {
		for _, a := range atoms {
			v, truth := a.v, a.truth
			for {
				if u, ok := v.(*ssa.UnOp); ok && u.Op == token.NOT {
					v, truth = u.X, !truth
					continue
				}
				if phi, ok := v.(*ssa.Phi); ok {
					pred := a.from
					if phi.Block() != nil {
						// the predecessor through which the path entered the phi's block
						pred = nil
						for i := len(blocks) - 1; i > 0; i-- {
							if blocks[i] == phi.Block() {
								pred = blocks[i-1]
								break
							}
						}
					}
					found := false
					for i, pb := range phi.Block().Preds {
						if pb == pred {
							v = phi.Edges[i]
							found = true
							break
						}
					}
					if !found {
						return false
					}
					continue
				}
				break
			}
			if k, ok := v.(*ssa.Const); ok {
				if bt, isB := k.Type().Underlying().(*types.Basic); isB && bt.Kind() == types.Bool {
					if (k.Value.String() == "true") != truth {
						return false // infeasible
					}
					continue
				}
				return false
			}
			if name, ok := flagOf(v, g); ok {
				add(name, truth)
				continue
			}
			switch x := v.(type) {
			case *ssa.Extract:
				switch t := x.Tuple.(type) {
				case *ssa.Next:
					continue // iteration
				case *ssa.TypeAssert:
					if x.Index != 1 {
						return false
					}
					isSchema := strings.Contains(t.AssertedType.String(), "pluginsdk/schema.")
					if isSchema && truth {
						schemaMode = true // the argument, or an element of it, is a schema
						continue
					}
					return false // data mode, or the producer is of another kind: no self pair comes here
				case *ssa.Call:
					// ok result of a conversion helper on the argument
					if x.Index == 1 && truth && len(c.M.Callees(&t.Call)) == 1 && strings.HasPrefix(c.M.Callees(&t.Call)[0].Name(), "ConvertTo") {
						schemaMode = true
						continue
					}
					return false
				case *ssa.Lookup:
					if x.Index == 1 && truth {
						continue // the key of a self pair is found in its own table
					}
					return false
				}
				return false
			case *ssa.BinOp:
				if y, neq, ok := core.NilCmp(x); ok {
					// an optional field of a schema struct, set or not: a flag like the others
					if ld, isLoad := core.Unwrap(y).(*ssa.UnOp); isLoad && ld.Op == token.MUL {
						if fa, isField := ld.X.(*ssa.FieldAddr); isField {
							if tn := schemaStructName(fa.X.Type()); tn != "" {
								add(tn+"."+fieldName(fa.X.Type(), fa.Field)+" set", neq == truth)
								continue
							}
						}
					}
					if _, isLookup := core.Unwrap(y).(*ssa.Lookup); isLookup {
						if neq == truth {
							continue // the counterpart of a self pair's entry is there
						}
						return false
					}
					// err ==/!= nil of a child comparison
					var call *ssa.Call
					switch yy := core.Unwrap(y).(type) {
					case *ssa.Call:
						call = yy
					case *ssa.Extract:
						call, _ = yy.Tuple.(*ssa.Call)
					}
					if call != nil && core.IsErrorType(y.Type()) {
						if name, _, _, isOp := c.opCall(&call.Call); isOp && name == "ValidateCompatibility" {
							if neq == truth {
								return false // a child of a self pair is a self pair: it does not fail (induction)
							}
							continue
						}
					}
					return false
				}
				if x.Op == token.EQL || x.Op == token.NEQ {
					// the same getter on both sides
					cx, okx := x.X.(*ssa.Call)
					cy, oky := x.Y.(*ssa.Call)
					if okx && oky && c.calledMethodName(cx) != "" && c.calledMethodName(cx) == c.calledMethodName(cy) {
						if (x.Op == token.EQL) != truth {
							return false // x.M() != x.M(): not for a self pair
						}
						continue
					}
					// TypeID of the producer against a constant: the receiver's own TypeID decides
					for _, pair := range [][2]ssa.Value{{x.X, x.Y}, {x.Y, x.X}} {
						call, ok := pair[0].(*ssa.Call)
						if !ok || c.calledMethodName(call) != "TypeID" {
							continue
						}
						k, isConst := core.ConstString(pair[1])
						if !isConst {
							continue
						}
						own := c.ownTypeIDs(fn)
						if len(own) == 0 {
							return false
						}
						holds := own[k] && len(own) == 1
						excluded := !own[k]
						switch {
						case holds && (x.Op == token.EQL) == truth:
							continue
						case excluded && (x.Op == token.EQL) != truth:
							continue
						default:
							return false
						}
					}
				}
				return false
			}
			return false
		}
		return true
	}
	if !evalAtoms(p.atoms, p.blocks, fn, nil) {
		return "", false
	}
	// what is returned
	rejecting := false
	switch {
	case errDefinitelyNonNil(e, p.ret.Block()):
		rejecting = true
	case core.IsNilConst(e):
		return notARejection, true
	default:
		call, ok := core.Unwrap(e).(*ssa.Call)
		if !ok {
			// an error variable: follow a phi along the path
			if phi, isPhi := e.(*ssa.Phi); isPhi {
				pred := predOn(p.blocks, phi.Block())
				for i, pb := range phi.Block().Preds {
					if pb == pred {
						if core.IsNilConst(phi.Edges[i]) {
							return notARejection, true
						}
					}
				}
			}
			return "", false
		}
		if name, _, _, isOp := c.opCall(&call.Call); isOp && name == "ValidateCompatibility" {
			return notARejection, true // the child's verdict: nil for a self pair (induction)
		}
		h := call.Call.StaticCallee()
		if h == nil || len(h.Blocks) == 0 || core.ErrorResultIndex(h.Signature) != 0 || h.Signature.Results().Len() != 1 {
			return "", false
		}
		if strings.Contains(strings.ToLower(h.Name()), "compatib") {
			return "", false // a same-receiver stage of the comparison: decided where it rejects
		}
		// a helper that builds the verdict: every one of its paths that rejects, with this path's flags
		hx := &reflexFn{c: c, fn: h, ei: 0}
		hpaths, overflow := hx.paths(h, 500)
		if overflow {
			return "", false
		}
		anyBad, helperRejects := "", false
		for _, hp := range hpaths {
			he := core.RetVal(hp.ret, 0)
			if !errDefinitelyNonNil(he, hp.ret.Block()) {
				if core.IsNilConst(he) {
					continue
				}
				return "", false
			}
			helperRejects = true
			saved := map[string]bool{}
			for k, v := range flags {
				saved[k] = v
			}
			savedC, savedS := contradiction, sawFlag
			ok := evalAtoms(hp.atoms, hp.blocks, h, nil)
			bad := ok && !contradiction && sawFlag
			desc := describeFlags(flags)
			flags, contradiction, sawFlag = saved, savedC, savedS
			if !ok {
				return "", false
			}
			if bad && schemaMode {
				anyBad = desc
			}
		}
		if !schemaMode {
			return "", false
		}
		if anyBad == "" && !helperRejects {
			return notARejection, true
		}
		return anyBad, true
	}
	if !rejecting || !schemaMode || !sawFlag {
		return "", false // no rejection in schema mode, or one that asks no flag: not a matter of flags
	}
	if contradiction {
		return "", true
	}
	return describeFlags(flags), true
}

func describeFlags(flags map[string]bool) string {
	var names []string
	for k := range flags {
		names = append(names, k)
	}
	sort.Strings(names)
	var parts []string
	for _, k := range names {
		if flags[k] {
			parts = append(parts, k+" = true")
		} else {
			parts = append(parts, k+" = false")
		}
	}
	return strings.Join(parts, " and ")
}

// schemaStructName: the name of the schema struct type t points to (or is), "" if it is none.
func schemaStructName(t types.Type) string {
	if p, ok := t.Underlying().(*types.Pointer); ok {
		t = p.Elem()
	}
	n, ok := t.(*types.Named)
	if !ok || n.Obj().Pkg() == nil || !strings.HasSuffix(n.Obj().Pkg().Path(), "/schema") {
		return ""
	}
	if _, isStruct := n.Underlying().(*types.Struct); !isStruct {
		return ""
	}
	return n.Obj().Name()
}

// getterField: fn is `func (r T) M() bool { return r.F }` -> "T.F".
func getterField(fn *ssa.Function) string {
	if fn == nil || len(fn.Blocks) != 1 || len(fn.Params) != 1 {
		return ""
	}
	rets := core.ReturnsOf(fn)
	if len(rets) != 1 || len(rets[0].Results) != 1 {
		return ""
	}
	switch x := rets[0].Results[0].(type) {
	case *ssa.UnOp:
		if fa, ok := x.X.(*ssa.FieldAddr); ok && fa.X == ssa.Value(fn.Params[0]) {
			if tn := schemaStructName(fa.X.Type()); tn != "" {
				return tn + "." + fieldName(fa.X.Type(), fa.Field)
			}
		}
	case *ssa.Field:
		if x.X == ssa.Value(fn.Params[0]) {
			if tn := schemaStructName(x.X.Type()); tn != "" {
				if st, ok := x.X.Type().Underlying().(*types.Struct); ok {
					return tn + "." + st.Field(x.Field).Name()
				}
			}
		}
	}
	return ""
}

// ownTypeIDs: the constants the TypeID method of fn's receiver type returns.
func (c *Ctx) ownTypeIDs(fn *ssa.Function) map[string]bool {
	out := map[string]bool{}
	if fn.Signature.Recv() == nil {
		return out
	}
	t := fn.Signature.Recv().Type()
	if p, ok := t.(*types.Pointer); ok {
		t = p.Elem()
	}
	named, ok := t.(*types.Named)
	if !ok {
		return out
	}
	tf := c.methodFn(named, "TypeID")
	if tf == nil || len(tf.Blocks) == 0 {
		return out
	}
	for _, r := range core.ReturnsOf(tf) {
		if len(r.Results) != 1 {
			return map[string]bool{}
		}
		k, isConst := core.ConstString(r.Results[0])
		if !isConst {
			return map[string]bool{}
		}
		out[k] = true
	}
	return out
}
