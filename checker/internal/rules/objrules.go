package rules

import (
	"go/token"
	"go/types"
	"strings"

	"golang.org/x/tools/go/ssa"

	"verifcheck/internal/core"
)

// Rules for object presence rules, defaults and one-of dispatch (C03), and for round-trip structure (C01).

// mustPassAll: every return of fn whose error may be nil is preceded on every path by an instruction satisfying gen.
func (c *Ctx) mustPassAll(fn *ssa.Function, gen func(ssa.Instruction) bool) (bool, *ssa.Return) {
	nb := len(fn.Blocks)
	inS := make([]bool, nb)
	outS := make([]bool, nb)
	for i := range inS {
		inS[i], outS[i] = true, true
	}
	for iter, changed := 0, true; changed && iter < 50; iter++ {
		changed = false
		for _, b := range fn.Blocks {
			st := b.Index != 0 && len(b.Preds) > 0
			for _, p := range b.Preds {
				st = st && outS[p.Index]
			}
			if st != inS[b.Index] {
				inS[b.Index] = st
				changed = true
			}
			o := st
			for _, in := range b.Instrs {
				if !o && gen(in) {
					o = true
				}
			}
			if o != outS[b.Index] {
				outS[b.Index] = o
				changed = true
			}
		}
	}
	ei := core.ErrorResultIndex(fn.Signature)
	for _, r := range core.ReturnsOf(fn) {
		if ei >= 0 && c.M.RetNonNil(r, ei) {
			continue
		}
		st := inS[r.Block().Index]
		for _, in := range r.Before() {
			if !st && gen(in) {
				st = true
			}
		}
		if !st && ei >= 0 {
			if call, ok := core.RetVal(r, ei).(*ssa.Call); ok && gen(call) {
				st = true
			}
			if e, ok := core.RetVal(r, ei).(*ssa.Extract); ok {
				if call, ok := e.Tuple.(*ssa.Call); ok && gen(call) {
					st = true
				}
			}
		}
		if !st {
			return false, r.Return
		}
	}
	return true, nil
}

func (c *Ctx) callsFn(in ssa.Instruction, keys ...string) bool {
	call, ok := in.(*ssa.Call)
	if !ok {
		return false
	}
	for _, callee := range c.M.Callees(&call.Call) {
		for _, k := range keys {
			if c.M.Key(callee) == k || callee == c.lookupFn(k) {
				return true
			}
		}
	}
	return false
}

// mustCallTransitive: gen satisfied by a direct call of target, or a call of a repo function (same package) all of
// whose accepting returns are themselves preceded by such a call.
func (c *Ctx) mustReach(fn *ssa.Function, target string, memo map[*ssa.Function]int, depth int) bool {
	switch memo[fn] {
	case 1:
		return true
	case 2:
		return false
	case 3:
		return false
	}
	if depth > 6 {
		return false
	}
	memo[fn] = 3
	ok, _ := c.mustPassAll(fn, func(in ssa.Instruction) bool {
		if c.callsFn(in, target) {
			return true
		}
		if call, isCall := in.(*ssa.Call); isCall && !call.Call.IsInvoke() {
			cs := c.M.Callees(&call.Call)
			if len(cs) == 1 && cs[0] != fn && strings.HasPrefix(c.M.Key(cs[0]), "schema.ObjectSchema.") {
				return c.mustReach(cs[0], target, memo, depth+1)
			}
		}
		return false
	})
	if ok {
		memo[fn] = 1
	} else {
		memo[fn] = 2
	}
	return ok
}

func (c *Ctx) ruleObjectRules(rule string) {
	const inter = "schema.ObjectSchema.validateFieldInterdependencies"
	// 1. presence rules are evaluated on every accepting path of the three operations (map-based and struct-mapped)
	for _, op := range []string{"Unserialize", "Validate", "Serialize"} {
		fn := c.fn(rule, "schema.ObjectSchema."+op)
		if fn == nil {
			continue
		}
		k := key(rule, "schema.ObjectSchema."+op, "presence rules evaluated on every accepting path")
		if c.mustReach(fn, inter, map[*ssa.Function]int{}, 0) {
			c.R.Ok(rule, k, c.M.Pos(fn.Pos()), "required / required_if / required_if_not / conflicts enforcement", "every accepting return is preceded by validateFieldInterdependencies (directly or in the map / struct branch helper)")
		} else {
			c.R.Bad(rule, k, c.M.Pos(fn.Pos()), "ObjectSchema."+op+" can accept without evaluating the presence rules",
				"a path returns success without calling validateFieldInterdependencies: required, required_if, required_if_not and conflicts are not enforced on this operation / representation")
		}
	}
	// 2. polarity of the set / unset dispatch
	if fn := c.fn(rule, inter); fn != nil {
		for _, spec := range []struct {
			callee string
			set    bool
		}{{"schema.ObjectSchema.validatePropertyInterdependenciesIfSet", true}, {"schema.ObjectSchema.validatePropertyInterdependenciesIfUnset", false}} {
			k := key(rule, inter, "rules for "+map[bool]string{true: "set", false: "unset"}[spec.set]+" properties run on that branch")
			found, okPol := false, false
			for _, b := range fn.Blocks {
				for _, in := range b.Instrs {
					if !c.callsFn(in, spec.callee) {
						continue
					}
					found = true
					for _, cond := range core.CondsAt(b) {
						if t, ok := core.CommaOk(cond.V); ok {
							if lk, ok := t.(*ssa.Lookup); ok && dataMapParam(fn) != nil && lk.X == ssa.Value(dataMapParam(fn)) && cond.True == spec.set {
								okPol = true
							}
						}
					}
				}
			}
			switch {
			case !found:
				c.R.Bad(rule, k, c.M.Pos(fn.Pos()), "presence rules for this branch are never evaluated", "")
			case okPol:
				c.R.Ok(rule, k, c.M.Pos(fn.Pos()), "set/unset dispatch", "called exactly where the comma-ok lookup of the property in the data says so")
			default:
				c.R.Bad(rule, k, c.M.Pos(fn.Pos()), "set and unset rule evaluators are swapped or unguarded", "required would be tested on supplied properties and conflicts on absent ones")
			}
		}
	}
	// 3. rejects of the unset / set evaluators have the right controlling condition
	c.checkRuleRejects(rule)
	// 4./5. undeclared and non-string keys are rejected wherever raw keys are walked
	for _, fk := range []string{"schema.ObjectSchema.convertData", "schema.ObjectSchema.serializeMap", "schema.ObjectSchema.validateMap", "schema.ObjectSchema.validateMapTypesCompatibility"} {
		fn := c.fn(rule, fk)
		if fn == nil {
			continue
		}
		k := key(rule, fk, "undeclared keys rejected")
		ok := false
		// the function, or a phase of it: a method of the same receiver that it calls and whose error it hands on
		for _, g := range c.phasesOf(fn) {
			for _, b := range g.Blocks {
				for _, in := range b.Instrs {
					lk, isLk := in.(*ssa.Lookup)
					if !isLk || !lk.CommaOk || !strings.HasSuffix(c.M.ValPath(lk.X), ".PropertiesValue") || !blockInLoop(b) {
						continue
					}
					// the not-found edge rejects
					for _, r := range *lk.Referrers() {
						e, isE := r.(*ssa.Extract)
						if !isE || e.Index != 1 {
							continue
						}
						if c.falseRejects(g, e) {
							ok = true
						}
					}
				}
			}
		}
		if ok {
			c.R.Ok(rule, k, c.M.Pos(fn.Pos()), "key check", "inside the loop over the supplied keys a failed comma-ok lookup in the property table returns an error")
		} else {
			c.R.Bad(rule, k, c.M.Pos(fn.Pos()), "supplied keys are not checked against the declared properties", "an object with an undeclared key is accepted (and the key silently dropped or passed on)")
		}
	}
	if fn := c.fn(rule, "schema.ObjectSchema.convertData"); fn != nil {
		k := key(rule, "schema.ObjectSchema.convertData", "non-string keys rejected")
		ok := false
		for _, g := range c.phasesOf(fn) {
			for _, b := range g.Blocks {
				for _, in := range b.Instrs {
					ta, isTA := in.(*ssa.TypeAssert)
					if !isTA || !ta.CommaOk || typeStr(ta.AssertedType) != "string" || !blockInLoop(b) {
						continue
					}
					for _, r := range *ta.Referrers() {
						if e, isE := r.(*ssa.Extract); isE && e.Index == 1 && c.falseRejects(g, e) {
							ok = true
						}
					}
				}
			}
		}
		if ok {
			c.R.Ok(rule, k, c.M.Pos(fn.Pos()), "key type check", "a key that is not a string returns an error")
		} else {
			c.R.Bad(rule, k, c.M.Pos(fn.Pos()), "non-string keys are not rejected", "")
		}
		// 6. defaults only for absent keys
		c.checkDefaultStores(rule)
	}
	// 7. disabled
	if fn := c.fn(rule, "schema.PropertySchema.Unserialize"); fn != nil {
		k := key(rule, "schema.PropertySchema.Unserialize", "a disabled property is never unserialized")
		ok, n := true, 0
		ei := core.ErrorResultIndex(fn.Signature)
		for _, r := range core.ReturnsOf(fn) {
			if c.M.RetNonNil(r, ei) {
				continue
			}
			n++
			guarded := false
			for _, cond := range r.Conds() {
				if strings.HasSuffix(c.M.ValPath(cond.V), ".Disabled") && !cond.True {
					guarded = true
				}
			}
			if !guarded {
				ok = false
			}
		}
		if ok && n > 0 {
			c.R.Ok(rule, k, c.M.Pos(fn.Pos()), "disabled refusal", "every accepting return is dominated by Disabled == false")
		} else {
			c.R.Bad(rule, k, c.M.Pos(fn.Pos()), "a disabled property can be unserialized", "")
		}
	}
	// the object code must go through the property, never straight to the property's inner type
	n := 0
	for _, fn := range c.M.Funcs {
		if !strings.HasPrefix(c.M.Key(fn), "schema.ObjectSchema.") {
			continue
		}
		for _, b := range fn.Blocks {
			for _, in := range b.Instrs {
				call, ok := in.(*ssa.Call)
				if !ok || c.calledMethodName(call) != "Unserialize" {
					continue
				}
				recv := call.Call.Value
				if !call.Call.IsInvoke() && len(call.Call.Args) > 0 {
					recv = call.Call.Args[0]
				}
				n++
				if tr, _ := c.fieldTrail(recv, 0); strings.HasSuffix(tr, "TypeValue") {
					k := key(rule, c.M.Key(fn), "property unserialized through its inner type")
					c.R.Bad(rule, k, c.M.InstrPos(call), "the object unserializes a property value through the property's inner type", "PropertySchema.Unserialize is bypassed, and with it the refusal of disabled properties")
				}
			}
		}
	}
	if n > 0 {
		c.R.Ok(rule, key(rule, "schema.ObjectSchema", "property values are unserialized through PropertySchema.Unserialize"), "-", "disabled refusal cannot be bypassed", sprintf("%d Unserialize calls in ObjectSchema methods examined", n))
	}
	c.R.Floor(rule, 14)
}

// checkRuleRejects: in the unset evaluator a reject is controlled by Required() being true, by some required_if
// property being set, or by no required_if_not property being set; in the set evaluator by a conflicting property being set.
func (c *Ctx) checkRuleRejects(rule string) {
	for _, spec := range []struct {
		fn      string
		getter  string
		wantSet bool
		desc    string
	}{
		{"schema.ObjectSchema.validatePropertyInterdependenciesIfUnset", "RequiredIf", true, "required_if rejects when a listed property is set"},
		{"schema.ObjectSchema.validatePropertyInterdependenciesIfSet", "Conflicts", true, "conflicts rejects when a listed property is set"},
	} {
		fn := c.fn(rule, spec.fn)
		if fn == nil {
			continue
		}
		k := key(rule, spec.fn, spec.desc)
		ok, n := false, 0
		ei := core.ErrorResultIndex(fn.Signature)
		for _, r := range core.ReturnsOf(fn) {
			if !c.M.RetNonNil(r, ei) {
				continue
			}
			// inside a loop over property.<getter>() with the data lookup of the loop element true?
			for _, cond := range r.Conds() {
				t, isOk := core.CommaOk(cond.V)
				if !isOk {
					continue
				}
				lk, isLk := t.(*ssa.Lookup)
				if !isLk || !isDataMapOf(fn, viaArg(cond, lk.X)) {
					continue
				}
				if c.elementOfGetterVia(cond, lk.Index, spec.getter) {
					n++
					if cond.True == spec.wantSet {
						ok = true
					} else {
						ok = false
					}
				}
			}
		}
		if ok && n > 0 {
			c.R.Ok(rule, k, c.M.Pos(fn.Pos()), "presence rule polarity", "the reject is controlled by the listed property being present in the data")
		} else {
			c.R.Bad(rule, k, c.M.Pos(fn.Pos()), "presence rule with inverted or missing condition: "+spec.desc, "")
		}
	}
	if fn := c.fn(rule, "schema.ObjectSchema.validatePropertyInterdependenciesIfUnset"); fn != nil {
		// required
		k := key(rule, c.M.Key(fn), "required rejects an absent property")
		ok := false
		ei := core.ErrorResultIndex(fn.Signature)
		for _, r := range core.ReturnsOf(fn) {
			if !c.M.RetNonNil(r, ei) {
				continue
			}
			conds := r.Conds()
			if len(conds) > 0 {
				if call, isCall := conds[0].V.(*ssa.Call); isCall && c.calledMethodName(call) == "Required" && conds[0].True {
					ok = true
				}
			}
		}
		if ok {
			c.R.Ok(rule, k, c.M.Pos(fn.Pos()), "required", "reject controlled by Required() == true on the unset branch")
		} else {
			c.R.Bad(rule, k, c.M.Pos(fn.Pos()), "required is not enforced for absent properties", "")
		}
		// required_if_not: rejects only when no listed property is set: the found flag is set under `set == true` and the reject under flag == false
		k2 := key(rule, c.M.Key(fn), "required_if_not rejects only when none of the listed properties is set")
		// Stated over paths, so that a found-flag, an early return or a helper all do: from the "is set" outcome of a
		// lookup of a listed property no rejecting return can be reached (on a path that agrees with the flags it sets),
		// and from the "is not set" outcome of one of them a rejecting return can.
		flagOK := false
		isReject := func(b *ssa.BasicBlock) bool {
			if len(b.Instrs) == 0 {
				return false
			}
			r, isRet := b.Instrs[len(b.Instrs)-1].(*ssa.Return)
			return isRet && c.M.ProvablyNonNilError(core.RetVal(r, ei), b)
		}
		lookups, setRejects, unsetRejects := 0, 0, 0
		for _, b := range fn.Blocks {
			if len(b.Instrs) == 0 {
				continue
			}
			ifi, isIf := b.Instrs[len(b.Instrs)-1].(*ssa.If)
			if !isIf || b.Succs[0] == b.Succs[1] {
				continue
			}
			for _, cond := range edgeCond(b, b.Succs[0]) {
				t, isOk := core.CommaOk(cond.V)
				if !isOk {
					continue
				}
				lk, isLk := t.(*ssa.Lookup)
				if !isLk || !isDataMapOf(fn, viaArg(cond, lk.X)) || !c.elementOfGetterVia(cond, lk.Index, "RequiredIfNot") {
					continue
				}
				_ = ifi
				lookups++
				setSucc, unsetSucc := b.Succs[0], b.Succs[1]
				if !cond.True {
					setSucc, unsetSucc = unsetSucc, setSucc
				}
				if core.FlagReach(b, setSucc, isReject) {
					setRejects++
				}
				if core.FlagReach(b, unsetSucc, isReject) {
					unsetRejects++
				}
				break
			}
		}
		flagOK = lookups > 0 && setRejects == 0 && unsetRejects > 0
		if flagOK {
			c.R.Ok(rule, k2, c.M.Pos(fn.Pos()), "required_if_not", "no rejecting return can be reached from the 'is set' outcome of a lookup of a listed property (on a path that agrees with the flags it sets); one can from the 'is not set' outcome")
		} else {
			c.R.Bad(rule, k2, c.M.Pos(fn.Pos()), "required_if_not with inverted or missing condition", "")
		}
	}
}

// viaArg: a value of the function whose outcome implies the condition stands, if it is a parameter of that function,
// for the argument of the call (the caller's value); otherwise it is returned as it is.
func viaArg(cond core.Cond, v ssa.Value) ssa.Value {
	prm, ok := v.(*ssa.Parameter)
	if !ok || cond.Via == nil {
		return v
	}
	callee := core.StaticBody(&cond.Via.Call)
	if callee == nil || prm.Parent() != callee {
		return v
	}
	for i, q := range callee.Params {
		if q == prm && i < len(cond.Via.Call.Args) {
			return cond.Via.Call.Args[i]
		}
	}
	return v
}

// isDataMapOf: v is the map of supplied fields that fn evaluates - its parameter of type map[string]any, or a field of
// that type read out of a struct parameter (the particulars of a property handed over in a record).
func isDataMapOf(fn *ssa.Function, v ssa.Value) bool {
	if p := dataMapParam(fn); p != nil && v == ssa.Value(p) {
		return true
	}
	if t := typeStr(v.Type()); t != "map[string]any" && t != "map[string]interface{}" {
		return false
	}
	isParamStruct := func(x ssa.Value) bool {
		for i := 0; i < 3; i++ {
			switch y := x.(type) {
			case *ssa.Parameter:
				return y.Parent() == fn
			case *ssa.UnOp:
				x = y.X
			case *ssa.Alloc:
				// the local copy of a by-value struct parameter
				if y.Referrers() != nil {
					for _, r := range *y.Referrers() {
						if st, ok := r.(*ssa.Store); ok && st.Addr == ssa.Value(y) {
							if prm, ok := st.Val.(*ssa.Parameter); ok && prm.Parent() == fn {
								return true
							}
						}
					}
				}
				return false
			default:
				return false
			}
		}
		return false
	}
	switch x := v.(type) {
	case *ssa.Field:
		return isParamStruct(x.X)
	case *ssa.UnOp:
		if fa, ok := x.X.(*ssa.FieldAddr); ok {
			return isParamStruct(fa.X)
		}
	}
	return false
}

// elementOfGetterVia: like elementOfGetter, for a lookup made inside a helper whose outcome implies the condition: the
// index is an element of a slice parameter of the helper, and the call hands it the result of property.<getter>().
func (c *Ctx) elementOfGetterVia(cond core.Cond, v ssa.Value, getter string) bool {
	if c.elementOfGetter(v, getter) {
		return true
	}
	if cond.Via == nil {
		return false
	}
	var slice ssa.Value
	switch x := v.(type) {
	case *ssa.UnOp:
		if ia, ok := x.X.(*ssa.IndexAddr); ok {
			slice = ia.X
		}
	case *ssa.Extract:
		if nx, ok := x.Tuple.(*ssa.Next); ok {
			if rg, ok := nx.Iter.(*ssa.Range); ok {
				slice = rg.X
			}
		}
	}
	if slice == nil {
		return false
	}
	arg := viaArg(cond, slice)
	call, ok := arg.(*ssa.Call)
	return ok && c.calledMethodName(call) == getter
}

// elementOfGetter: v is the range element of a slice returned by property.<getter>().
func (c *Ctx) elementOfGetter(v ssa.Value, getter string) bool {
	ld, ok := v.(*ssa.UnOp)
	if !ok {
		return false
	}
	ia, ok := ld.X.(*ssa.IndexAddr)
	if !ok {
		return false
	}
	call, ok := ia.X.(*ssa.Call)
	return ok && c.calledMethodName(call) == getter
}

// checkDefaultStores: a value that derives from GetDefaults() is stored into a working map only under a failed
// comma-ok lookup of the same key in the same map.
func (c *Ctx) checkDefaultStores(rule string) {
	for _, fn := range c.M.Funcs {
		if !strings.HasPrefix(c.M.Key(fn), "schema.ObjectSchema.") {
			continue
		}
		idx := 0
		for _, b := range fn.Blocks {
			for _, in := range b.Instrs {
				mu, ok := in.(*ssa.MapUpdate)
				if !ok || !c.fromDefaults(mu.Value, 0) {
					continue
				}
				idx++
				k := key(rule, c.M.Key(fn), sprintf("default store #%d only for an absent key", idx))
				guarded := false
				for _, cond := range core.CondsAt(b) {
					if t, isOk := core.CommaOk(cond.V); isOk && !cond.True {
						if lk, isLk := t.(*ssa.Lookup); isLk && c.M.ValPath(lk.X) == c.M.ValPath(mu.Map) && (lk.Index == mu.Key || c.M.ValPath(lk.Index) == c.M.ValPath(mu.Key)) {
							guarded = true
						}
					}
				}
				// a scratch map made here that only ever receives defaults holds no supplied value to overwrite (the value
				// that is worked out in it is an obligation again where it is stored into the working map)
				scratch := false
				if mk, isMake := mu.Map.(*ssa.MakeMap); isMake && mk.Referrers() != nil {
					scratch = true
					for _, ref := range *mk.Referrers() {
						if other, isUpdate := ref.(*ssa.MapUpdate); isUpdate && other.Map == ssa.Value(mk) && !c.fromDefaults(other.Value, 0) {
							scratch = false
						}
					}
				}
				if guarded {
					c.R.Ok(rule, k, c.M.InstrPos(mu), "default applied", "dominated by a failed lookup of the same key in the same map: a supplied value is never overridden")
					// ... and only for a property that may be used: the property's own operations refuse a disabled property
					// whatever its value (R-DISABLED), so a value that is put in for an unset disabled property makes the
					// object refuse every input that leaves it out - the input did not use it.
					k2 := key(rule, c.M.Key(fn), sprintf("default store #%d not for a disabled property", idx))
					enabled := core.MustHold(fn, func(cond core.Cond) bool {
						ld, isLoad := cond.V.(*ssa.UnOp)
						if !isLoad || ld.Op != token.MUL || cond.True {
							return false
						}
						fa, isField := ld.X.(*ssa.FieldAddr)
						if !isField || fieldName(fa.X.Type(), fa.Field) != "Disabled" || !isNamedPtr(fa.X.Type(), "PropertySchema") ||
							strings.HasPrefix(c.M.CondPath(fn, cond, fa.X), "%foreign") {
							return false
						}
						// ... and the property that was tested is the one the key names (round 17, C17-CA)
						switch {
						case cond.Entry:
							// tested by the callers: about the key only where the callers choose the key too
							_, keyIsParam := mu.Key.(*ssa.Parameter)
							return keyIsParam
						case cond.Via != nil:
							prm, isParam := fa.X.(*ssa.Parameter)
							callee := cond.Via.Call.StaticCallee()
							if !isParam || callee == nil {
								return true // deeper than one helper: not resolved, accepted as before
							}
							for i, cp := range callee.Params {
								if cp == prm && i < len(cond.Via.Call.Args) {
									return c.propertyOfKey(cond.Via.Call.Args[i], mu.Key, 0)
								}
							}
							return true
						}
						return c.propertyOfKey(fa.X, mu.Key, 0)
					})
					if enabled[b] {
						c.R.Ok(rule, k2, c.M.InstrPos(mu), "default applied to a property in use", "reached only with the property's Disabled flag known to be false (tested here, or implied by the outcome of the helper that works the value out)")
					} else {
						c.R.Bad(rule, k2, c.M.InstrPos(mu), "a disabled property that the input leaves out is given a value",
							"the store of the stand-in value is not reached only with Disabled == false: the property's Unserialize refuses a disabled property, so every input that leaves the property out is refused as using it")
					}
				} else if scratch {
					c.R.Ok(rule, k, c.M.InstrPos(mu), "default worked out", "stored into a map made in this function that receives nothing but defaults: there is no supplied value in it")
				} else {
					c.R.Bad(rule, k, c.M.InstrPos(mu), "a default can overwrite a supplied value", "the store of a default into the working map is not guarded by the key's absence")
				}
			}
		}
	}
}

// propertyOfKey (round 17, C17-CA): the property p whose Disabled flag was tested is the one the stored key names -
// the value of a range over a table whose key is the stored key, or a lookup under that key. A test of some other
// property's flag (the parent property the function was called for) says nothing about the key that is filled in.
func (c *Ctx) propertyOfKey(p, k ssa.Value, depth int) bool {
	if depth > 4 {
		return false
	}
	sameKey := func(idx ssa.Value) bool {
		return idx == k || (c.M.ValPath(idx) != "" && c.M.ValPath(idx) == c.M.ValPath(k))
	}
	switch x := p.(type) {
	case *ssa.Lookup:
		return sameKey(x.Index)
	case *ssa.Extract:
		switch t := x.Tuple.(type) {
		case *ssa.Lookup:
			return sameKey(t.Index)
		case *ssa.Next:
			if x.Index != 2 || t.Referrers() == nil {
				return false
			}
			for _, ref := range *t.Referrers() {
				if e, ok := ref.(*ssa.Extract); ok && e.Index == 1 && sameKey(e) {
					return true
				}
			}
		}
	case *ssa.Phi:
		if len(x.Edges) == 0 {
			return false
		}
		for _, e := range x.Edges {
			if !c.propertyOfKey(e, k, depth+1) {
				return false
			}
		}
		return true
	case *ssa.ChangeType:
		return c.propertyOfKey(x.X, k, depth+1)
	}
	return false
}

func (c *Ctx) fromDefaults(v ssa.Value, depth int) bool {
	if depth > 6 || v == nil {
		return false
	}
	switch x := v.(type) {
	case *ssa.Call:
		if c.calledMethodName(x) == "GetDefaults" {
			return true
		}
		// a method of the object that works the value out of the defaults (what an unset property gets in its place)
		if helper := core.StaticBody(&x.Call); helper != nil && depth < 3 && strings.HasPrefix(c.M.Key(helper), "schema.ObjectSchema.") {
			for _, r := range core.ReturnsOf(helper) {
				for i := range r.Results {
					if c.fromDefaults(core.RetVal(r, i), depth+2) {
						return true
					}
				}
			}
			// ... or through a scratch map it fills from them
			for _, hb := range helper.Blocks {
				for _, hin := range hb.Instrs {
					if hmu, isUpdate := hin.(*ssa.MapUpdate); isUpdate && c.fromDefaults(hmu.Value, depth+2) {
						if _, isMake := hmu.Map.(*ssa.MakeMap); isMake {
							return true
						}
					}
				}
			}
		}
		return false
	case *ssa.Lookup:
		return c.fromDefaults(x.X, depth+1)
	case *ssa.Extract:
		switch t := x.Tuple.(type) {
		case *ssa.Lookup:
			return c.fromDefaults(t.X, depth+1)
		case *ssa.Next:
			if rg, ok := t.Iter.(*ssa.Range); ok {
				return c.fromDefaults(rg.X, depth+1)
			}
		case *ssa.Call:
			return c.fromDefaults(t, depth+1)
		}
	case *ssa.Phi:
		for _, e := range x.Edges {
			if c.fromDefaults(e, depth+1) {
				return true
			}
		}
	}
	return false
}

// ruleOneOfSymm (R-SYMM): the member receives the data minus the discriminator on all operations, the strip is a
// copy and conditional on the inlining flag, the discriminator is re-attached on results, and the member's verdict
// decides (no accepting path without the member operation).
func (c *Ctx) ruleOneOfSymm(rule string) {
	memberOps := map[string]string{
		"schema.OneOfSchema.UnserializeType": "Unserialize",
		"schema.OneOfSchema.ValidateType":    "Validate",
		"schema.OneOfSchema.SerializeType":   "Serialize",
		"schema.OneOfSchema.validateMap":     "ValidateCompatibility",
	}
	for fk, op := range memberOps {
		fn := c.fn(rule, fk)
		if fn == nil {
			continue
		}
		var mcall *ssa.Call
		for _, b := range fn.Blocks {
			for _, in := range b.Instrs {
				if call, ok := in.(*ssa.Call); ok && call.Call.IsInvoke() && call.Call.Method.Name() == op && strings.HasSuffix(typeStr(call.Call.Value.Type()), "Object") {
					mcall = call
				}
			}
		}
		k := key(rule, fk, "member "+op+" decides and receives the stripped data")
		if mcall == nil {
			c.R.Bad(rule, k, c.M.Pos(fn.Pos()), "the selected member's "+op+" is never called", "the one-of accepts without asking the member")
			continue
		}
		ok, _ := c.mustPassAll(fn, func(in ssa.Instruction) bool { return in == ssa.Instruction(mcall) })
		if !ok {
			c.R.Bad(rule, k, c.M.InstrPos(mcall), "an accepting path skips the selected member's "+op,
				"values the member would reject (presence rules, bounds) are accepted by the one-of on this operation")
			continue
		}
		// data argument passes through the strip helper for map data
		arg := mcall.Call.Args[len(mcall.Call.Args)-1]
		if c.throughStrip(arg, 0) {
			c.R.Ok(rule, k, c.M.InstrPos(mcall), "one-of member call", "on every accepting path; map data passes through deleteDiscriminator first")
		} else {
			c.R.Bad(rule, k, c.M.InstrPos(mcall), "the member receives data that did not pass the discriminator strip", "a non-inlined discriminator reaches the member as an undeclared key (reject), or the operations disagree")
		}
	}
	if fn := c.fn(rule, "schema.OneOfSchema.deleteDiscriminator"); fn != nil {
		k := key(rule, c.M.Key(fn), "strip works on a copy and only when the discriminator is not inlined")
		ok := false
		for _, b := range fn.Blocks {
			for _, in := range b.Instrs {
				ci, isCall := in.(ssa.CallInstruction)
				if !isCall {
					continue
				}
				bi, isB := ci.Common().Value.(*ssa.Builtin)
				if !isB || bi.Name() != "delete" {
					continue
				}
				clone, isClone := ci.Common().Args[0].(*ssa.Call)
				fresh := isClone && core.StaticCalleeName(&clone.Call) == "maps.Clone"
				cond := false
				for _, cd := range core.CondsAt(b) {
					if strings.HasSuffix(c.M.ValPath(cd.V), ".DiscriminatorInlined") && !cd.True {
						cond = true
					}
				}
				keyOK := strings.HasSuffix(c.M.ValPath(ci.Common().Args[1]), ".DiscriminatorFieldNameValue")
				ok = fresh && cond && keyOK
			}
		}
		if ok {
			c.R.Ok(rule, k, c.M.Pos(fn.Pos()), "discriminator strip", "delete(maps.Clone(data), discriminator field) under DiscriminatorInlined == false")
		} else {
			c.R.Bad(rule, k, c.M.Pos(fn.Pos()), "discriminator strip mutates the caller's map, ignores the inlining flag, or removes another key", "")
		}
	}
	for _, fk := range []string{"schema.OneOfSchema.UnserializeType", "schema.OneOfSchema.SerializeType"} {
		fn := c.fn(rule, fk)
		if fn == nil {
			continue
		}
		k := key(rule, fk, "discriminator re-attached to the map result")
		ok := false
		for _, b := range fn.Blocks {
			for _, in := range b.Instrs {
				if mu, isMU := in.(*ssa.MapUpdate); isMU && strings.HasSuffix(c.M.ValPath(mu.Key), ".DiscriminatorFieldNameValue") {
					ok = true
				}
			}
		}
		if ok {
			c.R.Ok(rule, k, c.M.Pos(fn.Pos()), "discriminator re-attach", "stored back under the discriminator field name on the result map")
		} else {
			c.R.Bad(rule, k, c.M.Pos(fn.Pos()), "the result loses its discriminator", "the serialized / unserialized form cannot be dispatched again: the round trip breaks")
		}
	}
	c.R.Floor(rule, 7)
}

func (c *Ctx) throughStrip(v ssa.Value, depth int) bool {
	if depth > 6 || v == nil {
		return false
	}
	switch x := v.(type) {
	case *ssa.Call:
		for _, callee := range c.M.Callees(&x.Call) {
			if c.M.Key(callee) == "schema.OneOfSchema.deleteDiscriminator" {
				return true
			}
		}
		// a helper of the package that hands the stripped data out as its result
		if helper := core.StaticBody(&x.Call); helper != nil && helper.Pkg == x.Parent().Pkg && helper.Signature.Results().Len() == 1 {
			for _, r := range core.ReturnsOf(helper) {
				if c.throughStrip(core.RetVal(r, 0), depth+2) {
					return true
				}
			}
		}
	case *ssa.Extract:
		if call, ok := x.Tuple.(*ssa.Call); ok {
			if helper := core.StaticBody(&call.Call); helper != nil && helper.Pkg == x.Parent().Pkg {
				for _, r := range core.ReturnsOf(helper) {
					if c.throughStrip(core.RetVal(r, x.Index), depth+2) {
						return true
					}
				}
			}
		}
	case *ssa.MakeInterface:
		return c.throughStrip(x.X, depth+1)
	case *ssa.Phi:
		// `data` stays as passed only on the branch where it is not a map[string]any
		for _, e := range x.Edges {
			if c.throughStrip(e, depth+1) {
				return true
			}
		}
	case *ssa.UnOp:
		if al, ok := x.X.(*ssa.Alloc); ok {
			for _, r := range *al.Referrers() {
				if st, ok := r.(*ssa.Store); ok && c.throughStrip(st.Val, depth+1) {
					return true
				}
			}
		}
	}
	return false
}

// ruleDeleg (R-DELEG, C01): for every type with typed entry points, each pair (XType, X) is a delegation on the same
// receiver, or both members consult every constraint of the type (agreement is then R-BOUNDFORM / R-MUSTUSE's).
func (c *Ctx) ruleDeleg(rule string) {
	memo := map[string]int{}
	n := 0
	for _, named := range c.serializableTypes() {
		for _, base := range []string{"Unserialize", "Validate", "Serialize"} {
			typed := c.methodFn(named, base+"Type")
			untyped := c.methodFn(named, base)
			if typed == nil || untyped == nil || typed.Blocks == nil || untyped.Blocks == nil {
				continue
			}
			n++
			k := key(rule, "schema."+named.Obj().Name(), base+"Type and "+base+" agree by delegation")
			if c.delegatesTo(typed, untyped) {
				c.R.Ok(rule, k, c.M.Pos(typed.Pos()), "typed / untyped pair", base+"Type delegates to "+base+" on the same receiver")
				continue
			}
			if c.delegatesTo(untyped, typed) {
				c.R.Ok(rule, k, c.M.Pos(typed.Pos()), "typed / untyped pair", base+" delegates to "+base+"Type on the same receiver")
				continue
			}
			// both enforce all constraints on their own
			tags := jsonTagsOf(named)
			both := true
			for _, f := range []string{"min", "max", "pattern", "values"} {
				fv := tags[f]
				if fv == nil {
					continue
				}
				switch fv.Type().Underlying().(type) {
				case *types.Pointer, *types.Map:
				default:
					continue
				}
				if !c.mustRead(typed, fv, memo, 0) || !c.mustRead(untyped, fv, memo, 0) {
					both = false
				}
			}
			if both {
				c.R.Ok(rule, k, c.M.Pos(typed.Pos()), "typed / untyped pair", "no delegation, but both members consult every constraint field of the type on all accepting paths (normal forms compared by R-BOUNDFORM)")
			} else {
				c.R.Bad(rule, k, c.M.Pos(typed.Pos()), base+"Type and "+base+" of "+named.Obj().Name()+" neither delegate nor both enforce the constraints",
					"the typed and the untyped entry point can return different verdicts for the same value")
			}
		}
	}
	if n == 0 {
		c.R.Unresolved(rule, "typed entry points")
	}
	c.R.Floor(rule, 20)
}

// delegatesTo: a calls b (statically, on a receiver derived from its own) and a's accepting returns pass b's verdict on.
func (c *Ctx) delegatesTo(a, b *ssa.Function) bool {
	ok, _ := c.mustPassAll(a, func(in ssa.Instruction) bool {
		call, isCall := in.(*ssa.Call)
		if !isCall {
			return false
		}
		for _, callee := range c.M.Callees(&call.Call) {
			if callee == b {
				return true
			}
		}
		return false
	})
	return ok
}

// ruleWireTypes (R-DYNTYPE, C01): what Serialize returns on success is a wire type; what the scalar kinds'
// Unserialize returns is the kind's native type.
func (c *Ctx) ruleWireTypes(rule string) {
	dt := core.NewDynTypes(c.M)
	wire := map[string]bool{"int64": true, "float64": true, "string": true, "bool": true, "[]any": true, "[]interface{}": true,
		"map[any]any": true, "map[interface{}]interface{}": true, "map[string]any": true, "map[string]interface{}": true}
	n := 0
	seen := map[*ssa.Function]bool{}
	for _, named := range c.serializableTypes() {
		for _, op := range []string{"Serialize", "SerializeType"} {
			fn := c.methodFn(named, op)
			if fn == nil || fn.Blocks == nil || seen[fn] {
				continue
			}
			seen[fn] = true
			n++
			k := key(rule, c.M.Key(fn), "successful result is a wire type")
			ts := c.resultTypes(dt, fn, 0)
			var bad []string
			for _, t := range ts.Types {
				if tp, isTP := t.(*types.TypeParam); isTP {
					// a type parameter is fine iff its constraint lists only exact wire types (no ~T terms)
					okTP := false
					if it, ok := tp.Constraint().Underlying().(*types.Interface); ok && it.NumEmbeddeds() > 0 {
						okTP = true
						for i := 0; i < it.NumEmbeddeds(); i++ {
							u, isUnion := it.EmbeddedType(i).(*types.Union)
							if !isUnion {
								if n, ok := it.EmbeddedType(i).(*types.Named); ok {
									if un, ok := n.Underlying().(*types.Interface); ok && un.NumEmbeddeds() == 1 {
										u, isUnion = un.EmbeddedType(0).(*types.Union)
									}
								}
							}
							if !isUnion {
								okTP = false
								continue
							}
							for j := 0; j < u.Len(); j++ {
								if u.Term(j).Tilde() || !wire[typeStr(u.Term(j).Type())] {
									okTP = false
								}
							}
						}
					}
					if !okTP {
						bad = append(bad, typeStr(t)+" (type parameter admitting named types)")
					}
					continue
				}
				if !wire[typeStr(t)] {
					bad = append(bad, typeStr(t))
				}
			}
			switch {
			case len(bad) > 0:
				c.R.Bad(rule, k, c.M.Pos(fn.Pos()), c.M.Key(fn)+" can return a non-wire type: "+strings.Join(bad, ", "),
					"the serialized form must consist of int64/float64/string/bool/[]any/map[any]any/map[string]any only; a named or narrower Go type is not what CBOR decodes back, and differs from what the sibling entry point returns")
			case ts.Top:
				c.R.Add(core.Obligation{Rule: rule, Key: k, Pos: c.M.Pos(fn.Pos()), What: "result type of " + c.M.Key(fn), Status: core.Info,
					How: "contains values produced by reflection / delegation that the provenance analysis cannot type (" + ts.String() + "); not decided"})
			default:
				c.R.Ok(rule, k, c.M.Pos(fn.Pos()), "result type of "+c.M.Key(fn), "provenance of the non-error result: "+ts.String())
			}
		}
	}
	if n == 0 {
		c.R.Unresolved(rule, "Serialize implementations")
	}
	c.R.Floor(rule, 10)
}

func (c *Ctx) resultTypes(dt *core.DynTypes, fn *ssa.Function, idx int) core.TypeSet {
	var out core.TypeSet
	ei := core.ErrorResultIndex(fn.Signature)
	for _, r := range core.ReturnsOf(fn) {
		if ei >= 0 && c.M.RetNonNil(r, ei) {
			continue
		}
		ts := dt.Of(core.RetVal(r, idx), r.Block())
		out.Top = out.Top || ts.Top
		out.MayNil = out.MayNil || ts.MayNil
		for _, t := range ts.Types {
			dup := false
			for _, u := range out.Types {
				if types.Identical(t, u) {
					dup = true
				}
			}
			if !dup {
				out.Types = append(out.Types, t)
			}
		}
	}
	return out
}

// ruleConverters (R-CONVSIB, C01): the as* converters that turn native (possibly named) values back into wire scalars
// share one shape: fast-path assertion, CanConvert guard that rejects, Convert to the same type.
func (c *Ctx) ruleConverters(rule string) {
	for _, fk := range []string{"schema.asInt", "schema.asFloat", "schema.asString", "schema.asBool"} {
		fn := c.fn(rule, fk)
		if fn == nil {
			continue
		}
		k := key(rule, fk, "conversion guarded by CanConvert to the target type")
		var conv, can *ssa.Call
		for _, b := range fn.Blocks {
			for _, in := range b.Instrs {
				if call, ok := in.(*ssa.Call); ok {
					switch core.StaticCalleeName(&call.Call) {
					case "(reflect.Value).Convert":
						conv = call
					case "(reflect.Value).CanConvert":
						can = call
					}
				}
			}
		}
		switch {
		case conv == nil:
			c.R.Bad(rule, k, c.M.Pos(fn.Pos()), "converter no longer converts through reflection like its siblings", "undecided = fail")
		case can == nil || can.Call.Args[1] != conv.Call.Args[1] || can.Call.Args[0] != conv.Call.Args[0]:
			c.R.Bad(rule, k, c.M.InstrPos(conv), fk+" deviates from its sibling converters: the Convert is not guarded by CanConvert of the same value to the same type",
				"values the siblings accept (e.g. unsigned integers, named types) are rejected here, or Convert can panic: what Unserialize produced no longer passes Validate / Serialize")
		default:
			// the guard's false edge rejects and its true edge dominates the Convert
			guardOK := false
			for _, cond := range core.CondsAt(conv.Block()) {
				if cond.V == ssa.Value(can) && cond.True {
					guardOK = true
				}
			}
			if guardOK {
				c.R.Ok(rule, k, c.M.InstrPos(conv), "native-to-wire converter", "Convert dominated by CanConvert(same value, same type) == true, as in all four siblings")
			} else {
				c.R.Bad(rule, k, c.M.InstrPos(conv), "Convert is not dominated by its CanConvert guard", "")
			}
		}
	}
	c.R.Floor(rule, 4)
}

var _ = token.ADD

// R-DISCTYPE (C01): what Unserialize stores under the discriminator key must be what Validate / Serialize look for
// there. validateMap asserts the stored discriminator to KeyType; every store into a map under the discriminator
// field name inside the one-of type must therefore have dynamic type KeyType (the typed discriminator), not the raw
// decoded value (after CBOR a positive integer is a uint64: Unserialize accepts it, Validate rejects its own result).
func (c *Ctx) ruleDiscType(rule string) {
	dt := core.NewDynTypes(c.M)
	n := 0
	for _, fn := range c.M.SortedFuncs(c.scopePkg("schema")) {
		cnt := 0
		for _, b := range fn.Blocks {
			for _, in := range b.Instrs {
				mu, ok := in.(*ssa.MapUpdate)
				if !ok {
					continue
				}
				if !strings.HasSuffix(c.M.ValPath(mu.Key), ".DiscriminatorFieldNameValue") {
					continue
				}
				n++
				cnt++
				k := key(rule, c.M.Key(fn), sprintf("store under the discriminator key #%d", cnt))
				ts := dt.Of(mu.Value, b)
				good := !ts.Top && !ts.MayNil && len(ts.Types) > 0
				for _, t := range ts.Types {
					tp, isTP := t.(*types.TypeParam)
					if !isTP || !coreNonInterface(tp) {
						good = false
					}
				}
				if good {
					c.R.Ok(rule, k, c.M.InstrPos(mu), "discriminator stored into a result map", "the stored value has the one-of's key type: "+ts.String())
				} else {
					c.R.Bad(rule, k, c.M.InstrPos(mu), "the discriminator stored into the result is not of the one-of's key type",
						"provenance of the stored value: "+ts.String()+"; Validate and Serialize assert the discriminator to the key type, so a raw decoded discriminator (uint64 / int / float after CBOR or YAML) makes them reject what Unserialize accepted")
				}
			}
		}
	}
	if n == 0 {
		c.R.Unresolved(rule, "store under the discriminator key")
	}
}

// R-DISCPRESENT: the map a one-of hands back carries the discriminator on every accepting path.
//
//	Unserialize side (the map comes from the member's Unserialize): the typed discriminator is STORED on every path -
//	  a store only "if the member did not produce one" leaves the member's own value there, which has the member's
//	  type (a named string of a typed enum), not the key type Validate / Serialize assert.
//	Serialize side (the map comes from the member's Serialize): on every path the discriminator was stored or found
//	  present by a comma-ok lookup - a store conditional on the inlining flag omits it when an inlined member did not
//	  emit its optional discriminator property, and the result cannot be routed back.
func (c *Ctx) ruleDiscPresent(rule string) {
	n := 0
	for _, fn := range c.M.SortedFuncs(c.scopePkg("schema")) {
		if !strings.HasPrefix(c.M.Key(fn), "schema.OneOfSchema.") {
			continue
		}
		ei := core.ErrorResultIndex(fn.Signature)
		if ei < 0 {
			continue
		}
		cnt := 0
		for _, r := range core.ReturnsOf(fn) {
			if len(r.Results) < 2 || c.M.RetNonNil(r, ei) {
				continue
			}
			m := core.Unwrap(core.RetVal(r, 0))
			if _, isMap := m.Type().Underlying().(*types.Map); !isMap {
				continue
			}
			side := memberCallOf(m, 0)
			if side == "" {
				continue
			}
			n++
			cnt++
			isDiscKey := func(k ssa.Value) bool {
				return strings.HasSuffix(c.M.ValPath(k), ".DiscriminatorFieldNameValue")
			}
			gen := func(b *ssa.BasicBlock) bool {
				for _, in := range b.Instrs {
					if mu, ok := in.(*ssa.MapUpdate); ok && mu.Map == m && isDiscKey(mu.Key) {
						return true
					}
				}
				return false
			}
			est := func(cond core.Cond) bool {
				if side != "Serialize" || !cond.True {
					return false
				}
				tup, ok := core.CommaOk(cond.V)
				if !ok {
					return false
				}
				lk, ok := tup.(*ssa.Lookup)
				return ok && lk.X == m && isDiscKey(lk.Index)
			}
			k := key(rule, c.M.Key(fn), sprintf("accepting return #%d of the member's %s result carries the discriminator", cnt, side))
			if mustHoldGen(fn, est, gen)[r.Key()] || gen(r.Block()) {
				how := "the typed discriminator is stored under the discriminator key on every path"
				if side == "Serialize" {
					how = "on every path the discriminator was stored, or found present by a comma-ok lookup"
				}
				c.R.Ok(rule, k, c.M.InstrPos(r), "map handed back by a one-of", how)
			} else if side == "Unserialize" {
				c.R.Bad(rule, k, c.M.InstrPos(r), "a path returns the member's map without storing the typed discriminator",
					"the member may have produced its own discriminator value (an inlined discriminator declared as a typed enum yields a named string); Validate and Serialize assert the one-of's key type and reject the value Unserialize just returned")
			} else {
				c.R.Bad(rule, k, c.M.InstrPos(r), "a path returns the member's serialized map without a discriminator",
					"an inlined member omits an optional discriminator property that is unset; without the discriminator the serialized form cannot be routed by Unserialize")
			}
		}
	}
	if n == 0 {
		c.R.Unresolved(rule, "returns of a member's map in the one-of's methods")
	}
}

// memberCallOf: v is (an assertion on) the result of an interface call Unserialize / Serialize: the method name.
func memberCallOf(v ssa.Value, depth int) string {
	if depth > 5 {
		return ""
	}
	switch x := v.(type) {
	case *ssa.Extract:
		return memberCallOf(x.Tuple, depth+1)
	case *ssa.TypeAssert:
		return memberCallOf(x.X, depth+1)
	case *ssa.Call:
		if x.Call.IsInvoke() {
			switch x.Call.Method.Name() {
			case "Unserialize", "Serialize":
				return x.Call.Method.Name()
			}
		}
	}
	return ""
}

// mustHoldGen is core.MustHold with block-level generators: a fact holds at the entry of b when, for every predecessor,
// it held at its entry, or the predecessor generates it, or the edge establishes it.
func mustHoldGen(fn *ssa.Function, est func(core.Cond) bool, gen func(*ssa.BasicBlock) bool) map[*ssa.BasicBlock]bool {
	in := map[*ssa.BasicBlock]bool{}
	if len(fn.Blocks) == 0 {
		return in
	}
	for _, b := range fn.Blocks {
		in[b] = true
	}
	in[fn.Blocks[0]] = false
	edge := func(p, b *ssa.BasicBlock) bool {
		if len(p.Instrs) == 0 {
			return false
		}
		ifi, ok := p.Instrs[len(p.Instrs)-1].(*ssa.If)
		if !ok || p.Succs[0] == p.Succs[1] {
			return false
		}
		_ = ifi
		for _, cond := range core.EdgeConds(p, b) {
			if core.Establishes(cond, est) {
				return true
			}
		}
		return false
	}
	for changed := true; changed; {
		changed = false
		for _, b := range fn.Blocks {
			if b == fn.Blocks[0] || !in[b] {
				continue
			}
			for _, p := range b.Preds {
				if !(in[p] || gen(p) || edge(p, b)) {
					in[b] = false
					changed = true
					break
				}
			}
		}
	}
	// the ways out that leave their block over a conditional edge (see core.Ret.Key)
	edges, keys := core.EdgeKeysOf(fn)
	for i, e := range edges {
		in[keys[i]] = in[e[0]] || gen(e[0]) || edge(e[0], e[1])
	}
	return in
}

// phasesOf: fn and the phases it is split into - unexported methods that fn calls on its own receiver, that return an
// error, and whose non-nil error makes fn return a non-nil error at once (`if err := o.phase(..); err != nil { return
// .., err }`, or `return o.phase(..)`).
func (c *Ctx) phasesOf(fn *ssa.Function) []*ssa.Function {
	out := []*ssa.Function{fn}
	if fn.Signature.Recv() == nil || len(fn.Params) == 0 {
		return out
	}
	for _, b := range fn.Blocks {
		for _, in := range b.Instrs {
			call, ok := in.(*ssa.Call)
			if !ok {
				continue
			}
			g := core.StaticBody(&call.Call)
			if g == nil || g == fn || g.Signature.Recv() == nil || token.IsExported(g.Name()) || len(call.Call.Args) == 0 ||
				call.Call.Args[0] != ssa.Value(fn.Params[0]) || len(core.PlainSites(g)) == 0 {
				continue
			}
			ei := core.ErrorResultIndex(g.Signature)
			if ei < 0 {
				continue
			}
			// the error of the phase: the call itself or the extract of that result
			var errv ssa.Value = call
			if g.Signature.Results().Len() > 1 {
				errv = nil
				for _, r := range *call.Referrers() {
					if ex, isEx := r.(*ssa.Extract); isEx && ex.Index == ei {
						errv = ex
					}
				}
			}
			if errv == nil || errv.Referrers() == nil {
				continue
			}
			handsOn := false
			for _, r := range *errv.Referrers() {
				switch x := r.(type) {
				case *ssa.Return:
					handsOn = true
				case *ssa.BinOp:
					if _, neq, isNil := core.NilCmp(x); isNil {
						if ifi, isIf := x.Block().Instrs[len(x.Block().Instrs)-1].(*ssa.If); isIf && ifi.Cond == ssa.Value(x) {
							idx := 0
							if !neq {
								idx = 1
							}
							if c.edgeRejectsIdx(fn, x.Block(), idx) {
								handsOn = true
							}
						}
					}
				}
			}
			if handsOn {
				dup := false
				for _, o := range out {
					if o == g {
						dup = true
					}
				}
				if !dup {
					out = append(out, g)
				}
			}
		}
	}
	return out
}

// falseRejects: a branch on the verdict v (or on its negation, `case !ok:`) whose edge for "v is false" returns a
// non-nil error.
func (c *Ctx) falseRejects(g *ssa.Function, v ssa.Value) bool {
	var rec func(x ssa.Value, negated bool, depth int) bool
	rec = func(x ssa.Value, negated bool, depth int) bool {
		if x.Referrers() == nil || depth > 3 {
			return false
		}
		for _, r := range *x.Referrers() {
			switch y := r.(type) {
			case *ssa.If:
				idx := 1
				if negated {
					idx = 0
				}
				if c.edgeRejectsIdx(g, y.Block(), idx) {
					return true
				}
			case *ssa.UnOp:
				if y.Op == token.NOT && rec(y, !negated, depth+1) {
					return true
				}
			}
		}
		return false
	}
	return rec(v, false, 0)
}
