package rules

import (
	"go/token"
	"go/types"
	"sort"
	"strings"

	"golang.org/x/tools/go/ssa"

	"verifcheck/internal/core"
)

// R-NILGUARD (belief-based, Engler et al.): a struct field or parameter of pointer/interface type that the repository
// itself compares against nil somewhere is *optional*. Every dereference of a value loaded from an optional field
// (load through it, field address, method call with it as receiver, interface invoke) must be dominated by a
// non-nil fact on the same access path. "One path checks the pointer, another dereferences it unconditionally."

type optionalSet struct {
	fields map[*types.Var]bool
}

func fieldOfValue(m *core.Module, v ssa.Value) *types.Var {
	switch x := v.(type) {
	case *ssa.UnOp:
		if x.Op.String() == "*" {
			if fa, ok := x.X.(*ssa.FieldAddr); ok {
				return structField(fa.X.Type(), fa.Field)
			}
		}
	case *ssa.Field:
		return structField(x.X.Type(), x.Field)
	case *ssa.Call:
		if x.Call.IsInvoke() || len(x.Call.Args) == 0 {
			return nil
		}
		cs := m.Callees(&x.Call)
		if len(cs) != 1 {
			return nil
		}
		if fname, ok := m.GetterField(cs[0]); ok {
			rt := cs[0].Signature.Recv().Type()
			return structFieldByName(rt, fname)
		}
	}
	return nil
}

func structField(t types.Type, idx int) *types.Var {
	if p, ok := t.Underlying().(*types.Pointer); ok {
		t = p.Elem()
	}
	if st, ok := t.Underlying().(*types.Struct); ok && idx < st.NumFields() {
		return st.Field(idx).Origin()
	}
	return nil
}

func structFieldByName(t types.Type, name string) *types.Var {
	if p, ok := t.Underlying().(*types.Pointer); ok {
		t = p.Elem()
	}
	if st, ok := t.Underlying().(*types.Struct); ok {
		for i := 0; i < st.NumFields(); i++ {
			if st.Field(i).Name() == name {
				return st.Field(i).Origin()
			}
		}
	}
	return nil
}

func nilable(t types.Type) bool {
	switch t.Underlying().(type) {
	case *types.Pointer, *types.Interface:
		if _, isTP := t.(*types.TypeParam); isTP {
			return false
		}
		return true
	}
	return false
}

// optionalFields: fields compared with nil anywhere in the module (through loads or trivial getters).
func (c *Ctx) optionalFields() *optionalSet {
	os := &optionalSet{fields: map[*types.Var]bool{}}
	for _, fn := range c.M.Funcs {
		for _, b := range fn.Blocks {
			for _, in := range b.Instrs {
				bin, ok := in.(*ssa.BinOp)
				if !ok {
					continue
				}
				x, _, ok := core.NilCmp(bin)
				if !ok {
					continue
				}
				if f := fieldOfValue(c.M, x); f != nil && nilable(f.Type()) {
					os.fields[f] = true
				}
			}
		}
	}
	return os
}

// optionalParams: pointer/interface parameters of fn compared to nil inside fn.
func optionalParams(fn *ssa.Function) map[*ssa.Parameter]bool {
	out := map[*ssa.Parameter]bool{}
	for _, b := range fn.Blocks {
		for _, in := range b.Instrs {
			if bin, ok := in.(*ssa.BinOp); ok {
				if x, _, ok := core.NilCmp(bin); ok {
					if p, ok := x.(*ssa.Parameter); ok && nilable(p.Type()) {
						out[p] = true
					}
				}
			}
		}
	}
	return out
}

// derefUses lists the instructions that dereference v (a pointer or interface value).
func derefUses(v ssa.Value) []ssa.Instruction {
	refs := v.Referrers()
	if refs == nil {
		return nil
	}
	var out []ssa.Instruction
	for _, r := range *refs {
		switch x := r.(type) {
		case *ssa.UnOp:
			if x.Op.String() == "*" && x.X == v {
				out = append(out, r)
			}
		case *ssa.FieldAddr:
			if x.X == v {
				out = append(out, r)
			}
		case *ssa.IndexAddr:
			if x.X == v {
				out = append(out, r)
			}
		case ssa.CallInstruction:
			cc := x.Common()
			if cc.IsInvoke() {
				if cc.Value == v {
					out = append(out, r)
				}
			} else if len(cc.Args) > 0 && cc.Args[0] == v && cc.Signature().Recv() != nil {
				out = append(out, r)
			}
		}
	}
	return out
}

func (c *Ctx) ruleNilGuard(rule string, fns map[*ssa.Function]bool) {
	opt := c.optionalFields()
	var names []string
	for f := range opt.fields {
		names = append(names, f.Name())
	}
	sort.Strings(names)
	c.R.Note("%s: optional fields inferred from nil comparisons in the repository: %s", rule, strings.Join(names, ", "))
	flow := core.NewNonNilFlow(c.M)
	for _, fn := range c.M.SortedFuncs(fns) {
		stored := c.M.StoredPaths(fn)
		oparams := optionalParams(fn)
		seen := map[string]bool{}
		check := func(v ssa.Value, what string) {
			for _, use := range derefUses(v) {
				path := c.M.ValPath(v)
				k := key(rule, c.M.Key(fn), "deref "+c.stable(fn, path))
				if seen[k] {
					continue
				}
				b := use.Block()
				ok := c.M.NonNilAt(b, path) && core.PathStable(path, stored)
				if !ok {
					// same SSA value checked
					for _, cond := range core.CondsAt(b) {
						if x, neq, isNil := core.NilCmp(cond.V); isNil && neq == cond.True && x == v {
							ok = true
						}
					}
				}
				if ok {
					seen[k] = true
					c.R.Ok(rule, k, c.M.InstrPos(use), "dereference of optional "+what+" "+c.stable(fn, path), "dominated by a non-nil test of the same access path")
					continue
				}
				if !strings.HasPrefix(path, "%") && flow.At(fn, use, path) {
					seen[k] = true
					c.R.Ok(rule, k, c.M.InstrPos(use), "dereference of optional "+what+" "+c.stable(fn, path),
						"non-nil on every path: nil test, store of a non-nil value, or a callee that ensures the field (lazy-init idiom) - must-dataflow over the CFG")
					continue
				}
				// try the remaining uses first: report only if some use is unguarded
				seen[k] = true
				c.R.Bad(rule, k, c.M.InstrPos(use), "dereference of optional "+what+" "+c.stable(fn, path),
					"the repository compares this "+what+" with nil elsewhere (it may be nil), but no non-nil test of "+path+" dominates this use: nil dereference")
			}
		}
		for _, b := range fn.Blocks {
			for _, in := range b.Instrs {
				v, ok := in.(ssa.Value)
				if !ok {
					continue
				}
				if f := fieldOfValue(c.M, v); f != nil && opt.fields[f] {
					check(v, "field")
				}
			}
		}
		for p := range oparams {
			check(p, "parameter")
		}
	}
}

// R-MAPNIL: a non-comma-ok lookup in a map with pointer/interface elements whose result is dereferenced or used as a
// receiver. Discharge: a non-nil fact on the result; the key is the range key of the same map; the key comes from a
// slice that a keys-of summary ties to the same map; the result is only compared / passed on (no obligation).
func (c *Ctx) ruleMapNil(rule string, fns map[*ssa.Function]bool) {
	for _, fn := range c.M.SortedFuncs(fns) {
		for _, b := range fn.Blocks {
			for _, in := range b.Instrs {
				lk, ok := in.(*ssa.Lookup)
				if !ok || lk.CommaOk {
					continue
				}
				mt, ok := lk.X.Type().Underlying().(*types.Map)
				if !ok || !nilable(mt.Elem()) {
					continue
				}
				mapPath := c.M.ValPath(lk.X)
				k := key(rule, c.M.Key(fn), c.stable(fn, mapPath)+"["+c.stable(fn, c.keyDesc(lk.Index))+"]")
				uses := derefUses(lk)
				// assertion on the element is R-ASSERT's business
				if len(uses) == 0 {
					c.R.Add(core.Obligation{Rule: rule, Key: k, Pos: c.M.InstrPos(lk), What: "map element (pointer/interface) looked up without comma-ok",
						Status: core.Info, How: "result is only compared, stored or passed on; no dereference in this function"})
					continue
				}
				if why, ok := c.keyFromSameMap(fn, lk); ok {
					c.R.Ok(rule, k, c.M.InstrPos(lk), "map element used as receiver", why)
					continue
				}
				allGuarded := true
				for _, u := range uses {
					g := false
					for _, cond := range core.CondsAt(u.Block()) {
						if x, neq, isNil := core.NilCmp(cond.V); isNil && neq == cond.True && x == ssa.Value(lk) {
							g = true
						}
					}
					if !g {
						allGuarded = false
					}
				}
				if allGuarded {
					c.R.Ok(rule, k, c.M.InstrPos(lk), "map element used as receiver", "every dereference is dominated by a non-nil test of the element")
					continue
				}
				if why, ok := c.mapNilException(fn, lk); ok {
					c.R.Except(rule, k, c.M.InstrPos(lk), "map element used as receiver", why)
					continue
				}
				c.R.Bad(rule, k, c.M.InstrPos(lk), "map element used as receiver without presence check",
					"a key that is not in "+mapPath+" yields a nil element, which is dereferenced: nil pointer panic for unknown keys")
			}
		}
	}
}

func (c *Ctx) keyDesc(v ssa.Value) string {
	p := c.M.ValPath(v)
	if strings.HasPrefix(p, "%") {
		if _, ok := v.(*ssa.Extract); ok {
			return "range key"
		}
		if u, ok := v.(*ssa.UnOp); ok {
			if _, ok := u.X.(*ssa.IndexAddr); ok {
				return "slice element"
			}
		}
		return typeStr(v.Type()) + " value"
	}
	return p
}

// keyFromSameMap: the lookup key is (a) the key of a range over the same map path, or (b) an element of a slice
// that a keys-of summary ties to the same map (the sorted-multiplier cache of the unit definitions).
func (c *Ctx) keyFromSameMap(fn *ssa.Function, lk *ssa.Lookup) (string, bool) {
	mapPath := c.M.ValPath(lk.X)
	// (a) Extract #1 of Next over Range(map)
	if e, ok := lk.Index.(*ssa.Extract); ok && e.Index == 1 {
		if nx, ok := e.Tuple.(*ssa.Next); ok {
			if rg, ok := nx.Iter.(*ssa.Range); ok {
				if c.M.ValPath(rg.X) == mapPath && !strings.HasPrefix(mapPath, "%") {
					return "the key is the range key of the same map " + mapPath, true
				}
			}
		}
	}
	// (b) element of a slice returned by a keys-of function on the same receiver
	if ld, ok := lk.Index.(*ssa.UnOp); ok && ld.Op.String() == "*" {
		if ia, ok := ld.X.(*ssa.IndexAddr); ok {
			if call, ok := ia.X.(*ssa.Call); ok && !call.Call.IsInvoke() && len(call.Call.Args) == 1 {
				cs := c.M.Callees(&call.Call)
				if len(cs) == 1 {
					if field, ok := c.keysOfSummary(cs[0]); ok {
						recv := c.M.ValPath(call.Call.Args[0])
						if recv+"."+field == mapPath {
							return "the key is an element of " + c.M.Key(cs[0]) + "(), which returns exactly the keys of " + mapPath + " (keys-of summary, re-verified)", true
						}
					}
				}
			}
		}
	}
	return "", false
}

// keysOfSummary: fn returns recv.C where every store to field C (anywhere in the module) is in fn and stores a slice
// built only by appending the range keys of recv.F. Returns F.
func (c *Ctx) keysOfSummary(fn *ssa.Function) (string, bool) {
	if len(fn.Params) != 1 {
		return "", false
	}
	recv := fn.Params[0].Name()
	rets := core.ReturnsOf(fn)
	if len(rets) == 0 {
		return "", false
	}
	cacheField := ""
	// wrapper (e.g. a locking front of the cache function): returns callee(recv) on every path
	if len(rets) == 1 && len(rets[0].Results) == 1 {
		if call, ok := core.RetVal(rets[0], 0).(*ssa.Call); ok && !call.Call.IsInvoke() && len(call.Call.Args) == 1 && call.Call.Args[0] == ssa.Value(fn.Params[0]) {
			if cs := c.M.Callees(&call.Call); len(cs) == 1 && cs[0] != fn {
				return c.keysOfSummary(cs[0])
			}
		}
	}
	// a slice made and filled here with the range keys of recv.F (and sorted, possibly): no cache in between
	if f, ok := c.localKeysOf(fn, rets); ok {
		return f, true
	}
	for _, r := range rets {
		if len(r.Results) != 1 {
			return "", false
		}
		p := c.M.ValPath(core.RetVal(r, 0))
		if !strings.HasPrefix(p, recv+".") {
			return "", false
		}
		f := p[len(recv)+1:]
		if cacheField != "" && cacheField != f {
			return "", false
		}
		cacheField = f
	}
	// all stores to the cache field
	mapField := ""
	nStores := 0
	for _, g := range c.M.Funcs {
		for _, b := range g.Blocks {
			for _, in := range b.Instrs {
				st, ok := in.(*ssa.Store)
				if !ok {
					continue
				}
				fa, ok := st.Addr.(*ssa.FieldAddr)
				if !ok || fieldName(fa.X.Type(), fa.Field) != cacheField {
					continue
				}
				if structField(fa.X.Type(), fa.Field) != structFieldByName(fn.Params[0].Type(), cacheField) {
					continue
				}
				nStores++
				if g != fn {
					return "", false
				}
				mf, ok := c.sliceOfRangeKeys(st.Val, recv)
				if !ok {
					return "", false
				}
				mapField = mf
			}
		}
	}
	if nStores == 0 || mapField == "" {
		return "", false
	}
	return mapField, true
}

// localKeysOf: every way out of fn returns one and the same slice made in fn (make / append), and everything stored into
// it is the range key of a loop over recv.F. Returns F.
func (c *Ctx) localKeysOf(fn *ssa.Function, rets []core.Ret) (string, bool) {
	recv := fn.Params[0].Name()
	var made *ssa.MakeSlice
	for _, r := range rets {
		if len(r.Results) != 1 {
			return "", false
		}
		ms, ok := core.RetVal(r, 0).(*ssa.MakeSlice)
		if !ok || (made != nil && made != ms) {
			return "", false
		}
		made = ms
	}
	if made == nil || made.Referrers() == nil {
		return "", false
	}
	field, stores := "", 0
	for _, ref := range *made.Referrers() {
		switch x := ref.(type) {
		case *ssa.IndexAddr:
			if x.Referrers() == nil {
				return "", false
			}
			for _, r2 := range *x.Referrers() {
				st, isStore := r2.(*ssa.Store)
				if !isStore || st.Addr != ssa.Value(x) {
					return "", false // the element's address goes elsewhere
				}
				e, ok := st.Val.(*ssa.Extract)
				if !ok || e.Index != 1 {
					return "", false
				}
				nx, ok := e.Tuple.(*ssa.Next)
				if !ok {
					return "", false
				}
				rg, ok := nx.Iter.(*ssa.Range)
				if !ok {
					return "", false
				}
				p := c.M.ValPath(rg.X)
				if !strings.HasPrefix(p, recv+".") || strings.ContainsAny(p[len(recv)+1:], ".[*") {
					return "", false
				}
				if field != "" && field != p[len(recv)+1:] {
					return "", false
				}
				field = p[len(recv)+1:]
				stores++
			}
		case *ssa.Return, *ssa.DebugRef:
		case *ssa.Call:
			// sorting (or measuring) the slice does not change what it holds
			n := core.StaticCalleeName(&x.Call)
			if _, isBuiltin := x.Call.Value.(*ssa.Builtin); !isBuiltin && !strings.HasPrefix(n, "sort.") && !strings.HasPrefix(n, "slices.Sort") {
				return "", false
			}
		case *ssa.Phi, *ssa.Store, *ssa.MakeInterface, *ssa.Slice:
			return "", false
		}
	}
	if stores == 0 || field == "" {
		return "", false
	}
	// as long as the map: no element is left at the zero value, which need not be a key (that the index advances with
	// every key is not examined), or empty and filled by append
	lenOK := false
	if k, isConst := core.ConstInt(made.Len); isConst && k == 0 {
		lenOK = false // filled through IndexAddr stores, so it cannot have length 0
	}
	if lc, isCall := made.Len.(*ssa.Call); isCall {
		if bi, isBuiltin := lc.Call.Value.(*ssa.Builtin); isBuiltin && bi.Name() == "len" && c.M.ValPath(lc.Call.Args[0]) == recv+"."+field {
			lenOK = true
		}
	}
	if !lenOK {
		return "", false
	}
	return field, true
}

func fieldName(t types.Type, idx int) string {
	if p, ok := t.Underlying().(*types.Pointer); ok {
		t = p.Elem()
	}
	if st, ok := t.Underlying().(*types.Struct); ok && idx < st.NumFields() {
		return st.Field(idx).Name()
	}
	return ""
}

// sliceOfRangeKeys: v is a slice built by append(phi, key) where key ranges over recv.F; (sort calls in between are fine).
func (c *Ctx) sliceOfRangeKeys(v ssa.Value, recv string) (string, bool) {
	seen := map[ssa.Value]bool{}
	field := ""
	var walk func(x ssa.Value) bool
	walk = func(x ssa.Value) bool {
		if seen[x] {
			return true
		}
		seen[x] = true
		switch y := x.(type) {
		case *ssa.Const:
			return y.Value == nil // nil slice
		case *ssa.Phi:
			for _, e := range y.Edges {
				if !walk(e) {
					return false
				}
			}
			return true
		case *ssa.UnOp: // load of a local slice variable: all stores must qualify
			if al, ok := y.X.(*ssa.Alloc); ok && y.Op.String() == "*" {
				for _, r := range *al.Referrers() {
					if st, ok := r.(*ssa.Store); ok && st.Addr == ssa.Value(al) {
						if !walk(st.Val) {
							return false
						}
					}
				}
				return true
			}
		case *ssa.Call:
			if bi, ok := y.Call.Value.(*ssa.Builtin); ok && bi.Name() == "append" && len(y.Call.Args) == 2 {
				if !walk(y.Call.Args[0]) {
					return false
				}
				// appended elements: a one-element slice literal holding the range key
				f, ok := c.appendedRangeKey(y.Call.Args[1], recv)
				if !ok {
					return false
				}
				if field != "" && field != f {
					return false
				}
				field = f
				return true
			}
		}
		return false
	}
	if !walk(v) || field == "" {
		return "", false
	}
	return field, true
}

// appendedRangeKey: arg is the variadic slice `[]T{key}` (Slice of Alloc array with one store of Extract(Next(Range(recv.F)),1)).
func (c *Ctx) appendedRangeKey(arg ssa.Value, recv string) (string, bool) {
	sl, ok := arg.(*ssa.Slice)
	if !ok {
		return "", false
	}
	al, ok := sl.X.(*ssa.Alloc)
	if !ok {
		return "", false
	}
	field := ""
	for _, r := range *al.Referrers() {
		ia, ok := r.(*ssa.IndexAddr)
		if !ok {
			continue
		}
		for _, r2 := range *ia.Referrers() {
			st, ok := r2.(*ssa.Store)
			if !ok {
				continue
			}
			e, ok := st.Val.(*ssa.Extract)
			if !ok || e.Index != 1 {
				return "", false
			}
			nx, ok := e.Tuple.(*ssa.Next)
			if !ok {
				return "", false
			}
			rg, ok := nx.Iter.(*ssa.Range)
			if !ok {
				return "", false
			}
			p := c.M.ValPath(rg.X)
			if !strings.HasPrefix(p, recv+".") {
				return "", false
			}
			field = p[len(recv)+1:]
		}
	}
	return field, field != ""
}

// mapNilException: constructs whose safety rests on another rule, re-verified here.
func (c *Ctx) mapNilException(fn *ssa.Function, lk *ssa.Lookup) (string, bool) {
	// CallStep: step.Outputs()[outputID] after step.Call(...) returned a nil error: every accepting return of the
	// CallableStep.Call implementations is dominated by the comma-ok lookup of the same key in the outputs table (R-DOM).
	if c.M.Key(fn) == "schema.CallableSchema.CallStep" {
		if call, ok := lk.X.(*ssa.Call); ok && call.Call.IsInvoke() && call.Call.Method.Name() == "Outputs" {
			if c.outputLookupDominatesAccept() {
				return "E-OUTPUTCHECKED: the output ID comes from step.Call, whose every accepting return is dominated by a successful comma-ok " +
					"lookup of that ID in the step's outputs table (re-verified on this run)", true
			}
		}
	}
	return "", false
}

// outputLookupDominatesAccept: in every implementer of CallableStep.Call, each return with a possibly-nil error is
// dominated by the ok-edge of a comma-ok lookup in the outputs table keyed by the returned output ID.
func (c *Ctx) outputLookupDominatesAccept() bool {
	f := c.M.FuncByKey["schema.CallableStepSchema.Call"]
	if f == nil {
		return false
	}
	// the function may end in a worker on the same receiver that calls the handler and looks the output up
	if w, _ := c.tailWorker(f); w != nil {
		f = w
	}
	ei := core.ErrorResultIndex(f.Signature)
	for _, r := range core.ReturnsOf(f) {
		if c.M.RetNonNil(r, ei) {
			continue
		}
		found := false
		for _, cond := range r.Conds() {
			// a verdict helper of the same receiver returned nil, and every nil return of that helper is dominated by
			// the successful lookup of the parameter that received the output ID
			if x, neq, isNil := core.NilCmp(cond.V); isNil && neq != cond.True {
				if hc, isCall := core.Unwrap(x).(*ssa.Call); isCall {
					if h := c.verdictHelper(f, hc); h != nil {
						pi := -1
						for i, a := range hc.Call.Args {
							if a == core.RetVal(r, 0) {
								pi = i
							}
						}
						if pi >= 0 && pi < len(h.Params) && c.lookupDominatesNilReturns(h, h.Params[pi]) {
							found = true
						}
					}
				}
			}
			if !cond.True {
				continue
			}
			if t, ok := core.CommaOk(cond.V); ok {
				if l, ok := t.(*ssa.Lookup); ok && strings.HasSuffix(c.M.ValPath(l.X), ".OutputsValue") && l.Index == core.RetVal(r, 0) {
					found = true
				}
			}
		}
		if !found {
			return false
		}
	}
	return true
}

// R-TYPEDNIL (C04 "nil pointers"): `p, ok := x.(*T)` succeeds for a typed nil pointer stored in the interface x; the
// `x == nil` test in front of it does not catch that. Every dereference of such a p - a method call with p as the
// receiver, a field access, a load - in the data scope needs a non-nil fact on p itself. Only assertions on values of
// type `any` (data) are obligations; assertions on schema interfaces are R-ASSERT's.
func (c *Ctx) ruleTypedNil(rule string, fns map[*ssa.Function]bool) {
	n := 0
	for _, fn := range c.M.SortedFuncs(fns) {
		cnt := 0
		for _, b := range fn.Blocks {
			for _, in := range b.Instrs {
				ta, ok := in.(*ssa.TypeAssert)
				if !ok {
					continue
				}
				if _, isPtr := ta.AssertedType.Underlying().(*types.Pointer); !isPtr {
					continue
				}
				if it, isIface := ta.X.Type().Underlying().(*types.Interface); !isIface || it.NumMethods() != 0 {
					continue
				}
				if c.isSDKType(ta.AssertedType) {
					// an assertion to a schema type is schema-mode compatibility code: a typed nil schema pointer is not a
					// value any decoder produces nor a data value of any schema (outside C04's domain)
					continue
				}
				// the pointer value(s)
				var ptrs []ssa.Value
				if ta.CommaOk {
					for _, r := range *ta.Referrers() {
						if ex, ok := r.(*ssa.Extract); ok && ex.Index == 0 {
							ptrs = append(ptrs, ex)
						}
					}
				} else {
					ptrs = append(ptrs, ta)
				}
				for _, p := range ptrs {
					for _, r := range *p.Referrers() {
						what := ""
						switch u := r.(type) {
						case *ssa.Call:
							if !u.Call.IsInvoke() && len(u.Call.Args) > 0 && u.Call.Args[0] == p && u.Call.Signature().Recv() != nil {
								what = "method call " + core.StaticCalleeName(&u.Call)
							}
						case *ssa.FieldAddr:
							if u.X == p {
								what = "field access"
							}
						case *ssa.UnOp:
							if u.X == p && u.Op == token.MUL {
								what = "load"
							}
						}
						if what == "" {
							continue
						}
						n++
						cnt++
						k := key(rule, c.M.Key(fn), sprintf("%s on a pointer asserted from data #%d", what, cnt))
						ub := r.(ssa.Instruction).Block()
						nonnil := false
						for _, cond := range core.CondsAt(ub) {
							if y, neq, ok := core.NilCmp(cond.V); ok && neq == cond.True && y == p {
								nonnil = true
							}
						}
						if nonnil {
							c.R.Ok(rule, k, c.M.InstrPos(r.(ssa.Instruction)), "dereference of a pointer obtained by a type assertion on data", "dominated by a non-nil test of the pointer itself")
						} else if isRecoverScope(fn) {
							c.R.Ok(rule, k, c.M.InstrPos(r.(ssa.Instruction)), "dereference of a pointer obtained by a type assertion on data", "the function recovers")
						} else {
							c.R.Bad(rule, k, c.M.InstrPos(r.(ssa.Instruction)), what+" on a pointer that may be a typed nil",
								"a typed nil pointer inside a non-nil interface passes both `x == nil` and the type assertion; the dereference panics instead of the value being rejected")
						}
					}
				}
			}
		}
	}
	c.R.Note("%s: %d dereferences of pointers asserted from data", rule, n)
}

// lookupDominatesNilReturns: every return of h whose error may be nil is dominated by a successful comma-ok lookup of
// idx in the outputs table.
func (c *Ctx) lookupDominatesNilReturns(h *ssa.Function, idx ssa.Value) bool {
	ei := core.ErrorResultIndex(h.Signature)
	n := 0
	for _, r := range core.ReturnsOf(h) {
		if c.M.RetNonNil(r, ei) {
			continue
		}
		n++
		found := false
		for _, cond := range r.Conds() {
			if !cond.True {
				continue
			}
			if t, ok := core.CommaOk(cond.V); ok {
				if l, ok := t.(*ssa.Lookup); ok && strings.HasSuffix(c.M.ValPath(l.X), ".OutputsValue") && l.Index == idx {
					found = true
				}
			}
		}
		if !found {
			return false
		}
	}
	return n > 0
}
