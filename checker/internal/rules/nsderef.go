package rules

import (
	"go/types"
	"strings"

	"golang.org/x/tools/go/ssa"

	"verifcheck/internal/core"
)

// R-NSDEREF: "applying one namespace leaves references to other namespaces untouched". ApplyNamespace(objects, ns)
// links only the references of namespace ns; the references of every other namespace are still unlinked when it
// returns, and a scope applies its namespaces one after the other. Code that runs as part of ApplyNamespace therefore
// must not use a child Object through a method that requires a linked reference, unless it has established that the
// child is not an unlinked reference.
//
//	linked-only methods: the methods of *RefSchema that panic under `referencedObjectCache == nil` (from the code).
//	obligations: every interface call of such a method on a receiver of static type Object in a function reachable
//	  from an ApplyNamespace method (not following calls into RefSchema's own methods).
//	discharge: on every path to the call a branch established that the receiver is not a *RefSchema (failed comma-ok
//	  assertion) or that the asserted reference's ObjectReady() is true.
func (c *Ctx) ruleNsDeref(rule string) {
	linkedOnly := map[string]bool{}
	var refNamed *types.Named
	for _, fn := range c.M.SortedFuncs(c.scopePkg("schema")) {
		if !strings.HasPrefix(c.M.Key(fn), "schema.RefSchema.") || fn.Signature.Recv() == nil {
			continue
		}
		if p, ok := fn.Signature.Recv().Type().(*types.Pointer); ok {
			if n, ok := p.Elem().(*types.Named); ok {
				refNamed = n
			}
		}
		for _, b := range fn.Blocks {
			if len(b.Instrs) == 0 {
				continue
			}
			if _, isPanic := b.Instrs[len(b.Instrs)-1].(*ssa.Panic); !isPanic {
				continue
			}
			for _, cond := range core.CondsAt(b) {
				x, neq, ok := core.NilCmp(cond.V)
				if ok && cond.True != neq && strings.HasSuffix(c.M.ValPath(x), ".referencedObjectCache") {
					linkedOnly[fn.Name()] = true
				}
			}
		}
	}
	// ... and the methods that call such a method on their own receiver (the guard moved into a helper: `r.requireLink()`)
	for changed := true; changed; {
		changed = false
		for _, fn := range c.M.SortedFuncs(c.scopePkg("schema")) {
			if !strings.HasPrefix(c.M.Key(fn), "schema.RefSchema.") || fn.Signature.Recv() == nil || linkedOnly[fn.Name()] || len(fn.Params) == 0 {
				continue
			}
			for _, b := range fn.Blocks {
				for _, in := range b.Instrs {
					call, ok := in.(*ssa.Call)
					if !ok || len(call.Call.Args) == 0 || call.Call.Args[0] != ssa.Value(fn.Params[0]) {
						continue
					}
					g := core.StaticBody(&call.Call)
					// called on every way through the function: in its entry block
					if g != nil && strings.HasPrefix(c.M.Key(g), "schema.RefSchema.") && linkedOnly[g.Name()] && b == fn.Blocks[0] {
						linkedOnly[fn.Name()] = true
						changed = true
					}
				}
			}
		}
	}
	if refNamed == nil || len(linkedOnly) == 0 {
		c.R.Unresolved(rule, "RefSchema methods that require a linked reference")
		return
	}
	refPtr := types.NewPointer(refNamed)
	var roots []*ssa.Function
	for _, fn := range c.M.SortedFuncs(c.scopePkg("schema")) {
		if fn.Name() == "ApplyNamespace" && fn.Signature.Recv() != nil && !strings.HasPrefix(c.M.Key(fn), "schema.RefSchema.") {
			roots = append(roots, fn)
		}
	}
	inSchema := c.scopePkg("schema")
	reach := c.M.Reachable(roots, func(f *ssa.Function) bool {
		return strings.HasPrefix(c.M.Key(f), "schema.RefSchema.") || !inSchema[f]
	})
	n := 0
	for _, fn := range c.M.SortedFuncs(reach) {
		if strings.HasPrefix(c.M.Key(fn), "schema.RefSchema.") || !inSchema[fn] {
			continue
		}
		cnt := map[string]int{}
		for _, b := range fn.Blocks {
			for _, in := range b.Instrs {
				call, ok := in.(*ssa.Call)
				if !ok || !call.Call.IsInvoke() || !linkedOnly[call.Call.Method.Name()] {
					continue
				}
				recv := call.Call.Value
				named, ok := recv.Type().(*types.Named)
				if !ok || named.Obj().Name() != "Object" {
					continue
				}
				iface, ok := named.Underlying().(*types.Interface)
				if !ok || !types.Implements(refPtr, iface) {
					continue
				}
				n++
				mname := call.Call.Method.Name()
				cnt[mname]++
				k := key(rule, c.M.Key(fn), sprintf("%s.%s() #%d while a namespace is being applied", c.stable(fn, c.M.ValPath(recv)), mname, cnt[mname]))
				est := func(cond core.Cond) bool {
					if tup, ok := core.CommaOk(cond.V); ok {
						if ta, ok := tup.(*ssa.TypeAssert); ok && ta.X == recv && types.Identical(ta.AssertedType, refPtr) {
							return !cond.True
						}
					}
					if rc, ok := cond.V.(*ssa.Call); ok && cond.True && len(rc.Call.Args) == 1 {
						if callee := rc.Call.StaticCallee(); callee != nil && callee.Name() == "ObjectReady" {
							if ex, ok := rc.Call.Args[0].(*ssa.Extract); ok && ex.Index == 0 {
								if ta, ok := ex.Tuple.(*ssa.TypeAssert); ok && ta.X == recv && types.Identical(ta.AssertedType, refPtr) {
									return true
								}
							}
						}
					}
					return false
				}
				if core.MustHold(fn, est)[b] {
					c.R.Ok(rule, k, c.M.InstrPos(call), "use of a child object that needs a linked reference", "on every path the child is known not to be a reference, or a reference whose ObjectReady() is true")
				} else {
					c.R.Bad(rule, k, c.M.InstrPos(call), "a child object is dereferenced while a namespace is being applied",
						"RefSchema."+mname+" panics on a reference that is not linked yet; references of the namespaces not applied so far are in that state, so a container whose child is a reference into another namespace cannot be placed in a scope at all (NewScopeSchema panics), whatever the order of the namespaces")
				}
			}
		}
	}
	c.R.Note("%s: linked-only RefSchema methods: %d; %d functions reachable from %d ApplyNamespace methods; %d uses of a child object", rule, len(linkedOnly), len(reach), len(roots), n)
	c.R.Floor(rule, 1)
}

// R-LOADLINK (C09 "namespaced references ... rebuilt from the description", C14 "applying one namespace leaves
// references to other namespaces untouched"): a loader links the self namespace of what it returns; references into
// other namespaces are linked later by whoever owns those namespaces, so right after loading they are legitimately
// unlinked. ValidateReferences fails exactly when some reference is unlinked - a loader that consults it rejects every
// description that contains a namespaced reference, although the schema it describes was constructed, works and
// describes itself. Obligation: no ValidateReferences method is reachable from a loader.
func (c *Ctx) ruleLoadLink(rule string) {
	entries := c.entryLoad()
	reach := c.M.Reachable(entries, nil)
	k := key(rule, "loaders", "no loader consults ValidateReferences")
	bad := ""
	for _, fn := range c.M.SortedFuncs(reach) {
		if fn.Name() == "ValidateReferences" && fn.Signature.Recv() != nil {
			continue
		}
		for _, e := range c.M.Edges(fn) {
			if e.To.Name() == "ValidateReferences" && e.To.Signature.Recv() != nil && e.Site != nil {
				bad = c.M.InstrPos(e.Site) + " (in " + c.M.Key(fn) + ")"
			}
		}
	}
	if bad == "" {
		c.R.Ok(rule, k, "-", "what the loaders demand of references", sprintf("%d functions reachable from %d loaders; none calls ValidateReferences", len(reach), len(entries)))
	} else {
		c.R.Bad(rule, k, strings.SplitN(bad, " ", 2)[0], "a loader consults ValidateReferences",
			"at "+bad+": references into namespaces other than the loaded scope's own are not linked yet (their owner applies them later), so the loader now rejects the description of every constructible schema that uses a namespaced reference")
	}
}
