package rules

import (
	"go/token"
	"go/types"
	"sort"
	"strings"

	"golang.org/x/tools/go/ssa"

	"verifcheck/internal/core"
)

// R-RUNID (C05: "results are never ... delivered to a different run ID"): the run ID is an opaque token that must be
// passed through unchanged. Every *run-ID position* - a store to a struct field named RunID, the key of a map that
// is keyed by run IDs (a "run table"), an argument bound to a run-ID parameter - must be fed, through identity
// steps only (phis, conversions, local variables, closure captures), by a *run-ID source*: a load of a field named
// RunID, a run-ID parameter, the key of a range over a run table, or the empty string (the protocol's "no run").
// Anything else (another field such as the step or signal ID, a computed string, a call result) is a violation:
// a result or signal would be filed under the wrong run.
// Run-ID parameters and run tables are inferred to a fixpoint from the positions themselves: a parameter whose value
// reaches a run-ID position is a run-ID parameter (so its call sites become positions); a map one of whose keys
// is a run-ID source is a run table (so all its keys become positions).

type runidState struct {
	c        *Ctx
	params   map[*ssa.Parameter]bool
	freevars map[*ssa.FreeVar]bool
	tables   map[*types.Var]bool // map-typed struct fields keyed by run IDs
	fields   map[*types.Var]bool // string fields (other than those called RunID) that only ever receive run IDs
	changed  bool
}

// carries: the field is a RunID field by name, or was found to receive nothing but run IDs.
func (s *runidState) carries(st *types.Struct, i int) bool {
	return isRunIDField(st, i) || (s.fields != nil && s.fields[st.Field(i).Origin()])
}

func isRunIDField(st *types.Struct, i int) bool {
	f := st.Field(i)
	b, ok := f.Type().Underlying().(*types.Basic)
	return f.Name() == "RunID" && ok && b.Kind() == types.String
}

// fieldOfAddr: the struct field a FieldAddr / Field selects.
func fieldOfAddr(v ssa.Value) (*types.Struct, int, bool) {
	switch x := v.(type) {
	case *ssa.FieldAddr:
		st, _ := derefType(x.X.Type()).Underlying().(*types.Struct)
		if st != nil {
			return st, x.Field, true
		}
	case *ssa.Field:
		st, _ := x.X.Type().Underlying().(*types.Struct)
		if st != nil {
			return st, x.Field, true
		}
	}
	return nil, 0, false
}

// tableOf: the struct field holding the map value m (a load of a FieldAddr), if any.
func tableOf(m ssa.Value) *types.Var {
	for i := 0; i < 4; i++ {
		switch x := m.(type) {
		case *ssa.UnOp:
			if x.Op == token.MUL {
				if st, i, ok := fieldOfAddr(x.X); ok {
					return st.Field(i).Origin()
				}
			}
			return nil
		case *ssa.Field:
			st, i, _ := fieldOfAddr(x)
			if st != nil {
				return st.Field(i).Origin()
			}
			return nil
		case *ssa.ChangeType:
			m = x.X
		default:
			return nil
		}
	}
	return nil
}

type runidBase struct {
	v    ssa.Value
	ok   bool
	desc string
}

// bases traces v back through identity steps and classifies what it finds.
func (s *runidState) bases(v ssa.Value, seen map[ssa.Value]bool, depth int) []runidBase {
	if seen[v] || depth > 12 {
		return nil
	}
	seen[v] = true
	switch x := v.(type) {
	case *ssa.Const:
		if str, ok := core.ConstString(x); ok && str == "" {
			return []runidBase{{v, true, "the empty run ID"}}
		}
		return []runidBase{{v, false, "the constant " + x.String()}}
	case *ssa.Parameter:
		if !s.params[x] {
			s.params[x] = true
			s.changed = true
		}
		return []runidBase{{v, true, "run-ID parameter " + x.Name()}}
	case *ssa.FreeVar:
		// the captured variable: continue in the enclosing function at the binding
		if !s.freevars[x] {
			s.freevars[x] = true
			s.changed = true
		}
		fn := x.Parent()
		idx := -1
		for i, fv := range fn.FreeVars {
			if fv == x {
				idx = i
			}
		}
		var out []runidBase
		if parent := fn.Parent(); parent != nil && idx >= 0 {
			for _, b := range parent.Blocks {
				for _, in := range b.Instrs {
					if mc, ok := in.(*ssa.MakeClosure); ok && mc.Fn == ssa.Value(fn) && idx < len(mc.Bindings) {
						out = append(out, s.bases(mc.Bindings[idx], seen, depth+1)...)
					}
				}
			}
		}
		if len(out) == 0 {
			return []runidBase{{v, false, "captured variable " + x.Name() + " with no visible binding"}}
		}
		return out
	case *ssa.Phi:
		var out []runidBase
		for _, e := range x.Edges {
			out = append(out, s.bases(e, seen, depth+1)...)
		}
		return out
	case *ssa.ChangeType:
		return s.bases(x.X, seen, depth+1)
	case *ssa.Convert:
		if bt, ok := x.X.Type().Underlying().(*types.Basic); ok && bt.Info()&types.IsString != 0 {
			return s.bases(x.X, seen, depth+1)
		}
		return []runidBase{{v, false, "a value converted from " + typeStr(x.X.Type())}}
	case *ssa.Alloc:
		// the cell of a local / captured variable: what is stored into it
		var out []runidBase
		for _, r := range *x.Referrers() {
			if st, ok := r.(*ssa.Store); ok && st.Addr == ssa.Value(x) {
				out = append(out, s.bases(st.Val, seen, depth+1)...)
			}
		}
		if len(out) == 0 {
			return []runidBase{{v, true, "a zero-valued local (empty run ID)"}}
		}
		return out
	case *ssa.UnOp:
		if x.Op != token.MUL {
			break
		}
		if st, i, ok := fieldOfAddr(x.X); ok {
			if s.carries(st, i) {
				return []runidBase{{v, true, "a RunID field"}}
			}
			return []runidBase{{v, false, "the field " + st.Field(i).Name()}}
		}
		switch a := x.X.(type) {
		case *ssa.Alloc, *ssa.FreeVar:
			return s.bases(a, seen, depth+1)
		}
	case *ssa.Field:
		if st, i, ok := fieldOfAddr(x); ok {
			if s.carries(st, i) {
				return []runidBase{{v, true, "a RunID field"}}
			}
			return []runidBase{{v, false, "the field " + st.Field(i).Name()}}
		}
	case *ssa.Extract:
		if nx, ok := x.Tuple.(*ssa.Next); ok && x.Index == 1 {
			if rg, ok := nx.Iter.(*ssa.Range); ok {
				if t := tableOf(rg.X); t != nil && s.tables[t] {
					return []runidBase{{v, true, "a key of the run table " + t.Name()}}
				}
				if t := tableOf(rg.X); t != nil {
					return []runidBase{{v, false, "a key of the map " + t.Name() + " (not known to be keyed by run IDs)"}}
				}
			}
		}
	case *ssa.Call:
		return []runidBase{{v, false, "the result of a call to " + core.StaticCalleeName(&x.Call)}}
	case *ssa.BinOp:
		return []runidBase{{v, false, "a computed string (" + x.Op.String() + ")"}}
	}
	return []runidBase{{v, false, "a value of unknown origin (" + v.String() + ")"}}
}

type runidSink struct {
	fn   *ssa.Function
	pos  ssa.Instruction
	v    ssa.Value
	what string
}

func (s *runidState) sinks(fns []*ssa.Function) []runidSink {
	var out []runidSink
	for _, fn := range fns {
		for _, b := range fn.Blocks {
			for _, in := range b.Instrs {
				switch x := in.(type) {
				case *ssa.Store:
					if st, i, ok := fieldOfAddr(x.Addr); ok && s.carries(st, i) {
						out = append(out, runidSink{fn, x, x.Val, "store to a RunID field"})
					}
				case *ssa.MapUpdate:
					if t := tableOf(x.Map); t != nil && s.tables[t] {
						out = append(out, runidSink{fn, x, x.Key, "insertion into the run table " + t.Name()})
					}
				case *ssa.Lookup:
					if t := tableOf(x.X); t != nil && s.tables[t] {
						out = append(out, runidSink{fn, x, x.Index, "lookup in the run table " + t.Name()})
					}
				case ssa.CallInstruction:
					cc := x.Common()
					if bi, ok := cc.Value.(*ssa.Builtin); ok && bi.Name() == "delete" && len(cc.Args) == 2 {
						if t := tableOf(cc.Args[0]); t != nil && s.tables[t] {
							out = append(out, runidSink{fn, x, cc.Args[1], "removal from the run table " + t.Name()})
						}
						continue
					}
					args := cc.Args
					off := 0
					if cc.IsInvoke() {
						off = 1
					}
					for _, g := range s.c.M.Callees(cc) {
						for i, a := range args {
							if i+off < len(g.Params) && s.params[g.Params[i+off]] {
								out = append(out, runidSink{fn, x, a, "argument for the run-ID parameter " + g.Params[i+off].Name() + " of " + s.c.M.Key(g)})
							}
						}
						if mc, ok := cc.Value.(*ssa.MakeClosure); ok {
							for i, bnd := range mc.Bindings {
								if i < len(g.FreeVars) && s.freevars[g.FreeVars[i]] {
									_ = bnd // captured cells are traced from the use side (bases: FreeVar)
								}
							}
						}
					}
				}
			}
		}
	}
	return out
}

// discoverTables: a map field is a run table if one of its key operands is (only) fed by run-ID sources.
func (s *runidState) discoverTables(fns []*ssa.Function) {
	consider := func(m, k ssa.Value) {
		t := tableOf(m)
		if t == nil || s.tables[t] {
			return
		}
		mt, ok := t.Type().Underlying().(*types.Map)
		if !ok {
			return
		}
		if b, ok := mt.Key().Underlying().(*types.Basic); !ok || b.Kind() != types.String {
			return
		}
		// the key must be a definite run ID: RunID-field loads and parameters already known to be run IDs
		if !s.definiteRunID(k) {
			return
		}
		s.tables[t] = true
		s.changed = true
	}
	for _, fn := range fns {
		for _, b := range fn.Blocks {
			for _, in := range b.Instrs {
				switch x := in.(type) {
				case *ssa.MapUpdate:
					consider(x.Map, x.Key)
				case *ssa.Lookup:
					consider(x.X, x.Index)
				}
			}
		}
	}
}

// discoverFields: a string field of a struct of the module (a record that carries a run's particulars to the function
// that runs it) into which nothing but definite run IDs is ever stored carries a run ID, whatever it is called.
func (s *runidState) discoverFields(fns []*ssa.Function) {
	stores := map[*types.Var][]ssa.Value{}
	for _, fn := range fns {
		for _, b := range fn.Blocks {
			for _, in := range b.Instrs {
				st, ok := in.(*ssa.Store)
				if !ok {
					continue
				}
				if str, i, ok := fieldOfAddr(st.Addr); ok && !isRunIDField(str, i) {
					f := str.Field(i)
					if bt, isBasic := f.Type().Underlying().(*types.Basic); isBasic && bt.Kind() == types.String && f.Pkg() != nil && s.c.M.IsRepoPkg(f.Pkg()) {
						stores[f.Origin()] = append(stores[f.Origin()], st.Val)
					}
				}
			}
		}
	}
	for f, vals := range stores {
		if s.fields[f] {
			continue
		}
		all := len(vals) > 0
		for _, v := range vals {
			if !s.definiteRunID(v) {
				all = false
			}
		}
		if all {
			s.fields[f] = true
			s.changed = true
		}
	}
}

// definiteRunID: every base of v is a RunID field load, a known run-ID parameter or a run-table key.
func (s *runidState) definiteRunID(v ssa.Value) bool {
	bs := s.basesNoMark(v)
	if len(bs) == 0 {
		return false
	}
	for _, b := range bs {
		if !b.ok || strings.Contains(b.desc, "empty run ID") {
			return false
		}
	}
	return true
}

// forward: a definite run ID passed as an argument makes the receiving parameter a run-ID parameter.
func (s *runidState) forward(fns []*ssa.Function) {
	for _, fn := range fns {
		for _, b := range fn.Blocks {
			for _, in := range b.Instrs {
				ci, ok := in.(ssa.CallInstruction)
				if !ok {
					continue
				}
				cc := ci.Common()
				off := 0
				if cc.IsInvoke() {
					off = 1
				}
				callees := s.c.M.Callees(cc)
				if len(callees) == 0 {
					continue
				}
				for i, a := range cc.Args {
					if bt, ok := a.Type().Underlying().(*types.Basic); !ok || bt.Kind() != types.String {
						continue
					}
					if !s.definiteRunID(a) {
						continue
					}
					for _, g := range callees {
						if i+off < len(g.Params) && !s.params[g.Params[i+off]] {
							s.params[g.Params[i+off]] = true
							s.changed = true
						}
					}
				}
			}
		}
	}
}

// basesNoMark: like bases but without classifying parameters (used for table discovery).
func (s *runidState) basesNoMark(v ssa.Value) []runidBase {
	tmp := &runidState{c: s.c, params: map[*ssa.Parameter]bool{}, freevars: map[*ssa.FreeVar]bool{}, tables: s.tables, fields: s.fields}
	for p := range s.params {
		tmp.params[p] = true
	}
	bs := tmp.bases(v, map[ssa.Value]bool{}, 0)
	var out []runidBase
	for _, b := range bs {
		if p, ok := b.v.(*ssa.Parameter); ok && !s.params[p] {
			b.ok = false
			b.desc = "parameter " + p.Name()
		}
		out = append(out, b)
	}
	return out
}

func (c *Ctx) ruleRunID(rule string, fnset map[*ssa.Function]bool) {
	fns := c.M.SortedFuncs(fnset)
	s := &runidState{c: c, params: map[*ssa.Parameter]bool{}, freevars: map[*ssa.FreeVar]bool{}, tables: map[*types.Var]bool{}, fields: map[*types.Var]bool{}}
	var sinks []runidSink
	for iter := 0; iter < 12; iter++ {
		s.changed = false
		s.discoverTables(fns)
		s.discoverFields(fns)
		s.forward(fns)
		sinks = s.sinks(fns)
		for _, sk := range sinks {
			s.bases(sk.v, map[ssa.Value]bool{}, 0)
		}
		if !s.changed {
			break
		}
	}
	var tnames []string
	for t := range s.tables {
		tnames = append(tnames, t.Name())
	}
	sort.Strings(tnames)
	var pnames []string
	for p := range s.params {
		pnames = append(pnames, c.M.Key(p.Parent())+"."+p.Name())
	}
	sort.Strings(pnames)
	c.R.Note("%s: run tables: %s; run-ID parameters: %s", rule, strings.Join(tnames, ", "), strings.Join(pnames, ", "))
	cnt := map[string]int{}
	for _, sk := range sinks {
		base := key(rule, c.M.Key(sk.fn), sk.what)
		cnt[base]++
		k := sprintf("%s #%d", base, cnt[base])
		var bad, good []string
		for _, b := range s.bases(sk.v, map[ssa.Value]bool{}, 0) {
			if b.ok {
				good = append(good, b.desc)
			} else {
				bad = append(bad, b.desc)
			}
		}
		// the empty run ID is only right where no run ID is at hand: in a function that has a run-ID parameter, an
		// empty-ID store must sit where that parameter is known to be empty
		for _, b := range s.bases(sk.v, map[ssa.Value]bool{}, 0) {
			if b.ok && strings.Contains(b.desc, "empty run ID") {
				for _, p := range sk.fn.Params {
					if !s.params[p] {
						continue
					}
					p := p
					hold := core.MustHold(sk.fn, func(cond core.Cond) bool {
						bo, ok := cond.V.(*ssa.BinOp)
						if !ok || (bo.Op != token.EQL && bo.Op != token.NEQ) {
							return false
						}
						isEq := (bo.Op == token.EQL) == cond.True
						if !isEq {
							return false
						}
						for _, pair := range [][2]ssa.Value{{bo.X, bo.Y}, {bo.Y, bo.X}} {
							if pair[0] == ssa.Value(p) || s.c.M.ValPath(pair[0]) == p.Name() {
								if str, ok := core.ConstString(pair[1]); ok && str == "" {
									return true
								}
							}
						}
						return false
					})
					if !hold[sk.pos.Block()] {
						bad = append(bad, "the empty run ID although the run-ID parameter "+p.Name()+" is at hand and not known to be empty")
					}
				}
			}
		}
		good = uniqStrings(good)
		bad = uniqStrings(bad)
		if len(bad) == 0 {
			c.R.Ok(rule, k, c.M.InstrPos(sk.pos), sk.what, "fed, through identity steps only, by: "+strings.Join(good, "; "))
		} else {
			c.R.Bad(rule, k, c.M.InstrPos(sk.pos), "a run-ID position is fed by something that is not a run ID: "+strings.Join(bad, "; "),
				sk.what+" must receive the run ID unchanged (a RunID field, a run-ID parameter, a run-table key or the empty ID); here it can be "+strings.Join(bad, "; ")+": a result, signal or error would be filed under, or looked up by, the wrong run")
		}
	}
	if len(tnames) == 0 {
		c.R.Unresolved(rule, "no map keyed by run IDs found (the client's pending-result table was expected)")
	}
}

func uniqStrings(in []string) []string {
	seen := map[string]bool{}
	var out []string
	for _, s := range in {
		if !seen[s] {
			seen[s] = true
			out = append(out, s)
		}
	}
	sort.Strings(out)
	return out
}
