package rules

import (
	"go/types"
	"sort"
	"strings"

	"golang.org/x/tools/go/ssa"

	"verifcheck/internal/core"
)

// R-TABLE (C09): the hand-written meta-schema tables (package-level initialisers) must agree with the Go structs
// they describe. The tables are evaluated abstractly from the SSA of the package initialiser.
//  T1  keys(object) = json tags of T's struct (inline-embedded structs flattened), both directions
//  T3  the keys of the value-type one-of are exactly the TypeID constants, and the object each key references is
//      struct-mapped to a type whose TypeID() can return that constant; the map-key one-of is a subset
//  T5  the meta rows for the value bounds of the integer / float kinds carry no bounds themselves (a constructible
//      schema with a negative bound must be able to describe itself)

type metaObject struct {
	id    string
	typ   types.Type // T of NewStructMappedObjectSchema[T]
	props map[string]ssa.Value
	call  *ssa.Call
}

// metaObjects: every NewStructMappedObjectSchema[T](id, map) call in the schema package initialiser.
func (c *Ctx) metaObjects(rule string) []*metaObject {
	init := c.M.FuncByKey["schema.init"]
	if init == nil {
		c.R.Unresolved(rule, "package initialiser of schema")
		return nil
	}
	var out []*metaObject
	for _, b := range init.Blocks {
		for _, in := range b.Instrs {
			call, ok := in.(*ssa.Call)
			if !ok {
				continue
			}
			fn, ok := call.Call.Value.(*ssa.Function)
			if !ok || fn.Origin() == nil || fn.Origin().Name() != "NewStructMappedObjectSchema" || len(fn.TypeArgs()) != 1 || len(call.Call.Args) != 2 {
				continue
			}
			id, _ := core.ConstString(call.Call.Args[0])
			mo := &metaObject{id: id, typ: fn.TypeArgs()[0], props: map[string]ssa.Value{}, call: call}
			if mm, ok := call.Call.Args[1].(*ssa.MakeMap); ok {
				for _, r := range *mm.Referrers() {
					if mu, ok := r.(*ssa.MapUpdate); ok && mu.Map == ssa.Value(mm) {
						if k, ok := core.ConstString(mu.Key); ok {
							mo.props[k] = mu.Value
						} else {
							c.R.Bad(rule, key(rule, "meta object "+id, "non-constant property key"), c.M.InstrPos(mu), "meta table built with a non-constant key", "the table cannot be evaluated statically (undecided = fail)")
						}
					}
				}
			} else {
				c.R.Bad(rule, key(rule, "meta object "+id, "property table is not a map literal"), c.M.InstrPos(call), "meta table not built from a literal", "the table cannot be evaluated statically (undecided = fail)")
			}
			out = append(out, mo)
		}
	}
	sort.Slice(out, func(i, j int) bool { return out[i].id < out[j].id })
	return out
}

// jsonTagsOf: json tags of the struct behind t, flattening embedded structs tagged ",inline".
func jsonTagsOf(t types.Type) map[string]*types.Var {
	out := map[string]*types.Var{}
	if p, ok := t.(*types.Pointer); ok {
		t = p.Elem()
	}
	st, ok := t.Underlying().(*types.Struct)
	if !ok {
		return out
	}
	for i := 0; i < st.NumFields(); i++ {
		f := st.Field(i)
		tag := jsonTag(st, i)
		raw := st.Tag(i)
		if f.Embedded() && (tag == "" && strings.Contains(raw, ",inline") || tag == "") {
			for k, v := range jsonTagsOf(f.Type()) {
				out[k] = v
			}
			continue
		}
		if tag != "" && tag != "-" {
			out[tag] = f
		}
	}
	return out
}

// resolveInit follows loads of package-level variables to the value stored by the initialiser.
func (c *Ctx) resolveInit(v ssa.Value, depth int) ssa.Value {
	if depth > 5 {
		return v
	}
	if ld, ok := v.(*ssa.UnOp); ok && ld.Op.String() == "*" {
		if g, ok := ld.X.(*ssa.Global); ok {
			init := c.M.FuncByKey["schema.init"]
			for _, b := range init.Blocks {
				for _, in := range b.Instrs {
					if st, ok := in.(*ssa.Store); ok && st.Addr == ssa.Value(g) {
						return c.resolveInit(st.Val, depth+1)
					}
				}
			}
		}
	}
	if mi, ok := v.(*ssa.MakeInterface); ok {
		return c.resolveInit(mi.X, depth+1)
	}
	if ci, ok := v.(*ssa.ChangeInterface); ok {
		return c.resolveInit(ci.X, depth+1)
	}
	return v
}

func calleeOriginName(call *ssa.Call) string {
	fn, ok := call.Call.Value.(*ssa.Function)
	if !ok {
		return ""
	}
	if o := fn.Origin(); o != nil {
		return o.Name()
	}
	return fn.Name()
}

// oneOfTable: for NewOneOfStringSchema[...](map{key: NewRefSchema(id, ...)}, ...) returns key -> referenced object id.
func (c *Ctx) oneOfTable(v ssa.Value) (map[string]string, bool) {
	v = c.resolveInit(v, 0)
	call, ok := v.(*ssa.Call)
	if !ok || !strings.HasPrefix(calleeOriginName(call), "NewOneOf") || len(call.Call.Args) < 1 {
		return nil, false
	}
	mm, ok := call.Call.Args[0].(*ssa.MakeMap)
	if !ok {
		return nil, false
	}
	out := map[string]string{}
	for _, r := range *mm.Referrers() {
		mu, ok := r.(*ssa.MapUpdate)
		if !ok || mu.Map != ssa.Value(mm) {
			continue
		}
		k, ok := core.ConstString(mu.Key)
		if !ok {
			return nil, false
		}
		rv := c.resolveInit(mu.Value, 0)
		rc, ok := rv.(*ssa.Call)
		if !ok || calleeOriginName(rc) != "NewRefSchema" {
			return nil, false
		}
		id, ok := core.ConstString(rc.Call.Args[0])
		if !ok {
			return nil, false
		}
		out[k] = id
	}
	return out, true
}

func (c *Ctx) ruleTable(rule string) {
	objs := c.metaObjects(rule)
	byID := map[string]*metaObject{}
	for _, o := range objs {
		byID[o.id] = o
	}
	// T1
	for _, o := range objs {
		tags := jsonTagsOf(o.typ)
		tname := typeStr(o.typ)
		var tagNames []string
		for t := range tags {
			tagNames = append(tagNames, t)
		}
		sort.Strings(tagNames)
		for _, t := range tagNames {
			k := key(rule, "meta object "+o.id, "field "+tname+" `json:\""+t+"\"` has a table row")
			if _, ok := o.props[t]; ok {
				c.R.Ok(rule, k, c.M.InstrPos(o.call), "struct field described by the meta-schema", "row \""+t+"\" present")
			} else {
				c.R.Bad(rule, k, c.M.InstrPos(o.call), "field "+tags[t].Name()+" (json \""+t+"\") of "+tname+" has no row in meta object "+o.id,
					"the field is silently dropped when a schema describes itself; a schema rebuilt from the description loses it")
			}
		}
		var propNames []string
		for p := range o.props {
			propNames = append(propNames, p)
		}
		sort.Strings(propNames)
		for _, p := range propNames {
			k := key(rule, "meta object "+o.id, "row \""+p+"\" maps to a field of "+tname)
			if _, ok := tags[p]; ok {
				c.R.Ok(rule, k, c.M.InstrPos(o.call), "meta row backed by a struct field", "json tag \""+p+"\" exists on "+tname)
			} else if f := structFieldByName(o.typ, p); f != nil {
				c.R.Ok(rule, k, c.M.InstrPos(o.call), "meta row backed by a struct field", "field named "+p+" exists on "+tname)
			} else {
				c.R.Bad(rule, k, c.M.InstrPos(o.call), "row \""+p+"\" of meta object "+o.id+" has no field in "+tname, "NewStructMappedObjectSchema panics at package initialisation, or the value can never be described")
			}
		}
	}
	// T3
	typeIDConsts := map[string]bool{}
	for _, name := range c.M.Types["schema"].Scope().Names() {
		if cst, ok := c.M.Types["schema"].Scope().Lookup(name).(*types.Const); ok {
			if n, ok := cst.Type().(*types.Named); ok && n.Obj().Name() == "TypeID" {
				typeIDConsts[strings.Trim(cst.Val().ExactString(), "\"")] = true
			}
		}
	}
	init := c.M.FuncByKey["schema.init"]
	for _, gname := range []string{"valueType", "mapKeyType"} {
		var g *ssa.Global
		if m, ok := c.M.SSA["schema"].Members[gname].(*ssa.Global); ok {
			g = m
		}
		if g == nil {
			c.R.Unresolved(rule, "meta one-of "+gname)
			continue
		}
		var stored ssa.Value
		for _, b := range init.Blocks {
			for _, in := range b.Instrs {
				if st, ok := in.(*ssa.Store); ok && st.Addr == ssa.Value(g) {
					stored = st.Val
				}
			}
		}
		table, ok := c.oneOfTable(stored)
		if !ok {
			c.R.Bad(rule, key(rule, "meta one-of "+gname, "not evaluable"), "-", "meta one-of "+gname+" cannot be evaluated statically", "undecided = fail")
			continue
		}
		var keys []string
		for k := range table {
			keys = append(keys, k)
		}
		sort.Strings(keys)
		for _, k := range keys {
			ok2 := key(rule, "meta one-of "+gname, "key \""+k+"\" is a TypeID whose object is mapped to a type reporting it")
			o := byID[table[k]]
			switch {
			case !typeIDConsts[k]:
				c.R.Bad(rule, ok2, "-", "one-of key \""+k+"\" is not a TypeID constant", "")
			case o == nil:
				c.R.Bad(rule, ok2, "-", "one-of key \""+k+"\" references object "+table[k]+" which is not a struct-mapped meta object", "")
			default:
				named := structOf(o.typ)
				ids, _ := c.typeIDsAll(named)
				found := false
				for _, id := range ids {
					if id == k {
						found = true
					}
				}
				if found {
					c.R.Ok(rule, ok2, c.M.InstrPos(o.call), "type_id dispatch entry", "object "+o.id+" is mapped to "+typeStr(o.typ)+", whose TypeID() can return \""+k+"\"")
				} else {
					c.R.Bad(rule, ok2, c.M.InstrPos(o.call), "type_id \""+k+"\" dispatches to "+typeStr(o.typ)+" whose TypeID() never returns it",
						"a description of that kind is rebuilt as a different kind")
				}
			}
		}
		if gname == "valueType" {
			var ids []string
			for id := range typeIDConsts {
				ids = append(ids, id)
			}
			sort.Strings(ids)
			for _, id := range ids {
				k := key(rule, "meta one-of "+gname, "TypeID \""+id+"\" has an entry")
				if _, ok := table[id]; ok {
					c.R.Ok(rule, k, "-", "kind present in the value-type one-of", "entry present")
				} else {
					c.R.Bad(rule, k, "-", "kind \""+id+"\" is missing from the value-type one-of", "schemas of this kind cannot be carried in a description (hello message): rebuilding fails or drops them")
				}
			}
		}
	}
	// T5
	for _, o := range objs {
		named := structOf(o.typ)
		if named == nil {
			continue
		}
		ids, _ := c.typeIDsAll(named)
		isNum := false
		for _, id := range ids {
			if id == "integer" || id == "float" {
				isNum = true
			}
		}
		if !isNum {
			continue
		}
		for _, row := range []string{"min", "max"} {
			pv, ok := o.props[row]
			if !ok {
				continue
			}
			k := key(rule, "meta object "+o.id, "row \""+row+"\" accepts every bound the constructor accepts")
			pc, ok := c.resolveInit(pv, 0).(*ssa.Call)
			if !ok || calleeOriginName(pc) != "NewPropertySchema" {
				c.R.Bad(rule, k, c.M.InstrPos(o.call), "row not built by NewPropertySchema", "undecided = fail")
				continue
			}
			tc, ok := c.resolveInit(pc.Call.Args[0], 0).(*ssa.Call)
			if !ok || (calleeOriginName(tc) != "NewIntSchema" && calleeOriginName(tc) != "NewFloatSchema") {
				c.R.Bad(rule, k, c.M.InstrPos(pc), "value bound described by a non-numeric type", "")
				continue
			}
			bounded := false
			for _, a := range tc.Call.Args[:2] {
				if !core.IsNilConst(a) {
					bounded = true
				}
			}
			if bounded {
				c.R.Bad(rule, k, c.M.InstrPos(tc), "the meta-schema restricts the "+row+" bound of "+o.id+" although the constructor accepts any value",
					"a schema built with a bound outside that restriction (e.g. NewIntSchema(-5, ...)) cannot describe itself: SelfSerialize fails")
			} else {
				c.R.Ok(rule, k, c.M.InstrPos(tc), "meta row for a value bound", "unbounded numeric type")
			}
		}
	}
	c.R.Floor(rule, 100)
}

// typeIDsAll: the TypeID constants the TypeID() method of named can return (all constant returns; for the generic
// one-of both instantiations' constants).
func (c *Ctx) typeIDsAll(named *types.Named) ([]string, bool) {
	if named == nil {
		return nil, false
	}
	f := c.methodFn(named, "TypeID")
	if f == nil {
		return nil, false
	}
	var out []string
	for _, r := range core.ReturnsOf(f) {
		if s, ok := core.ConstString(core.RetVal(r, 0)); ok {
			out = append(out, s)
		}
	}
	return out, len(out) > 0
}
