package rules

import (
	"go/constant"
	"go/types"
	"sort"
	"strings"

	"golang.org/x/tools/go/ssa"

	"verifcheck/internal/core"
)

// ---------- critical sections ----------

// sectionOf returns the Lock call that opened the critical section of `lock` in which `at` executes, or nil.
// `at` must be reachable from that Lock without crossing an Unlock/Lock of the same mutex, and the Lock must dominate it.
func (c *Ctx) sectionOf(fn *ssa.Function, at ssa.Instruction, lock string) ssa.Instruction {
	var best ssa.Instruction
	for _, b := range fn.Blocks {
		for _, in := range b.Instrs {
			call, ok := in.(*ssa.Call)
			if !ok || mutexOp(&call.Call) != "lock" || c.M.AddrPath(call.Call.Args[0]) != lock {
				continue
			}
			if !instrDominates(call, at) {
				continue
			}
			if c.reachesWithoutUnlock(call, at, lock) {
				if best == nil || instrDominates(best, call) {
					best = call
				}
			}
		}
	}
	return best
}

func (c *Ctx) reachesWithoutUnlock(from, to ssa.Instruction, lock string) bool {
	crosses := func(in ssa.Instruction) bool {
		if call, ok := in.(*ssa.Call); ok {
			op := mutexOp(&call.Call)
			if (op == "unlock" || op == "lock") && c.M.AddrPath(call.Call.Args[0]) == lock {
				return true
			}
		}
		return false
	}
	seen := map[*ssa.BasicBlock]bool{}
	var walk func(b *ssa.BasicBlock, start int) bool
	walk = func(b *ssa.BasicBlock, start int) bool {
		for i := start; i < len(b.Instrs); i++ {
			in := b.Instrs[i]
			if in == to {
				return true
			}
			if crosses(in) {
				return false
			}
		}
		for _, s := range b.Succs {
			if seen[s] {
				continue
			}
			seen[s] = true
			if walk(s, 0) {
				return true
			}
		}
		return false
	}
	b := from.Block()
	idx := 0
	for i, in := range b.Instrs {
		if in == from {
			idx = i + 1
		}
	}
	return walk(b, idx)
}

// lockOfStructAt: the mutex path of the struct that owns field address fa, if held at instruction at.
func (c *Ctx) heldMutexFor(fn *ssa.Function, at ssa.Instruction, base ssa.Value, mutex string) (string, bool) {
	lp := c.M.ValPath(base) + "." + mutex
	for _, l := range c.lockedAt(fn, at) {
		if l == lp {
			return lp, true
		}
	}
	return lp, false
}

// ---------- R-ATOMIC ----------

// ruleAtomic: (i) a map insert that is controlled by a presence lookup of the same guarded map must share the
// lookup's critical section (check-then-insert); (ii) the client's running flag is cleared only in a critical
// section that also scans the pending table, and set only in the section that tested it and starts the read loop.
func (c *Ctx) ruleAtomic(rule string) {
	targets := c.lockTargets("atp", "schema")
	for _, fn := range c.M.Funcs {
		for _, b := range fn.Blocks {
			for _, in := range b.Instrs {
				mu, ok := in.(*ssa.MapUpdate)
				if !ok {
					continue
				}
				ld, ok := mu.Map.(*ssa.UnOp)
				if !ok {
					continue
				}
				fa, ok := ld.X.(*ssa.FieldAddr)
				if !ok {
					continue
				}
				sn := structOf(fa.X.Type())
				if sn == nil {
					continue
				}
				mutex := ""
				for t, m := range targets {
					if t.Obj() == sn.Obj() {
						mutex = m
					}
				}
				if mutex == "" {
					continue
				}
				mapPath := c.M.ValPath(mu.Map)
				// controlling presence lookups of the same map
				for _, cond := range core.CondsAt(b) {
					t, ok := core.CommaOk(cond.V)
					if !ok {
						continue
					}
					lk, ok := t.(*ssa.Lookup)
					if !ok || c.M.ValPath(lk.X) != mapPath {
						continue
					}
					tname := sn.Obj().Pkg().Name() + "." + sn.Obj().Name()
					k := key(rule, c.M.Key(fn), "check-then-insert on "+tname+"."+fieldName(fa.X.Type(), fa.Field))
					lock := c.M.ValPath(fa.X) + "." + mutex
					s1 := c.sectionOf(fn, lk, lock)
					s2 := c.sectionOf(fn, mu, lock)
					pos := c.M.InstrPos(mu)
					switch {
					case s1 == nil || s2 == nil:
						c.R.Bad(rule, k, pos, "presence check and insert on a guarded table", "the lookup or the insert is not inside a critical section of "+lock)
					case s1 != s2:
						c.R.Bad(rule, k, pos, "presence check and insert on a guarded table are in different critical sections",
							"the lookup at "+c.M.InstrPos(lk)+" and the insert happen under two separate acquisitions of "+lock+
								": two callers can both miss and both insert (the entry is created twice; the loser's data is orphaned)")
					default:
						c.R.Ok(rule, k, pos, "presence check and insert on a guarded table", "lookup and insert share one critical section (same Lock, no Unlock between)")
					}
				}
			}
		}
	}
	ro := c.roles()
	if !ro.ok {
		return
	}
	mutex := ro.mutexOf[ro.clientT]
	for _, fn := range c.M.Funcs {
		for _, b := range fn.Blocks {
			for _, in := range b.Instrs {
				st, ok := in.(*ssa.Store)
				if !ok {
					continue
				}
				fa, ok := st.Addr.(*ssa.FieldAddr)
				if !ok || structOf(fa.X.Type()) == nil || structOf(fa.X.Type()).Obj() != ro.clientT.Obj() || fieldName(fa.X.Type(), fa.Field) != ro.runFlag {
					continue
				}
				if _, isAlloc := fa.X.(*ssa.Alloc); isAlloc {
					continue
				}
				cst, ok := st.Val.(*ssa.Const)
				if !ok || cst.Value == nil || cst.Value.Kind() != constant.Bool {
					c.R.Bad(rule, key(rule, c.M.Key(fn), "running flag store of a non-constant"), c.M.InstrPos(st), "running flag assigned a computed value", "cannot decide the hand-over protocol for a non-constant store")
					continue
				}
				lock := c.M.ValPath(fa.X) + "." + mutex
				sec := c.sectionOf(fn, st, lock)
				pos := c.M.InstrPos(st)
				if !constant.BoolVal(cst.Value) {
					k := key(rule, c.M.Key(fn), "read-loop stop decision and running-flag clear")
					if sec == nil {
						c.R.Bad(rule, k, pos, "running flag cleared outside a critical section", "no acquisition of "+lock+" in this function dominates the store")
						continue
					}
					// the same section must scan the pending table
					found := false
					for _, b2 := range fn.Blocks {
						for _, in2 := range b2.Instrs {
							rg, ok := in2.(*ssa.Range)
							if !ok {
								continue
							}
							if strings.HasSuffix(c.M.ValPath(rg.X), "."+ro.pending) && c.sectionOf(fn, rg, lock) == sec {
								found = true
							}
						}
					}
					if found {
						c.R.Ok(rule, k, pos, "running flag cleared", "the critical section that clears the flag also scans the pending table (decides idle, or fails every waiter): decision and flag update are atomic")
					} else {
						c.R.Bad(rule, k, pos, "running flag cleared in a critical section that does not look at the pending table",
							"the decision to stop (no entry pending / all waiters failed) is taken in another critical section: an Execute registering in between sees the loop as running and waits forever")
					}
				} else {
					k := key(rule, c.M.Key(fn), "running-flag test, set and read-loop start")
					okTest := false
					for _, cond := range core.CondsAt(b) {
						if ld, ok := cond.V.(*ssa.UnOp); ok {
							if strings.HasSuffix(c.M.AddrPath(ld.X), "."+ro.runFlag) && !cond.True && c.sectionOf(fn, ld, lock) == sec && sec != nil {
								okTest = true
							}
						}
					}
					goIn := false
					for _, b2 := range fn.Blocks {
						for _, in2 := range b2.Instrs {
							if g, ok := in2.(*ssa.Go); ok && sec != nil && c.sectionOf(fn, g, lock) == sec && b2 == b {
								goIn = true
							}
						}
					}
					if okTest && goIn {
						c.R.Ok(rule, k, pos, "running flag set", "tested, set and the read loop started within one critical section")
					} else {
						c.R.Bad(rule, k, pos, "running flag set outside the critical section that tested it / starts the loop",
							"two Execute calls can both see the flag unset and start two read loops on one stream")
					}
				}
			}
		}
	}
}

// ---------- R-MUSTPASS: every exit of the read loop has cleared the running flag ----------

func (c *Ctx) isFlagClear(in ssa.Instruction, ro *atpRoles) bool {
	st, ok := in.(*ssa.Store)
	if !ok {
		return false
	}
	fa, ok := st.Addr.(*ssa.FieldAddr)
	if !ok || structOf(fa.X.Type()) == nil || structOf(fa.X.Type()).Obj() != ro.clientT.Obj() || fieldName(fa.X.Type(), fa.Field) != ro.runFlag {
		return false
	}
	cst, ok := st.Val.(*ssa.Const)
	return ok && cst.Value != nil && cst.Value.Kind() == constant.Bool && !constant.BoolVal(cst.Value)
}

// clearSummary: "all": every return happens after a flag clear; "iftrue": every `return true` does.
func (c *Ctx) clearSummary(fn *ssa.Function, ro *atpRoles, memo map[*ssa.Function]string, depth int) string {
	if v, ok := memo[fn]; ok {
		return v
	}
	memo[fn] = ""
	if depth > 6 {
		return ""
	}
	states := c.clearFlow(fn, ro, memo, depth, false)
	all, iftrue := true, true
	rets := core.ReturnsOf(fn)
	if len(rets) == 0 {
		all, iftrue = false, false
	}
	for _, r := range rets {
		st := c.stateBefore(fn, r, states, ro, memo, depth, false)
		if !st {
			all = false
			if len(r.Results) == 1 {
				if cst, ok := core.RetVal(r, 0).(*ssa.Const); ok && cst.Value != nil && cst.Value.Kind() == constant.Bool && !constant.BoolVal(cst.Value) {
					continue
				}
			}
			iftrue = false
		}
	}
	res := ""
	if all {
		res = "all"
	} else if iftrue && fn.Signature.Results().Len() == 1 {
		res = "iftrue"
	}
	memo[fn] = res
	return res
}

func (c *Ctx) clearTransfer(in ssa.Instruction, st bool, ro *atpRoles, memo map[*ssa.Function]string, depth int, killOnDecode bool) bool {
	if c.isFlagClear(in, ro) {
		return true
	}
	if call, ok := in.(*ssa.Call); ok {
		if killOnDecode && strings.HasSuffix(core.StaticCalleeName(&call.Call), "cbor/v2.Decoder).Decode") {
			return false
		}
		cs := c.M.Callees(&call.Call)
		if len(cs) == 1 && c.clearSummary(cs[0], ro, memo, depth+1) == "all" {
			return true
		}
	}
	return st
}

func (c *Ctx) clearFlow(fn *ssa.Function, ro *atpRoles, memo map[*ssa.Function]string, depth int, killOnDecode bool) []bool {
	n := len(fn.Blocks)
	in := make([]bool, n)
	out := make([]bool, n)
	for i := range in {
		in[i], out[i] = true, true
	}
	if n > 0 {
		in[0] = false
	}
	for iter, changed := 0, true; changed && iter < 50; iter++ {
		changed = false
		for _, b := range fn.Blocks {
			st := b.Index != 0
			if len(b.Preds) == 0 {
				st = false
			}
			for _, p := range b.Preds {
				e := out[p.Index]
				if len(p.Instrs) > 0 {
					if ifi, ok := p.Instrs[len(p.Instrs)-1].(*ssa.If); ok && p.Succs[0] != p.Succs[1] {
						// `if handler(msg) { ... }` where handler clears whenever it returns true
						if call, ok := ifi.Cond.(*ssa.Call); ok && p.Succs[0] == b {
							if cs := c.M.Callees(&call.Call); len(cs) == 1 && c.clearSummary(cs[0], ro, memo, depth+1) == "iftrue" {
								e = true
							}
						}
					}
				}
				st = st && e
			}
			if b.Index == 0 {
				st = false
			}
			if st != in[b.Index] {
				in[b.Index] = st
				changed = true
			}
			o := st
			for _, ins := range b.Instrs {
				o = c.clearTransfer(ins, o, ro, memo, depth, killOnDecode)
			}
			if o != out[b.Index] {
				out[b.Index] = o
				changed = true
			}
		}
	}
	return in
}

func (c *Ctx) stateBefore(fn *ssa.Function, at ssa.Instruction, in []bool, ro *atpRoles, memo map[*ssa.Function]string, depth int, killOnDecode bool) bool {
	b := at.Block()
	st := in[b.Index]
	for _, ins := range b.Instrs {
		if ins == at {
			break
		}
		st = c.clearTransfer(ins, st, ro, memo, depth, killOnDecode)
	}
	return st
}

func (c *Ctx) ruleMustPass(rule string) {
	ro := c.roles()
	if !ro.ok {
		return
	}
	memo := map[*ssa.Function]string{}
	fn := ro.readLoop
	states := c.clearFlow(fn, ro, memo, 0, true)
	rets := core.ReturnsOf(fn)
	sort.Slice(rets, func(i, j int) bool { return rets[i].Pos() < rets[j].Pos() })
	for i, r := range rets {
		k := key(rule, c.M.Key(fn), sprintf("exit#%d (%s)", i+1, c.exitDesc(r)))
		if c.stateBefore(fn, r, states, ro, memo, 0, true) {
			c.R.Ok(rule, k, c.M.InstrPos(r), "read-loop exit", "on every path to this exit the running flag was cleared (under the client mutex) after the last message was read")
		} else {
			c.R.Bad(rule, k, c.M.InstrPos(r), "read-loop exit that leaves the running flag set",
				"some path reaches this return without clearing the running flag since the last decode: pending and later Execute calls believe a reader exists and block forever")
		}
	}
	c.R.Floor(rule, 2)
}

// exitDesc describes an exit by the call that precedes it (position free).
func (c *Ctx) exitDesc(r *ssa.Return) string {
	b := r.Block()
	for i := len(b.Instrs) - 1; i >= 0; i-- {
		if call, ok := b.Instrs[i].(*ssa.Call); ok {
			if cs := c.M.Callees(&call.Call); len(cs) == 1 {
				return "after " + c.M.Key(cs[0])
			}
		}
	}
	if len(b.Preds) == 1 {
		p := b.Preds[0]
		if ifi, ok := p.Instrs[len(p.Instrs)-1].(*ssa.If); ok {
			if call, ok := ifi.Cond.(*ssa.Call); ok {
				if cs := c.M.Callees(&call.Call); len(cs) == 1 {
					return "when " + c.M.Key(cs[0]) + " is " + map[bool]string{true: "true", false: "false"}[p.Succs[0] == b]
				}
			}
		}
	}
	return "return"
}

// ---------- R-WG ----------

type wgRef struct {
	structT *types.Named
	field   string
}

func (c *Ctx) wgOfCall(cc *ssa.CallCommon, method string) (wgRef, bool) {
	if core.StaticCalleeName(cc) != "(*sync.WaitGroup)."+method || len(cc.Args) == 0 {
		return wgRef{}, false
	}
	v := cc.Args[0]
	// &x.wg  or  load of x.wg (pointer field)
	if fa, ok := v.(*ssa.FieldAddr); ok {
		return wgRef{structOf(fa.X.Type()), fieldName(fa.X.Type(), fa.Field)}, true
	}
	if ld, ok := v.(*ssa.UnOp); ok {
		if fa, ok := ld.X.(*ssa.FieldAddr); ok {
			return wgRef{structOf(fa.X.Type()), fieldName(fa.X.Type(), fa.Field)}, true
		}
	}
	return wgRef{}, true
}

func sameWG(a, b wgRef) bool {
	return a.structT != nil && b.structT != nil && a.structT.Obj() == b.structT.Obj() && a.field == b.field
}

// doneCalls lists WaitGroup.Done calls in fn and its synchronous callees (including deferred closures).
func (c *Ctx) doneRefs(fn *ssa.Function) []wgRef {
	var out []wgRef
	stopGo := func(f *ssa.Function) bool { return false }
	_ = stopGo
	seen := map[*ssa.Function]bool{}
	var walk func(f *ssa.Function)
	walk = func(f *ssa.Function) {
		if seen[f] {
			return
		}
		seen[f] = true
		for _, b := range f.Blocks {
			for _, in := range b.Instrs {
				ci, ok := in.(ssa.CallInstruction)
				if !ok {
					continue
				}
				if _, isGo := in.(*ssa.Go); isGo {
					continue
				}
				if w, ok := c.wgOfCall(ci.Common(), "Done"); ok {
					out = append(out, w)
				}
				for _, callee := range c.M.Callees(ci.Common()) {
					walk(callee)
				}
			}
		}
	}
	walk(fn)
	return out
}

// mustDone: every return of fn is preceded by a Done on w (a deferred Done, a deferred closure that must-Done, a direct call, or a callee that must-Done).
func (c *Ctx) mustDone(fn *ssa.Function, w wgRef, depth int) bool {
	if depth > 6 {
		return false
	}
	isDone := func(ci ssa.CallInstruction) bool {
		if x, ok := c.wgOfCall(ci.Common(), "Done"); ok && sameWG(x, w) {
			return true
		}
		for _, callee := range c.M.Callees(ci.Common()) {
			if len(c.M.Callees(ci.Common())) == 1 && c.mustDone(callee, w, depth+1) {
				return true
			}
		}
		return false
	}
	for _, b := range fn.Blocks {
		for _, in := range b.Instrs {
			if d, ok := in.(*ssa.Defer); ok && isDone(d) && b.Dominates(b) && b.Index == 0 {
				return true
			}
		}
	}
	// must-dataflow
	n := len(fn.Blocks)
	inS := make([]bool, n)
	outS := make([]bool, n)
	for i := range inS {
		inS[i], outS[i] = true, true
	}
	for iter, changed := 0, true; changed && iter < 50; iter++ {
		changed = false
		for _, b := range fn.Blocks {
			st := b.Index != 0 && len(b.Preds) > 0
			for _, p := range b.Preds {
				st = st && outS[p.Index]
			}
			if st != inS[b.Index] {
				inS[b.Index] = st
				changed = true
			}
			o := st
			for _, in := range b.Instrs {
				if ci, ok := in.(ssa.CallInstruction); ok {
					if _, isGo := in.(*ssa.Go); !isGo {
						if _, isDefer := in.(*ssa.Defer); !isDefer && isDone(ci) {
							o = true
						}
					}
				}
			}
			if o != outS[b.Index] {
				outS[b.Index] = o
				changed = true
			}
		}
	}
	rets := core.ReturnsOf(fn)
	if len(rets) == 0 {
		return false
	}
	for _, r := range rets {
		st := inS[r.Block().Index]
		for _, in := range r.Block().Instrs {
			if in == ssa.Instruction(r) {
				break
			}
			if ci, ok := in.(ssa.CallInstruction); ok {
				if _, isGo := in.(*ssa.Go); !isGo {
					if _, isDefer := in.(*ssa.Defer); !isDefer && isDone(ci) {
						st = true
					}
				}
			}
		}
		if !st {
			return false
		}
	}
	return true
}

func (c *Ctx) ruleWG(rule string) {
	pkg := c.M.SSA["atp"]
	if pkg == nil {
		c.R.Unresolved(rule, "package atp")
		return
	}
	for _, fn := range c.M.Funcs {
		if fn.Pkg != pkg {
			continue
		}
		for _, b := range fn.Blocks {
			for _, in := range b.Instrs {
				g, ok := in.(*ssa.Go)
				if !ok {
					continue
				}
				tgts := c.M.Callees(g.Common())
				if len(tgts) != 1 {
					continue
				}
				tgt := tgts[0]
				refs := c.doneRefs(tgt)
				seen := map[string]bool{}
				for _, w := range refs {
					if w.structT == nil {
						continue
					}
					wname := w.structT.Obj().Name() + "." + w.field
					if seen[wname] {
						continue
					}
					seen[wname] = true
					// (a) Add dominates the go statement
					k := key(rule, c.M.Key(fn), "go "+c.M.Key(tgt), "Add("+wname+") before go")
					added := false
					for _, b2 := range fn.Blocks {
						for _, in2 := range b2.Instrs {
							if call, ok := in2.(*ssa.Call); ok {
								if x, ok := c.wgOfCall(&call.Call, "Add"); ok && sameWG(x, w) && instrDominates(call, g) {
									added = true
								}
							}
						}
					}
					if added {
						c.R.Ok(rule, k, c.M.InstrPos(g), "goroutine counted by "+wname, "Add on the same WaitGroup dominates the go statement")
					} else {
						c.R.Bad(rule, k, c.M.InstrPos(g), "goroutine calls Done on "+wname+" but no Add precedes its start",
							"the spawning function does not call Add before `go`: a Wait can return (counter zero) before the goroutine has registered, so the session ends while the goroutine has not run")
					}
					// (b) Done on all exits
					k2 := key(rule, c.M.Key(tgt), "Done("+wname+") on every exit")
					if c.mustDone(tgt, w, 0) {
						c.R.Ok(rule, k2, c.M.InstrPos(g), "goroutine releases "+wname, "every return of the goroutine function is preceded by Done (deferred, direct, or in a callee that always calls it)")
					} else {
						c.R.Bad(rule, k2, c.M.InstrPos(g), "goroutine may exit without Done on "+wname, "some return path of the goroutine function does not call Done: Wait blocks forever")
					}
				}
			}
		}
	}
	// (c) cancel before wait in the client: every Wait on the client WaitGroup (direct or through a helper taking
	// &wg) is dominated by a call of the context's cancel function
	ro := c.roles()
	if !ro.ok {
		return
	}
	cancelField := ""
	if st := fieldsOf(ro.clientT); st != nil {
		for i := 0; i < st.NumFields(); i++ {
			if isNamed(st.Field(i).Type(), "context", "CancelFunc") {
				cancelField = st.Field(i).Name()
			}
		}
	}
	if cancelField == "" {
		c.R.Unresolved(rule, "cancel function field of the ATP client")
		return
	}
	for _, fn := range c.M.Funcs {
		if !c.methodOrClosureOf(fn, ro.clientT) {
			continue
		}
		for _, b := range fn.Blocks {
			for _, in := range b.Instrs {
				call, ok := in.(*ssa.Call)
				if !ok {
					continue
				}
				waits := false
				if _, ok := c.wgOfCall(&call.Call, "Wait"); ok {
					waits = true
				}
				for _, callee := range c.M.Callees(&call.Call) {
					for _, a := range call.Call.Args {
						if fa, ok := a.(*ssa.FieldAddr); ok && isNamed(fa.Type(), "sync", "WaitGroup") && c.waitsOnParam(callee) {
							waits = true
						}
					}
				}
				if !waits {
					continue
				}
				cancelled := false
				for _, b2 := range fn.Blocks {
					for _, in2 := range b2.Instrs {
						c2, ok := in2.(*ssa.Call)
						if !ok {
							continue
						}
						if ld, ok := c2.Call.Value.(*ssa.UnOp); ok {
							if fa, ok := ld.X.(*ssa.FieldAddr); ok && fieldName(fa.X.Type(), fa.Field) == cancelField && instrDominates(c2, call) {
								cancelled = true
							}
						}
					}
				}
				k := key(rule, c.M.Key(fn), "cancel before "+c.callDesc(call))
				if cancelled {
					c.R.Ok(rule, k, c.M.InstrPos(call), "wait for the client's goroutines", "the context is cancelled on every path before this wait, so the signal write loops have an exit")
				} else {
					c.R.Bad(rule, k, c.M.InstrPos(call), "wait for the client's goroutines without cancelling their context first",
						"the signal write loops only end when their channel is closed or the context is cancelled; waiting for them before cancelling can block (or hit the bounded wait and panic)")
				}
			}
		}
	}
}

func (c *Ctx) waitsOnParam(fn *ssa.Function) bool {
	for f := range c.M.Reachable([]*ssa.Function{fn}, nil) {
		for _, b := range f.Blocks {
			for _, in := range b.Instrs {
				if call, ok := in.(*ssa.Call); ok && core.StaticCalleeName(&call.Call) == "(*sync.WaitGroup).Wait" {
					return true
				}
			}
		}
	}
	return false
}

// ---------- R-RECOVER ----------

func (c *Ctx) ruleRecover(rule string) {
	ro := c.roles()
	if !ro.ok {
		return
	}
	plugin := map[*ssa.Function]bool{}
	for _, k := range []string{"schema.CallableSchema.CallStep"} {
		if f := c.fn(rule, k); f != nil {
			plugin[f] = true
		}
	}
	n := 0
	for _, fn := range c.M.Funcs {
		if !c.methodOrClosureOf(fn, ro.serverT) {
			continue
		}
		for _, b := range fn.Blocks {
			for _, in := range b.Instrs {
				g, ok := in.(*ssa.Go)
				if !ok {
					continue
				}
				for _, tgt := range c.M.Callees(g.Common()) {
					all := c.M.Reachable([]*ssa.Function{tgt}, nil)
					reachesPlugin := false
					for p := range plugin {
						if all[p] {
							reachesPlugin = true
						}
					}
					if !reachesPlugin {
						continue
					}
					n++
					pruned := c.M.Reachable([]*ssa.Function{tgt}, isRecoverScope)
					unprotected := false
					for p := range plugin {
						if pruned[p] {
							unprotected = true
						}
					}
					k := key(rule, c.M.Key(fn), "go "+c.M.Key(tgt))
					if unprotected {
						c.R.Bad(rule, k, c.M.InstrPos(g), "goroutine runs step code without a recover scope",
							"a panic in the step handler (or in the schema engine below CallStep) unwinds this goroutine unrecovered and kills the plugin process: no terminal message for any run")
					} else {
						c.R.Ok(rule, k, c.M.InstrPos(g), "goroutine running step code", "CallStep is only reachable through a function with a deferred recover")
					}
				}
			}
		}
	}
	c.R.Floor(rule, 1)
	_ = n
}

// ---------- R-PAIR ----------

func (c *Ctx) rulePair(rule string) {
	ro := c.roles()
	if !ro.ok {
		return
	}
	// the entry struct type: element of the pending table
	var entryT *types.Named
	if st := fieldsOf(ro.clientT); st != nil {
		for i := 0; i < st.NumFields(); i++ {
			if st.Field(i).Name() == ro.pending {
				if mt, ok := st.Field(i).Type().Underlying().(*types.Map); ok {
					entryT = structOf(mt.Elem())
				}
			}
		}
	}
	if entryT == nil {
		c.R.Unresolved(rule, "entry type of the pending table")
		return
	}
	condField, resultField := "", ""
	est := fieldsOf(entryT)
	for i := 0; i < est.NumFields(); i++ {
		if isNamed(est.Field(i).Type(), "sync", "Cond") {
			condField = est.Field(i).Name()
		} else if _, ok := est.Field(i).Type().Underlying().(*types.Pointer); ok {
			resultField = est.Field(i).Name()
		}
	}
	for _, fn := range c.M.Funcs {
		for _, b := range fn.Blocks {
			for i, in := range b.Instrs {
				// store of the result
				if st, ok := in.(*ssa.Store); ok {
					fa, ok := st.Addr.(*ssa.FieldAddr)
					if ok && structOf(fa.X.Type()) != nil && structOf(fa.X.Type()).Obj() == entryT.Obj() && fieldName(fa.X.Type(), fa.Field) == resultField {
						if _, isAlloc := fa.X.(*ssa.Alloc); isAlloc {
							continue
						}
						if cst, ok := st.Val.(*ssa.Const); ok && cst.Value == nil {
							continue
						}
						k := key(rule, c.M.Key(fn), "result store followed by wake-up")
						woke := false
						for _, in2 := range b.Instrs[i+1:] {
							if call, ok := in2.(*ssa.Call); ok {
								n := core.StaticCalleeName(&call.Call)
								if n == "(*sync.Cond).Signal" || n == "(*sync.Cond).Broadcast" {
									if fa2, ok := call.Call.Args[0].(*ssa.FieldAddr); ok && fa2.X == fa.X && fieldName(fa2.X.Type(), fa2.Field) == condField {
										woke = true
									}
								}
								if mutexOp(&call.Call) == "unlock" {
									break
								}
							}
						}
						if woke {
							c.R.Ok(rule, k, c.M.InstrPos(st), "result stored for a waiter", "the store is followed, before any unlock, by Signal/Broadcast on the same entry's condition")
						} else {
							c.R.Bad(rule, k, c.M.InstrPos(st), "result stored without waking the waiter", "no Signal/Broadcast on the entry's condition follows the store in its critical section: the Execute waiting on it never wakes (lost wake-up)")
						}
					}
				}
				// waits
				if call, ok := in.(*ssa.Call); ok && core.StaticCalleeName(&call.Call) == "(*sync.Cond).Wait" {
					k := key(rule, c.M.Key(fn), "wait preceded by a test of the condition")
					tested := false
					for _, cond := range core.CondsAt(b) {
						if x, neq, ok := core.NilCmp(cond.V); ok && neq != cond.True {
							if strings.HasSuffix(c.M.ValPath(x), "."+resultField) {
								tested = true
							}
						}
					}
					locked := len(c.lockedAt(fn, call)) > 0
					if tested && locked {
						c.R.Ok(rule, k, c.M.InstrPos(call), "condition wait", "the wait is guarded by `result == nil` tested under the lock it releases (no lost wake-up)")
					} else {
						c.R.Bad(rule, k, c.M.InstrPos(call), "condition wait without testing the condition under the lock", "a result stored before the wait started would never be noticed")
					}
				}
			}
		}
	}
	c.R.Floor(rule, 2)
}
