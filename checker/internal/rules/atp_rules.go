package rules

import (
	"go/constant"
	"go/types"
	"sort"
	"strings"

	"golang.org/x/tools/go/ssa"

	"verifcheck/internal/core"
)

// ---------- critical sections ----------

// sectionOf returns the Lock call that opened the critical section of `lock` in which `at` executes, or nil.
// `at` must be reachable from that Lock without crossing an Unlock/Lock of the same mutex, and the Lock must dominate it.
//
// An unexported function that every caller calls with the lock held (the worker half of an entry/worker pair) runs in
// the section of its caller: that section is named by a mark of the function's entry. `at` may be nil: the entry.
func (c *Ctx) sectionOf(fn *ssa.Function, at ssa.Instruction, lock string) ssa.Instruction {
	if at == nil {
		if c.locks().entry[fn][lock] {
			return c.entryMark(fn)
		}
		return nil
	}
	if at.Parent() != fn {
		return nil
	}
	if best := c.sectionOfLock(fn, at, lock); best != nil {
		return best
	}
	if c.locks().entry[fn][lock] && c.reachesWithoutUnlock(nil, at, lock) {
		return c.entryMark(fn)
	}
	return nil
}

// entrySection marks the entry of a function as the start of a critical section its callers opened.
type entrySection struct {
	ssa.Instruction
	fn *ssa.Function
}

func (c *Ctx) entryMark(fn *ssa.Function) ssa.Instruction {
	if c.entryMarks == nil {
		c.entryMarks = map[*ssa.Function]*entrySection{}
	}
	if c.entryMarks[fn] == nil {
		c.entryMarks[fn] = &entrySection{fn: fn}
	}
	return c.entryMarks[fn]
}

// condSection: the critical section of `lock` in which the condition was established - that of the instruction that
// computed it, of the call whose outcome implies it, or the one the callers hold on entry.
func (c *Ctx) condSection(fn *ssa.Function, cond core.Cond, lock string) ssa.Instruction {
	return c.sectionOf(fn, cond.Anchor(), lock)
}

func (c *Ctx) sectionOfLock(fn *ssa.Function, at ssa.Instruction, lock string) ssa.Instruction {
	var best ssa.Instruction
	for _, b := range fn.Blocks {
		for _, in := range b.Instrs {
			call, ok := in.(*ssa.Call)
			if !ok || mutexOp(&call.Call) != "lock" || c.M.AddrPath(call.Call.Args[0]) != lock {
				continue
			}
			if !instrDominates(call, at) {
				continue
			}
			if c.reachesWithoutUnlock(call, at, lock) {
				if best == nil || instrDominates(best, call) {
					best = call
				}
			}
		}
	}
	return best
}

func (c *Ctx) reachesWithoutUnlock(from, to ssa.Instruction, lock string) bool {
	crosses := func(in ssa.Instruction) bool {
		if call, ok := in.(*ssa.Call); ok {
			op := mutexOp(&call.Call)
			if (op == "unlock" || op == "lock") && c.M.AddrPath(call.Call.Args[0]) == lock {
				return true
			}
		}
		return false
	}
	seen := map[*ssa.BasicBlock]bool{}
	var walk func(b *ssa.BasicBlock, start int) bool
	walk = func(b *ssa.BasicBlock, start int) bool {
		for i := start; i < len(b.Instrs); i++ {
			in := b.Instrs[i]
			if in == to {
				return true
			}
			if crosses(in) {
				return false
			}
		}
		for _, s := range b.Succs {
			if seen[s] {
				continue
			}
			seen[s] = true
			if walk(s, 0) {
				return true
			}
		}
		return false
	}
	if from == nil {
		// from the entry of the function
		fn := to.Parent()
		if fn == nil || len(fn.Blocks) == 0 {
			return false
		}
		seen[fn.Blocks[0]] = true
		return walk(fn.Blocks[0], 0)
	}
	b := from.Block()
	idx := 0
	for i, in := range b.Instrs {
		if in == from {
			idx = i + 1
		}
	}
	return walk(b, idx)
}

// lockOfStructAt: the mutex path of the struct that owns field address fa, if held at instruction at.
func (c *Ctx) heldMutexFor(fn *ssa.Function, at ssa.Instruction, base ssa.Value, mutex string) (string, bool) {
	lp := c.M.ValPath(base) + "." + mutex
	for _, l := range c.lockedAt(fn, at) {
		if l == lp {
			return lp, true
		}
	}
	return lp, false
}

// ---------- R-ATOMIC ----------

// ruleAtomic: (i) a map insert that is controlled by a presence lookup of the same guarded map must share the
// lookup's critical section (check-then-insert); (ii) the client's running flag is cleared only in a critical
// section that also scans the pending table, and set only in the section that tested it and starts the read loop.
func (c *Ctx) ruleAtomic(rule string) {
	targets := c.lockTargets("atp", "schema")
	for _, fn := range c.M.Funcs {
		for _, b := range fn.Blocks {
			for _, in := range b.Instrs {
				mu, ok := in.(*ssa.MapUpdate)
				if !ok {
					continue
				}
				ld, ok := mu.Map.(*ssa.UnOp)
				if !ok {
					continue
				}
				fa, ok := ld.X.(*ssa.FieldAddr)
				if !ok {
					continue
				}
				sn := structOf(fa.X.Type())
				if sn == nil {
					continue
				}
				mutex := ""
				for t, m := range targets {
					if t.Obj() == sn.Obj() {
						mutex = m
					}
				}
				if mutex == "" {
					continue
				}
				mapPath := c.M.ValPath(mu.Map)
				// controlling presence lookups of the same map
				for _, cond := range core.CondsAt(b) {
					t, ok := core.CommaOk(cond.V)
					if !ok {
						continue
					}
					lk, ok := t.(*ssa.Lookup)
					if !ok || c.M.ValPath(lk.X) != mapPath {
						continue
					}
					tname := sn.Obj().Pkg().Name() + "." + sn.Obj().Name()
					k := key(rule, c.M.Key(fn), "check-then-insert on "+tname+"."+fieldName(fa.X.Type(), fa.Field))
					lock := c.M.ValPath(fa.X) + "." + mutex
					s1 := c.condSection(fn, cond, lock)
					s2 := c.sectionOf(fn, mu, lock)
					pos := c.M.InstrPos(mu)
					switch {
					case s1 == nil || s2 == nil:
						c.R.Bad(rule, k, pos, "presence check and insert on a guarded table", "the lookup or the insert is not inside a critical section of "+lock)
					case s1 != s2:
						c.R.Bad(rule, k, pos, "presence check and insert on a guarded table are in different critical sections",
							"the lookup at "+c.M.InstrPos(lk)+" and the insert happen under two separate acquisitions of "+lock+
								": two callers can both miss and both insert (the entry is created twice; the loser's data is orphaned)")
					default:
						c.R.Ok(rule, k, pos, "presence check and insert on a guarded table", "lookup and insert share one critical section (same Lock, no Unlock between)")
					}
				}
			}
		}
	}
	ro := c.roles()
	if !ro.ok {
		return
	}
	mutex := ro.mutexOf[ro.clientT]
	for _, fn := range c.M.Funcs {
		for _, b := range fn.Blocks {
			for _, in := range b.Instrs {
				st, ok := in.(*ssa.Store)
				if !ok {
					continue
				}
				fa, ok := st.Addr.(*ssa.FieldAddr)
				if !ok || structOf(fa.X.Type()) == nil || structOf(fa.X.Type()).Obj() != ro.clientT.Obj() || fieldName(fa.X.Type(), fa.Field) != ro.runFlag {
					continue
				}
				if _, isAlloc := fa.X.(*ssa.Alloc); isAlloc {
					continue
				}
				cst, ok := st.Val.(*ssa.Const)
				if !ok || cst.Value == nil || cst.Value.Kind() != constant.Bool {
					c.R.Bad(rule, key(rule, c.M.Key(fn), "running flag store of a non-constant"), c.M.InstrPos(st), "running flag assigned a computed value", "cannot decide the hand-over protocol for a non-constant store")
					continue
				}
				lock := c.M.ValPath(fa.X) + "." + mutex
				sec := c.sectionOf(fn, st, lock)
				pos := c.M.InstrPos(st)
				if !constant.BoolVal(cst.Value) {
					k := key(rule, c.M.Key(fn), "read-loop stop decision and running-flag clear")
					if sec == nil {
						c.R.Bad(rule, k, pos, "running flag cleared outside a critical section", "no acquisition of "+lock+" in this function dominates the store")
						continue
					}
					// the same section must scan the pending table
					found := false
					for _, b2 := range fn.Blocks {
						for _, in2 := range b2.Instrs {
							rg, ok := in2.(*ssa.Range)
							if !ok {
								continue
							}
							if strings.HasSuffix(c.M.ValPath(rg.X), "."+ro.pending) && c.sectionOf(fn, rg, lock) == sec {
								found = true
							}
						}
					}
					// ... or calls, in that section, a helper of the client that scans it (and leaves the mutex alone)
					if !found {
						var scans func(h *ssa.Function, depth int) bool
						scans = func(h *ssa.Function, depth int) bool {
							if h == nil || depth > 2 || !c.methodOrClosureOf(h, ro.clientT) {
								return false
							}
							ranges := false
							for _, hb := range h.Blocks {
								for _, hin := range hb.Instrs {
									switch y := hin.(type) {
									case *ssa.Range:
										if strings.HasSuffix(c.M.ValPath(y.X), "."+ro.pending) {
											ranges = true
										}
									case *ssa.Call:
										if mutexOp(&y.Call) != "" && strings.HasSuffix(c.M.AddrPath(y.Call.Args[0]), "."+mutex) {
											return false
										}
										if !ranges && scans(core.StaticBody(&y.Call), depth+1) {
											ranges = true
										}
									}
								}
							}
							return ranges
						}
						for _, b2 := range fn.Blocks {
							for _, in2 := range b2.Instrs {
								if call, ok := in2.(*ssa.Call); ok && c.sectionOf(fn, call, lock) == sec && scans(core.StaticBody(&call.Call), 0) {
									found = true
								}
							}
						}
					}
					if found {
						c.R.Ok(rule, k, pos, "running flag cleared", "the critical section that clears the flag also scans the pending table (decides idle, or fails every waiter): decision and flag update are atomic")
					} else {
						c.R.Bad(rule, k, pos, "running flag cleared in a critical section that does not look at the pending table",
							"the decision to stop (no entry pending / all waiters failed) is taken in another critical section: an Execute registering in between sees the loop as running and waits forever")
					}
				} else {
					k := key(rule, c.M.Key(fn), "running-flag test, set and read-loop start")
					okTest := false
					for _, cond := range core.CondsAt(b) {
						if ld, ok := cond.V.(*ssa.UnOp); ok {
							if strings.HasSuffix(c.M.AddrPath(ld.X), "."+ro.runFlag) && !cond.True && c.sectionOf(fn, ld, lock) == sec && sec != nil {
								okTest = true
							}
						}
					}
					goIn := false
					for _, b2 := range fn.Blocks {
						for _, in2 := range b2.Instrs {
							if g, ok := in2.(*ssa.Go); ok && sec != nil && c.sectionOf(fn, g, lock) == sec && b2 == b {
								goIn = true
							}
						}
					}
					if okTest && goIn {
						c.R.Ok(rule, k, pos, "running flag set", "tested, set and the read loop started within one critical section")
					} else {
						c.R.Bad(rule, k, pos, "running flag set outside the critical section that tested it / starts the loop",
							"two Execute calls can both see the flag unset and start two read loops on one stream")
					}
				}
			}
		}
	}
}

// ---------- R-MUSTPASS: every exit of the read loop has cleared the running flag ----------

func (c *Ctx) isFlagClear(in ssa.Instruction, ro *atpRoles) bool {
	st, ok := in.(*ssa.Store)
	if !ok {
		return false
	}
	fa, ok := st.Addr.(*ssa.FieldAddr)
	if !ok || structOf(fa.X.Type()) == nil || structOf(fa.X.Type()).Obj() != ro.clientT.Obj() || fieldName(fa.X.Type(), fa.Field) != ro.runFlag {
		return false
	}
	cst, ok := st.Val.(*ssa.Const)
	return ok && cst.Value != nil && cst.Value.Kind() == constant.Bool && !constant.BoolVal(cst.Value)
}

// clearSummary: "all": every return happens after a flag clear; "iftrue": every `return true` does.
func (c *Ctx) clearSummary(fn *ssa.Function, ro *atpRoles, memo map[*ssa.Function]string, depth int) string {
	if v, ok := memo[fn]; ok {
		return v
	}
	memo[fn] = ""
	if depth > 6 {
		return ""
	}
	states := c.clearFlow(fn, ro, memo, depth, false)
	all, iftrue := true, true
	rets := core.ReturnInstrs(fn)
	if len(rets) == 0 {
		all, iftrue = false, false
	}
	for _, r := range rets {
		st := c.stateBefore(fn, r, states, ro, memo, depth, false)
		if !st {
			all = false
			if len(r.Results) == 1 {
				if cst, ok := core.RetVal(r, 0).(*ssa.Const); ok && cst.Value != nil && cst.Value.Kind() == constant.Bool && !constant.BoolVal(cst.Value) {
					continue
				}
			}
			iftrue = false
		}
	}
	res := ""
	if all {
		res = "all"
	} else if iftrue && fn.Signature.Results().Len() == 1 {
		res = "iftrue"
	}
	memo[fn] = res
	return res
}

func (c *Ctx) clearTransfer(in ssa.Instruction, st bool, ro *atpRoles, memo map[*ssa.Function]string, depth int, killOnDecode bool) bool {
	if c.isFlagClear(in, ro) {
		return true
	}
	if call, ok := in.(*ssa.Call); ok {
		if killOnDecode && strings.HasSuffix(core.StaticCalleeName(&call.Call), "cbor/v2.Decoder).Decode") {
			return false
		}
		// every function the call may run clears the flag on all its ways out
		cs := c.M.Callees(&call.Call)
		allClear := len(cs) > 0
		for _, callee := range cs {
			if c.clearSummary(callee, ro, memo, depth+1) != "all" {
				allClear = false
			}
		}
		if allClear {
			return true
		}
	}
	return st
}

func (c *Ctx) clearFlow(fn *ssa.Function, ro *atpRoles, memo map[*ssa.Function]string, depth int, killOnDecode bool) []bool {
	n := len(fn.Blocks)
	in := make([]bool, n)
	out := make([]bool, n)
	for i := range in {
		in[i], out[i] = true, true
	}
	if n > 0 {
		in[0] = false
	}
	for iter, changed := 0, true; changed && iter < 50; iter++ {
		changed = false
		for _, b := range fn.Blocks {
			st := b.Index != 0
			if len(b.Preds) == 0 {
				st = false
			}
			for _, p := range b.Preds {
				e := out[p.Index]
				if len(p.Instrs) > 0 {
					if ifi, ok := p.Instrs[len(p.Instrs)-1].(*ssa.If); ok && p.Succs[0] != p.Succs[1] {
						// `if handler(msg) { ... }` where handler clears whenever it returns true
						if call, ok := ifi.Cond.(*ssa.Call); ok && p.Succs[0] == b {
							// (a handler taken from a dispatch table: every handler of the table)
							cs := c.M.Callees(&call.Call)
							allIfTrue := len(cs) > 0
							for _, callee := range cs {
								if s := c.clearSummary(callee, ro, memo, depth+1); s != "iftrue" && s != "all" {
									allIfTrue = false
								}
							}
							if allIfTrue {
								e = true
							}
						}
					}
				}
				st = st && e
			}
			if b.Index == 0 {
				st = false
			}
			if st != in[b.Index] {
				in[b.Index] = st
				changed = true
			}
			o := st
			for _, ins := range b.Instrs {
				o = c.clearTransfer(ins, o, ro, memo, depth, killOnDecode)
			}
			if o != out[b.Index] {
				out[b.Index] = o
				changed = true
			}
		}
	}
	return in
}

func (c *Ctx) stateBefore(fn *ssa.Function, at ssa.Instruction, in []bool, ro *atpRoles, memo map[*ssa.Function]string, depth int, killOnDecode bool) bool {
	b := at.Block()
	st := in[b.Index]
	for _, ins := range b.Instrs {
		if ins == at {
			break
		}
		st = c.clearTransfer(ins, st, ro, memo, depth, killOnDecode)
	}
	return st
}

func (c *Ctx) ruleMustPass(rule string) {
	ro := c.roles()
	if !ro.ok {
		return
	}
	memo := map[*ssa.Function]string{}
	fn := ro.readLoop
	states := c.clearFlow(fn, ro, memo, 0, true)
	rets := core.ReturnInstrs(fn)
	sort.Slice(rets, func(i, j int) bool { return rets[i].Pos() < rets[j].Pos() })
	for i, r := range rets {
		k := key(rule, c.M.Key(fn), sprintf("exit#%d (%s)", i+1, c.exitDesc(r)))
		if c.stateBefore(fn, r, states, ro, memo, 0, true) {
			c.R.Ok(rule, k, c.M.InstrPos(r), "read-loop exit", "on every path to this exit the running flag was cleared (under the client mutex) after the last message was read")
		} else {
			c.R.Bad(rule, k, c.M.InstrPos(r), "read-loop exit that leaves the running flag set",
				"some path reaches this return without clearing the running flag since the last decode: pending and later Execute calls believe a reader exists and block forever")
		}
	}
	c.R.Floor(rule, 2)
}

// exitDesc describes an exit by the call that precedes it (position free).
func (c *Ctx) exitDesc(r *ssa.Return) string {
	b := r.Block()
	for i := len(b.Instrs) - 1; i >= 0; i-- {
		if call, ok := b.Instrs[i].(*ssa.Call); ok {
			if cs := c.M.Callees(&call.Call); len(cs) == 1 {
				return "after " + c.M.Key(cs[0])
			}
		}
	}
	if len(b.Preds) == 1 {
		p := b.Preds[0]
		if ifi, ok := p.Instrs[len(p.Instrs)-1].(*ssa.If); ok {
			if call, ok := ifi.Cond.(*ssa.Call); ok {
				if cs := c.M.Callees(&call.Call); len(cs) == 1 {
					return "when " + c.M.Key(cs[0]) + " is " + map[bool]string{true: "true", false: "false"}[p.Succs[0] == b]
				}
			}
		}
	}
	return "return"
}

// ---------- R-WG ----------

type wgRef struct {
	structT *types.Named
	field   string
}

func (c *Ctx) wgOfCall(cc *ssa.CallCommon, method string) (wgRef, bool) {
	if method == "Done" {
		// sync.Once.Do(wg.Done)
		if w, ok := onceDone(cc); ok {
			return w, true
		}
	}
	if core.StaticCalleeName(cc) != "(*sync.WaitGroup)."+method || len(cc.Args) == 0 {
		return wgRef{}, false
	}
	// &x.wg, a load of x.wg (pointer field), or a fresh WaitGroup that is stored into a field
	return wgRefOf(cc.Args[0]), true
}

func sameWG(a, b wgRef) bool {
	return a.structT != nil && b.structT != nil && a.structT.Obj() == b.structT.Obj() && a.field == b.field
}

// doneCalls lists WaitGroup.Done calls in fn and its synchronous callees (including deferred closures).
func (c *Ctx) doneRefs(fn *ssa.Function) []wgRef {
	var out []wgRef
	stopGo := func(f *ssa.Function) bool { return false }
	_ = stopGo
	seen := map[*ssa.Function]bool{}
	var walk func(f *ssa.Function)
	walk = func(f *ssa.Function) {
		if seen[f] {
			return
		}
		seen[f] = true
		for _, b := range f.Blocks {
			for _, in := range b.Instrs {
				ci, ok := in.(ssa.CallInstruction)
				if !ok {
					continue
				}
				if _, isGo := in.(*ssa.Go); isGo {
					continue
				}
				if w, ok := c.wgOfCall(ci.Common(), "Done"); ok {
					out = append(out, w)
				}
				for _, callee := range c.M.Callees(ci.Common()) {
					walk(callee)
				}
			}
		}
	}
	walk(fn)
	return out
}

// mustDone: every return of fn is preceded by a Done on w (a deferred Done, a deferred closure that must-Done, a direct call, or a callee that must-Done).
func (c *Ctx) mustDone(fn *ssa.Function, w wgRef, depth int) bool {
	if depth > 6 {
		return false
	}
	isDone := func(ci ssa.CallInstruction) bool {
		if x, ok := c.wgOfCall(ci.Common(), "Done"); ok && sameWG(x, w) {
			return true
		}
		if _, isGo := ci.(*ssa.Go); isGo {
			// a goroutine that always calls Done takes the count over
			tgts := c.M.Callees(ci.Common())
			for _, tgt := range tgts {
				if !c.mustDone(tgt, w, depth+1) {
					return false
				}
			}
			return len(tgts) > 0
		}
		// every function the call may run always calls Done
		callees := c.M.Callees(ci.Common())
		for _, callee := range callees {
			if !c.mustDone(callee, w, depth+1) {
				return false
			}
		}
		return len(callees) > 0
	}
	for _, b := range fn.Blocks {
		for _, in := range b.Instrs {
			if d, ok := in.(*ssa.Defer); ok && isDone(d) && b.Dominates(b) && b.Index == 0 {
				return true
			}
		}
	}
	// must-dataflow
	n := len(fn.Blocks)
	inS := make([]bool, n)
	outS := make([]bool, n)
	for i := range inS {
		inS[i], outS[i] = true, true
	}
	for iter, changed := 0, true; changed && iter < 50; iter++ {
		changed = false
		for _, b := range fn.Blocks {
			st := b.Index != 0 && len(b.Preds) > 0
			for _, p := range b.Preds {
				st = st && outS[p.Index]
			}
			if st != inS[b.Index] {
				inS[b.Index] = st
				changed = true
			}
			o := st
			for _, in := range b.Instrs {
				if ci, ok := in.(ssa.CallInstruction); ok {
					if _, isDefer := in.(*ssa.Defer); !isDefer && isDone(ci) {
						o = true
					}
				}
			}
			if o != outS[b.Index] {
				outS[b.Index] = o
				changed = true
			}
		}
	}
	rets := core.ReturnInstrs(fn)
	if len(rets) == 0 {
		return false
	}
	for _, r := range rets {
		st := inS[r.Block().Index]
		for _, in := range r.Block().Instrs {
			if in == ssa.Instruction(r) {
				break
			}
			if ci, ok := in.(ssa.CallInstruction); ok {
				if _, isDefer := in.(*ssa.Defer); !isDefer && isDone(ci) {
					st = true
				}
			}
		}
		if !st {
			return false
		}
	}
	return true
}

func (c *Ctx) ruleWG(rule string) {
	pkg := c.M.SSA["atp"]
	if pkg == nil {
		c.R.Unresolved(rule, "package atp")
		return
	}
	for _, fn := range c.M.Funcs {
		if fn.Pkg != pkg {
			continue
		}
		for _, b := range fn.Blocks {
			for _, in := range b.Instrs {
				g, ok := in.(*ssa.Go)
				if !ok {
					continue
				}
				tgts := c.M.Callees(g.Common())
				if len(tgts) != 1 {
					continue
				}
				tgt := tgts[0]
				refs := c.doneRefs(tgt)
				seen := map[string]bool{}
				for _, w := range refs {
					if w.structT == nil {
						continue
					}
					wname := w.structT.Obj().Name() + "." + w.field
					if seen[wname] {
						continue
					}
					seen[wname] = true
					// (a) Add dominates the go statement
					k := key(rule, c.M.Key(fn), "go "+c.M.Key(tgt), "Add("+wname+") before go")
					added := false
					for _, b2 := range fn.Blocks {
						for _, in2 := range b2.Instrs {
							if call, ok := in2.(*ssa.Call); ok {
								if x, ok := c.wgOfCall(&call.Call, "Add"); ok && sameWG(x, w) && instrDominates(call, g) {
									added = true
								}
							}
						}
					}
					viaCallee := ""
					if !added {
						// the count may have been reserved by a callee that reports success: every possibly-nil-error return
						// of the callee is preceded by an Add, and the go is only reached on the nil-error outcome of the call
						for _, cond := range core.CondsAt(g.Block()) {
							x, neq, isNil := core.NilCmp(cond.V)
							if !isNil || neq == cond.True {
								continue
							}
							if cc, ok := core.Unwrap(x).(*ssa.Call); ok {
								if callee := cc.Call.StaticCallee(); callee != nil && c.addsOnNilError(callee, w) {
									added, viaCallee = true, callee.Name()
								}
							}
						}
					}
					if added && viaCallee != "" {
						c.R.Ok(rule, k, c.M.InstrPos(g), "goroutine counted by "+wname, "the go is reached only on the nil-error outcome of "+viaCallee+", every successful return of which is preceded by an Add on the same WaitGroup")
					} else if added {
						c.R.Ok(rule, k, c.M.InstrPos(g), "goroutine counted by "+wname, "Add on the same WaitGroup dominates the go statement")
					} else {
						c.R.Bad(rule, k, c.M.InstrPos(g), "goroutine calls Done on "+wname+" but no Add precedes its start",
							"the spawning function does not call Add before `go`: a Wait can return (counter zero) before the goroutine has registered, so the session ends while the goroutine has not run")
					}
					// (b) Done on all exits
					k2 := key(rule, c.M.Key(tgt), "Done("+wname+") on every exit")
					if c.mustDone(tgt, w, 0) {
						c.R.Ok(rule, k2, c.M.InstrPos(g), "goroutine releases "+wname, "every return of the goroutine function is preceded by Done (deferred, direct, or in a callee that always calls it)")
					} else {
						c.R.Bad(rule, k2, c.M.InstrPos(g), "goroutine may exit without Done on "+wname, "some return path of the goroutine function does not call Done: Wait blocks forever")
					}
				}
			}
		}
	}
	// (b') a count reserved by a callee is released: where a function calls one that Adds on success, every path from the
	// nil-error outcome to a return passes a Done on that WaitGroup or a go whose goroutine always calls it
	for _, fn := range c.M.SortedFuncs(c.scopePkg("atp")) {
		for _, b := range fn.Blocks {
			for _, in := range b.Instrs {
				call, ok := in.(*ssa.Call)
				if !ok {
					continue
				}
				callee := call.Call.StaticCallee()
				if callee == nil || callee.Pkg != pkg {
					continue
				}
				var w wgRef
				reserved := false
				for _, cb := range callee.Blocks {
					for _, cin := range cb.Instrs {
						if cc, ok := cin.(*ssa.Call); ok {
							if x, ok := c.wgOfCall(&cc.Call, "Add"); ok && x.structT != nil && c.addsOnNilError(callee, x) {
								w, reserved = x, true
							}
						}
					}
				}
				if !reserved {
					continue
				}
				var okSucc *ssa.BasicBlock
				if refs := call.Referrers(); refs != nil {
					for _, r := range *refs {
						if bin, isBin := r.(*ssa.BinOp); isBin {
							if _, neq, isNil := core.NilCmp(bin); isNil {
								for _, r2 := range *bin.Referrers() {
									if ifi, isIf := r2.(*ssa.If); isIf {
										okSucc = ifi.Block().Succs[1]
										if !neq {
											okSucc = ifi.Block().Succs[0]
										}
									}
								}
							}
						}
					}
				}
				wname := w.structT.Obj().Name() + "." + w.field
				k := key(rule, c.M.Key(fn), "the count "+callee.Name()+" reserved on "+wname+" is released on every path")
				if okSucc == nil {
					c.R.Bad(rule, k, c.M.InstrPos(call), "a reserved count on "+wname+" is not followed up", "the success of "+callee.Name()+" is not tested: nothing shows that the count it adds is ever released")
					continue
				}
				released := everyPathSat(okSucc, func(_ *ssa.BasicBlock, in2 ssa.Instruction) bool {
					switch y := in2.(type) {
					case *ssa.Call:
						if x, ok := c.wgOfCall(&y.Call, "Done"); ok && sameWG(x, w) {
							return true
						}
						// a helper that always releases the count (calls Done, or starts the goroutine that does)
						if callees := c.M.Callees(&y.Call); len(callees) > 0 {
							all := true
							for _, callee := range callees {
								if !c.mustDone(callee, w, 0) {
									all = false
								}
							}
							if all {
								return true
							}
						}
					case *ssa.Go:
						for _, tgt := range c.M.Callees(y.Common()) {
							if c.mustDone(tgt, w, 0) {
								return true
							}
						}
					}
					return false
				})
				if released {
					c.R.Ok(rule, k, c.M.InstrPos(call), "count reserved for a goroutine that is started later", "every path from the successful call to a return passes a Done on "+wname+" or starts a goroutine that always calls it")
				} else {
					c.R.Bad(rule, k, c.M.InstrPos(call), "a count reserved on "+wname+" can be left behind",
						"a path from the successful "+callee.Name()+" to a return neither calls Done nor starts the goroutine that would: Wait (Close) never returns")
				}
			}
		}
	}
	// (d) every count is released in the call tree that added it
	c.ruleWGPair(rule)
	// (c) cancel before wait in the client: every Wait on the client WaitGroup (direct or through a helper taking
	// &wg) is dominated by a call of the context's cancel function
	ro := c.roles()
	if !ro.ok {
		return
	}
	cancelField := ""
	if st := fieldsOf(ro.clientT); st != nil {
		for i := 0; i < st.NumFields(); i++ {
			if isNamed(st.Field(i).Type(), "context", "CancelFunc") {
				cancelField = st.Field(i).Name()
			}
		}
	}
	if cancelField == "" {
		c.R.Unresolved(rule, "cancel function field of the ATP client")
		return
	}
	for _, fn := range c.M.Funcs {
		if !c.methodOrClosureOf(fn, ro.clientT) {
			continue
		}
		for _, b := range fn.Blocks {
			for _, in := range b.Instrs {
				call, ok := in.(*ssa.Call)
				if !ok {
					continue
				}
				waits := false
				if _, ok := c.wgOfCall(&call.Call, "Wait"); ok {
					waits = true
				}
				for _, callee := range c.M.Callees(&call.Call) {
					for _, a := range call.Call.Args {
						if fa, ok := a.(*ssa.FieldAddr); ok && isNamed(fa.Type(), "sync", "WaitGroup") && c.waitsOnParam(callee) {
							waits = true
						}
					}
				}
				if !waits {
					continue
				}
				cancelled := false
				for _, b2 := range fn.Blocks {
					for _, in2 := range b2.Instrs {
						c2, ok := in2.(*ssa.Call)
						if !ok {
							continue
						}
						if ld, ok := c2.Call.Value.(*ssa.UnOp); ok {
							if fa, ok := ld.X.(*ssa.FieldAddr); ok && fieldName(fa.X.Type(), fa.Field) == cancelField && instrDominates(c2, call) {
								cancelled = true
							}
						}
					}
				}
				k := key(rule, c.M.Key(fn), "cancel before "+c.callDesc(call))
				if cancelled {
					c.R.Ok(rule, k, c.M.InstrPos(call), "wait for the client's goroutines", "the context is cancelled on every path before this wait, so the signal write loops have an exit")
				} else {
					c.R.Bad(rule, k, c.M.InstrPos(call), "wait for the client's goroutines without cancelling their context first",
						"the signal write loops only end when their channel is closed or the context is cancelled; waiting for them before cancelling can block (or hit the bounded wait and panic)")
				}
			}
		}
	}
}

// addsOnNilError: every return of fn whose error result may be nil is preceded, on every path, by an Add on w.
func (c *Ctx) addsOnNilError(fn *ssa.Function, w wgRef) bool {
	ei := core.ErrorResultIndex(fn.Signature)
	if ei < 0 || len(fn.Blocks) == 0 {
		return false
	}
	gen := func(b *ssa.BasicBlock) bool {
		for _, in := range b.Instrs {
			if call, ok := in.(*ssa.Call); ok {
				if x, ok := c.wgOfCall(&call.Call, "Add"); ok && sameWG(x, w) {
					return true
				}
			}
		}
		return false
	}
	hold := mustHoldGen(fn, func(core.Cond) bool { return false }, gen)
	n := 0
	for _, r := range core.ReturnsOf(fn) {
		if c.M.RetNonNil(r, ei) {
			continue
		}
		n++
		if !hold[r.Key()] && !gen(r.Block()) {
			return false
		}
	}
	return n > 0
}

func (c *Ctx) waitsOnParam(fn *ssa.Function) bool {
	for f := range c.M.Reachable([]*ssa.Function{fn}, nil) {
		for _, b := range f.Blocks {
			for _, in := range b.Instrs {
				if call, ok := in.(*ssa.Call); ok && core.StaticCalleeName(&call.Call) == "(*sync.WaitGroup).Wait" {
					return true
				}
			}
		}
	}
	return false
}

// ---------- R-RECOVER ----------

func (c *Ctx) ruleRecover(rule string) {
	ro := c.roles()
	if !ro.ok {
		return
	}
	plugin := map[*ssa.Function]bool{}
	for _, k := range []string{"schema.CallableSchema.CallStep", "schema.CallableSchema.CallSignal"} {
		if f := c.fn(rule, k); f != nil {
			plugin[f] = true
		}
	}
	n := 0
	for _, fn := range c.M.Funcs {
		if !c.methodOrClosureOf(fn, ro.serverT) {
			continue
		}
		for _, b := range fn.Blocks {
			for _, in := range b.Instrs {
				g, ok := in.(*ssa.Go)
				if !ok {
					continue
				}
				for _, tgt := range c.M.Callees(g.Common()) {
					all := c.M.Reachable([]*ssa.Function{tgt}, nil)
					reachesPlugin := false
					for p := range plugin {
						if all[p] {
							reachesPlugin = true
						}
					}
					if !reachesPlugin {
						continue
					}
					n++
					pruned := c.M.Reachable([]*ssa.Function{tgt}, isRecoverScope)
					unprotected := false
					for p := range plugin {
						if pruned[p] {
							unprotected = true
						}
					}
					k := key(rule, c.M.Key(fn), "go "+c.M.Key(tgt))
					if unprotected {
						c.R.Bad(rule, k, c.M.InstrPos(g), "goroutine runs step or signal-handler code without a recover scope",
							"a panic in the handler (or in the schema engine below CallStep / CallSignal) unwinds this goroutine unrecovered and kills the plugin process: no terminal message for any run")
					} else {
						c.R.Ok(rule, k, c.M.InstrPos(g), "goroutine running step or signal-handler code", "CallStep / CallSignal is only reachable through a function with a deferred recover")
					}
				}
			}
		}
	}
	c.R.Floor(rule, 2)
	_ = n
}

// ---------- R-PAIR ----------

func (c *Ctx) rulePair(rule string) {
	ro := c.roles()
	if !ro.ok {
		return
	}
	// the entry struct type: element of the pending table
	var entryT *types.Named
	if st := fieldsOf(ro.clientT); st != nil {
		for i := 0; i < st.NumFields(); i++ {
			if st.Field(i).Name() == ro.pending {
				if mt, ok := st.Field(i).Type().Underlying().(*types.Map); ok {
					entryT = structOf(mt.Elem())
				}
			}
		}
	}
	if entryT == nil {
		c.R.Unresolved(rule, "entry type of the pending table")
		return
	}
	condField, resultField := "", ""
	est := fieldsOf(entryT)
	for i := 0; i < est.NumFields(); i++ {
		if isNamed(est.Field(i).Type(), "sync", "Cond") {
			condField = est.Field(i).Name()
		} else if _, ok := est.Field(i).Type().Underlying().(*types.Pointer); ok {
			resultField = est.Field(i).Name()
		}
	}
	for _, fn := range c.M.Funcs {
		for _, b := range fn.Blocks {
			for i, in := range b.Instrs {
				// store of the result
				if st, ok := in.(*ssa.Store); ok {
					fa, ok := st.Addr.(*ssa.FieldAddr)
					if ok && structOf(fa.X.Type()) != nil && structOf(fa.X.Type()).Obj() == entryT.Obj() && fieldName(fa.X.Type(), fa.Field) == resultField {
						if _, isAlloc := fa.X.(*ssa.Alloc); isAlloc {
							continue
						}
						if cst, ok := st.Val.(*ssa.Const); ok && cst.Value == nil {
							continue
						}
						k := key(rule, c.M.Key(fn), "result store followed by wake-up")
						woke := false
						for _, in2 := range b.Instrs[i+1:] {
							if call, ok := in2.(*ssa.Call); ok {
								n := core.StaticCalleeName(&call.Call)
								if n == "(*sync.Cond).Signal" || n == "(*sync.Cond).Broadcast" {
									if fa2, ok := call.Call.Args[0].(*ssa.FieldAddr); ok && fa2.X == fa.X && fieldName(fa2.X.Type(), fa2.Field) == condField {
										woke = true
									}
								}
								if mutexOp(&call.Call) == "unlock" {
									break
								}
							}
						}
						// a result that has arrived is never replaced: the store happens only where the entry has none yet
						k2 := key(rule, c.M.Key(fn), "result stored only into an entry that has none yet")
						fresh := false
						for _, cond := range core.CondsAt(b) {
							if x, neq, ok := core.NilCmp(cond.V); ok && neq != cond.True {
								if ld, ok := x.(*ssa.UnOp); ok {
									if fa3, ok := ld.X.(*ssa.FieldAddr); ok && fa3.X == fa.X && fieldName(fa3.X.Type(), fa3.Field) == resultField {
										fresh = true
									}
								}
							}
						}
						if fresh {
							c.R.Ok(rule, k2, c.M.InstrPos(st), "result stored for a waiter", "dominated by `result == nil` of the same entry: the first result stands")
						} else {
							c.R.Bad(rule, k2, c.M.InstrPos(st), "a result that has already arrived can be overwritten",
								"between the arrival of a run's result and its collection by the caller, a later error that is broadcast to all entries (end of stream, server-fatal error) replaces it: Execute reports a failure for a run whose work-done message arrived intact")
						}
						if woke {
							c.R.Ok(rule, k, c.M.InstrPos(st), "result stored for a waiter", "the store is followed, before any unlock, by Signal/Broadcast on the same entry's condition")
						} else {
							c.R.Bad(rule, k, c.M.InstrPos(st), "result stored without waking the waiter", "no Signal/Broadcast on the entry's condition follows the store in its critical section: the Execute waiting on it never wakes (lost wake-up)")
						}
					}
				}
				// removal of a pending entry: only by its own waiter, after the result has arrived
				if ci, ok := in.(ssa.CallInstruction); ok {
					if bi, ok := ci.Common().Value.(*ssa.Builtin); ok && bi.Name() == "delete" && c.isFieldLoad(ci.Common().Args[0], ro.clientT, ro.pending) {
						k := key(rule, c.M.Key(fn), "pending entry removed only after its result arrived")
						has := false
						for _, cond := range core.CondsAt(b) {
							if x, neq, ok := core.NilCmp(cond.V); ok && neq == cond.True && strings.HasSuffix(c.M.ValPath(x), "."+resultField) {
								has = true
							}
						}
						if has {
							c.R.Ok(rule, k, c.M.InstrPos(in), "removal from the pending table", "dominated by `result != nil` of the entry: the waiter removes its own, completed entry")
						} else if c.ownUnstartedEntry(b, ro) {
							c.R.Ok(rule, k, c.M.InstrPos(in), "removal from the pending table", "on this path the call inserted the entry itself (the inserting function returned no error) and the write of the work start failed: the peer never heard of the run, no result can arrive for it")
						} else if n := c.everyCallSite(fn, func(sb *ssa.BasicBlock) bool { return c.ownUnstartedEntry(sb, ro) }); n > 0 {
							c.R.Ok(rule, k, c.M.InstrPos(in), "removal from the pending table", sprintf("the function is called (%d site(s)) only where the caller inserted the entry itself and the write of the work start failed: the peer never heard of the run, no result can arrive for it", n))
						} else {
							c.R.Bad(rule, k, c.M.InstrPos(in), "pending entry removed although its result may not have arrived",
								"the result for this run ID will find no entry and be dropped; the Execute call that registered it waits forever")
						}
					}
				}
				// waits
				if call, ok := in.(*ssa.Call); ok && core.StaticCalleeName(&call.Call) == "(*sync.Cond).Wait" {
					k := key(rule, c.M.Key(fn), "wait preceded by a test of the condition")
					tested := false
					for _, cond := range core.CondsAt(b) {
						if x, neq, ok := core.NilCmp(cond.V); ok && neq != cond.True {
							if strings.HasSuffix(c.M.ValPath(x), "."+resultField) {
								tested = true
							}
						}
					}
					locked := len(c.lockedAt(fn, call)) > 0
					if tested && locked {
						c.R.Ok(rule, k, c.M.InstrPos(call), "condition wait", "the wait is guarded by `result == nil` tested under the lock it releases (no lost wake-up)")
					} else {
						c.R.Bad(rule, k, c.M.InstrPos(call), "condition wait without testing the condition under the lock", "a result stored before the wait started would never be noticed")
					}
				}
			}
		}
	}
	c.R.Floor(rule, 3)
}

// ---------- R-CHAN ----------

// reachSync: functions reachable from root through calls, defers and closures that are invoked synchronously
// (a closure started with `go` belongs to another goroutine).
func (c *Ctx) reachSync(root *ssa.Function) map[*ssa.Function]bool {
	seen := map[*ssa.Function]bool{root: true}
	work := []*ssa.Function{root}
	for len(work) > 0 {
		f := work[len(work)-1]
		work = work[:len(work)-1]
		for _, b := range f.Blocks {
			for _, in := range b.Instrs {
				ci, ok := in.(ssa.CallInstruction)
				if !ok {
					continue
				}
				if _, isGo := in.(*ssa.Go); isGo {
					continue
				}
				for _, callee := range c.M.Callees(ci.Common()) {
					if !seen[callee] {
						seen[callee] = true
						work = append(work, callee)
					}
				}
			}
		}
	}
	return seen
}

type goRoot struct {
	name string
	fn   *ssa.Function
	set  map[*ssa.Function]bool
	site *ssa.Go
	in   *ssa.Function // spawning function
}

// goRootsOf: the goroutine roots of the package (every `go` target, plus the given entry functions as "caller's goroutine").
func (c *Ctx) goRoots(pkgName string, entries ...*ssa.Function) []goRoot {
	var out []goRoot
	for _, e := range entries {
		out = append(out, goRoot{name: "caller of " + c.M.Key(e), fn: e, set: c.reachSync(e)})
	}
	pkg := c.M.SSA[pkgName]
	for _, fn := range c.M.Funcs {
		if fn.Pkg != pkg {
			continue
		}
		for _, b := range fn.Blocks {
			for _, in := range b.Instrs {
				if g, ok := in.(*ssa.Go); ok {
					for _, t := range c.M.Callees(g.Common()) {
						out = append(out, goRoot{name: "go " + c.M.Key(t), fn: t, set: c.reachSync(t), site: g, in: fn})
					}
				}
			}
		}
	}
	return out
}

func (c *Ctx) isFieldLoad(v ssa.Value, st *types.Named, field string) bool {
	ld, ok := v.(*ssa.UnOp)
	if !ok || ld.Op.String() != "*" {
		return false
	}
	fa, ok := ld.X.(*ssa.FieldAddr)
	if !ok {
		return false
	}
	sn := structOf(fa.X.Type())
	return sn != nil && sn.Obj() == st.Obj() && fieldName(fa.X.Type(), fa.Field) == field
}

func (c *Ctx) ruleChan(rule string) {
	ro := c.roles()
	if !ro.ok {
		return
	}
	entry := c.fn(rule, "atp.RunATPServer")
	if entry == nil {
		return
	}
	roots := c.goRoots("atp", entry)
	rootsOf := func(fn *ssa.Function) []goRoot {
		var out []goRoot
		for _, r := range roots {
			if r.set[fn] {
				out = append(out, r)
			}
		}
		return out
	}
	type sendSite struct {
		fn *ssa.Function
		in ssa.Instruction
		nb bool // non-blocking (select with default)
	}
	var sends []sendSite
	var closes []ssa.Instruction
	var recvLoops []*ssa.Select
	for _, fn := range c.M.Funcs {
		for _, b := range fn.Blocks {
			for _, in := range b.Instrs {
				switch x := in.(type) {
				case *ssa.Send:
					if c.isFieldLoad(x.Chan, ro.serverT, ro.errChan) {
						sends = append(sends, sendSite{fn, in, false})
					}
				case *ssa.Select:
					for _, st := range x.States {
						if c.isFieldLoad(st.Chan, ro.serverT, ro.errChan) {
							if st.Dir == types.SendOnly {
								sends = append(sends, sendSite{fn, in, !x.Blocking})
							} else {
								recvLoops = append(recvLoops, x)
							}
						}
					}
				case ssa.CallInstruction:
					if bi, ok := x.Common().Value.(*ssa.Builtin); ok && bi.Name() == "close" && c.isFieldLoad(x.Common().Args[0], ro.serverT, ro.errChan) {
						closes = append(closes, in)
					}
				case *ssa.UnOp:
					if x.Op.String() == "<-" && c.isFieldLoad(x.X, ro.serverT, ro.errChan) {
						// plain receive loop: not used today
					}
				}
			}
		}
	}
	chName := ro.serverT.Obj().Name() + "." + ro.errChan
	// (c) non-blocking sends lose reports
	for _, s := range sends {
		if s.nb {
			c.R.Bad(rule, key(rule, c.M.Key(s.fn), "non-blocking send on "+chName), c.M.InstrPos(s.in), "error report sent with a non-blocking send",
				"the channel has a small fixed buffer and a single consumer: when it is full the report is dropped, so the run never gets its terminal message and the client's Execute waits forever")
		}
	}
	// (a) close vs. senders in other goroutines
	for _, cl := range closes {
		cfn := cl.Parent()
		croots := rootsOf(cfn)
		seenRoot := map[string]bool{}
		for _, s := range sends {
			for _, sr := range rootsOf(s.fn) {
				same := false
				for _, cr := range croots {
					if cr.fn == sr.fn {
						same = true
					}
				}
				if same || seenRoot[sr.name] {
					continue
				}
				seenRoot[sr.name] = true
				k := key(rule, "close("+chName+") in "+c.M.Key(cfn), "senders in "+sr.name)
				// joined before the close?
				joined := false
				for _, b := range cfn.Blocks {
					for _, in := range b.Instrs {
						if call, ok := in.(*ssa.Call); ok {
							if _, ok := c.wgOfCall(&call.Call, "Wait"); ok && instrDominates(call, cl) {
								joined = true
							}
						}
					}
				}
				if joined {
					c.R.Ok(rule, k, c.M.InstrPos(cl), "close of the error channel", "a WaitGroup.Wait dominating the close joins the sending goroutines first")
				} else {
					c.R.Bad(rule, k, c.M.InstrPos(cl), "error channel closed while another goroutine may still send on it",
						"the goroutine "+sr.name+" sends on "+chName+" (e.g. at "+c.M.InstrPos(s.in)+") and is not joined before this close: a step that fails after the read loop ended panics with `send on closed channel`")
				}
			}
		}
	}
	// (a') the join is only worth something if a goroutine's reports precede its Done: once the last Done is through,
	// the closer may close the channel. A send that can run after the goroutine's own Done - in the code behind a
	// direct Done call, in a deferred function that was registered before a deferred Done (defers run last-in
	// first-out), or in the caller after the function that releases the WaitGroup has returned - is a send on a
	// channel that may be closed.
	sendFns := map[*ssa.Function]bool{}
	for _, sd := range sends {
		sendFns[sd.fn] = true
	}
	reachesSend := func(f *ssa.Function) bool {
		for g := range c.reachSync(f) {
			if sendFns[g] {
				return true
			}
		}
		return false
	}
	// instructions of fn that can execute after `after` (CFG order), as a predicate
	canFollow := func(fn *ssa.Function, after ssa.Instruction) func(ssa.Instruction) bool {
		reach := map[*ssa.BasicBlock]bool{}
		var walk func(b *ssa.BasicBlock)
		walk = func(b *ssa.BasicBlock) {
			for _, sc := range b.Succs {
				if !reach[sc] {
					reach[sc] = true
					walk(sc)
				}
			}
		}
		walk(after.Block())
		return func(in ssa.Instruction) bool {
			if in.Block() == after.Block() {
				seenAfter := false
				for _, x := range after.Block().Instrs {
					if x == after {
						seenAfter = true
						continue
					}
					if x == in {
						return seenAfter || reach[in.Block()]
					}
				}
			}
			return reach[in.Block()]
		}
	}
	sendLike := func(in ssa.Instruction) bool {
		switch x := in.(type) {
		case *ssa.Send:
			return c.isFieldLoad(x.Chan, ro.serverT, ro.errChan)
		case *ssa.Select:
			for _, st := range x.States {
				if st.Dir == types.SendOnly && c.isFieldLoad(st.Chan, ro.serverT, ro.errChan) {
					return true
				}
			}
		case *ssa.Call:
			for _, callee := range c.M.Callees(&x.Call) {
				if reachesSend(callee) {
					return true
				}
			}
		}
		return false
	}
	nDone := 0
	var checkAfter func(fn *ssa.Function, release ssa.Instruction, deferred bool, depth int) string
	checkAfter = func(fn *ssa.Function, release ssa.Instruction, deferred bool, depth int) string {
		follows := canFollow(fn, release)
		for _, b := range fn.Blocks {
			for _, in := range b.Instrs {
				if d, ok := in.(*ssa.Defer); ok && in != release {
					sendsLater := false
					for _, callee := range c.M.Callees(d.Common()) {
						if reachesSend(callee) {
							sendsLater = true
						}
					}
					if !sendsLater {
						continue
					}
					// a deferred sender runs after a direct release; after a deferred release iff it was registered first
					if !deferred || canFollow(fn, in)(release) {
						return "the deferred function registered at " + c.M.InstrPos(in) + " can report on " + chName + " and runs after the release at " + c.M.InstrPos(release)
					}
					continue
				}
				if !deferred && follows(in) && sendLike(in) {
					return "the report at " + c.M.InstrPos(in) + " can run after the release at " + c.M.InstrPos(release)
				}
			}
		}
		if depth >= 3 {
			return ""
		}
		// what the same goroutine does after fn has returned
		for _, g := range c.M.Funcs {
			for _, b := range g.Blocks {
				for _, in := range b.Instrs {
					call, ok := in.(*ssa.Call)
					if !ok {
						continue
					}
					for _, callee := range c.M.Callees(&call.Call) {
						if callee == fn {
							if why := checkAfter(g, call, false, depth+1); why != "" {
								return why
							}
						}
					}
				}
			}
		}
		return ""
	}
	for _, fn := range c.M.SortedFuncs(c.scopePkg("atp")) {
		cnt := 0
		for _, b := range fn.Blocks {
			for _, in := range b.Instrs {
				var cc *ssa.CallCommon
				deferred := false
				switch x := in.(type) {
				case *ssa.Call:
					cc = &x.Call
				case *ssa.Defer:
					cc, deferred = &x.Call, true
				default:
					continue
				}
				if _, ok := c.wgOfCall(cc, "Done"); !ok || !c.methodOrClosureOf(fn, ro.serverT) {
					continue
				}
				nDone++
				cnt++
				k := key(rule, c.M.Key(fn), sprintf("WaitGroup.Done #%d: no report on %s can follow it in this goroutine", cnt, chName))
				if why := checkAfter(fn, in, deferred, 0); why == "" {
					c.R.Ok(rule, k, c.M.InstrPos(in), "release of the session WaitGroup", "nothing that can send on "+chName+" runs after it: not the code behind it, not a deferred function (a deferred Done runs after every defer registered later, before every defer registered earlier), not the callers after the function has returned")
				} else {
					c.R.Bad(rule, k, c.M.InstrPos(in), "a goroutine can report on "+chName+" after it has released the session WaitGroup",
						why+": once the last Done is through, the closer closes the channel; the late report is a send on a closed channel (it kills the plugin process - inside a deferred function while panicking nothing recovers it) or is lost")
				}
			}
		}
	}
	if nDone == 0 {
		c.R.Unresolved(rule, "WaitGroup.Done calls of the server session's goroutines")
	}
	// (b) the receiver loop must only stop when the channel is closed
	for _, sel := range recvLoops {
		fn := sel.Parent()
		loop := map[*ssa.BasicBlock]bool{}
		h := sel.Block()
		// natural loop of back edges into h
		loop[h] = true
		var stack []*ssa.BasicBlock
		for _, p := range h.Preds {
			if h.Dominates(p) && !loop[p] {
				loop[p] = true
				stack = append(stack, p)
			}
		}
		for len(stack) > 0 {
			b := stack[len(stack)-1]
			stack = stack[:len(stack)-1]
			for _, p := range b.Preds {
				if !loop[p] {
					loop[p] = true
					stack = append(stack, p)
				}
			}
		}
		n := 0
		for _, b := range fn.Blocks {
			if !h.Dominates(b) {
				continue
			}
			// exits: edges from a block dominated by h to a block outside the loop, and returns in non-loop blocks dominated by h
			for _, s := range b.Succs {
				if (loop[b] || !loop[b] && false) && !loop[s] && h.Dominates(s) {
					// classify the edge
					if len(b.Instrs) == 0 {
						continue
					}
					desc := "jump"
					closedExit := false
					if ifi, ok := b.Instrs[len(b.Instrs)-1].(*ssa.If); ok {
						truth := b.Succs[0] == s
						desc = c.condDesc(fn, ifi.Cond, truth)
						if e, ok := ifi.Cond.(*ssa.Extract); ok && e.Tuple == ssa.Value(sel) && e.Index == 1 && !truth {
							closedExit = true
						}
					}
					if isPanicOnly(s) {
						continue
					}
					n++
					k := key(rule, c.M.Key(fn), "receive loop on "+chName+" left when "+desc)
					if closedExit {
						c.R.Ok(rule, k, c.M.InstrPos(b.Instrs[len(b.Instrs)-1]), "exit of the error-report loop", "taken only when the channel has been closed (no sender is left)")
					} else if c.defersDrain(fn, ro) && exitReportsServerFatal(s) {
						c.R.Ok(rule, k, c.M.InstrPos(b.Instrs[len(b.Instrs)-1]), "exit of the error-report loop", "this exit returns a server-fatal error of its own (the session is given up), and the function defers the start of a goroutine that keeps receiving from the channel until it is closed: later reports are not forwarded, but nobody blocks")
					} else if c.defersDrain(fn, ro) {
						c.R.Bad(rule, k, c.M.InstrPos(b.Instrs[len(b.Instrs)-1]), "error-report loop stops forwarding while the session goes on",
							"after this exit the deferred drain takes the reports of the steps that are still running and discards them: those runs never get their terminal message, and their failures are not among the returned errors")
					} else {
						c.R.Bad(rule, k, c.M.InstrPos(b.Instrs[len(b.Instrs)-1]), "error-report loop can stop while senders are still running",
							"after this exit nobody receives from "+chName+" (buffer 3); goroutines counted by the session WaitGroup that report an error later block in their send forever, and RunATPServer's final Wait never returns")
					}
				}
			}
		}
		_ = n
	}
	c.R.Floor(rule, 3)
	// the client side (send / close of the callers' signal channels) is R-SIGCHAN's business
}

func isPanicOnly(b *ssa.BasicBlock) bool {
	if len(b.Instrs) == 0 {
		return false
	}
	_, ok := b.Instrs[len(b.Instrs)-1].(*ssa.Panic)
	return ok
}

// condDesc renders a branch condition without positions or register names.
func (c *Ctx) condDesc(fn *ssa.Function, v ssa.Value, truth bool) string {
	neg := ""
	if !truth {
		neg = "not "
	}
	switch x := v.(type) {
	case *ssa.BinOp:
		return neg + "(" + c.opnd(fn, x.X) + " " + x.Op.String() + " " + c.opnd(fn, x.Y) + ")"
	case *ssa.Extract:
		if sel, ok := x.Tuple.(*ssa.Select); ok {
			_ = sel
			return neg + "select result #" + string(rune('0'+x.Index))
		}
	case *ssa.UnOp:
		return neg + c.stable(fn, c.M.ValPath(x))
	}
	return neg + c.stable(fn, c.M.ValPath(v))
}

func (c *Ctx) opnd(fn *ssa.Function, v ssa.Value) string {
	if cst, ok := v.(*ssa.Const); ok {
		if cst.Value == nil {
			return "nil"
		}
		return cst.Value.ExactString()
	}
	if e, ok := v.(*ssa.Extract); ok {
		if _, ok := e.Tuple.(*ssa.Select); ok {
			return "select index"
		}
	}
	return c.stable(fn, c.M.ValPath(v))
}

// ---------- R-EXACTLYONE ----------

type cnt struct{ min, max int } // capped at 2

func capc(x int) int {
	if x > 2 {
		return 2
	}
	return x
}
func (a cnt) add(b cnt) cnt { return cnt{capc(a.min + b.min), capc(a.max + b.max)} }
func (a cnt) join(b cnt) cnt {
	r := a
	if b.min < r.min {
		r.min = b.min
	}
	if b.max > r.max {
		r.max = b.max
	}
	return r
}

// emissions counts, for one instruction, the terminal messages it emits for the run: a send on the error channel,
// a call of the server's send function with the work-done message id, or a call of a helper with a known count.
func (c *Ctx) emissionOf(in ssa.Instruction, ro *atpRoles, workDoneID int64, memo map[*ssa.Function]*cnt, depth int) cnt {
	switch x := in.(type) {
	case *ssa.Send:
		if c.isFieldLoad(x.Chan, ro.serverT, ro.errChan) {
			return cnt{1, 1}
		}
	case *ssa.Select:
		for _, st := range x.States {
			if st.Dir == types.SendOnly && c.isFieldLoad(st.Chan, ro.serverT, ro.errChan) {
				if x.Blocking && len(x.States) == 1 {
					return cnt{1, 1}
				}
				return cnt{0, 1}
			}
		}
	case *ssa.Call:
		cs := c.M.Callees(&x.Call)
		if len(cs) != 1 || !c.methodOrClosureOf(cs[0], ro.serverT) {
			return cnt{}
		}
		callee := cs[0]
		// the send function: first non-receiver parameter is the message id
		if len(x.Call.Args) >= 2 {
			if id, ok := core.ConstInt(x.Call.Args[1]); ok && c.encodesMessage(callee) {
				if id == workDoneID {
					return cnt{1, 1}
				}
				return cnt{}
			}
		}
		if depth < 4 {
			return c.emissionSummary(callee, ro, workDoneID, memo, depth+1)
		}
	}
	return cnt{}
}

// encodesMessage: fn (or a goroutine it joins) calls Encode on the server's encoder.
func (c *Ctx) encodesMessage(fn *ssa.Function) bool {
	for f := range c.M.Reachable([]*ssa.Function{fn}, nil) {
		for _, b := range f.Blocks {
			for _, in := range b.Instrs {
				if call, ok := in.(*ssa.Call); ok && strings.HasSuffix(core.StaticCalleeName(&call.Call), "cbor/v2.Encoder).Encode") {
					return true
				}
			}
		}
	}
	return false
}

func (c *Ctx) emissionSummary(fn *ssa.Function, ro *atpRoles, workDoneID int64, memo map[*ssa.Function]*cnt, depth int) cnt {
	if v, ok := memo[fn]; ok {
		if v == nil {
			return cnt{}
		}
		return *v
	}
	memo[fn] = nil
	in := c.countFlow(fn, ro, workDoneID, memo, depth)
	res := cnt{2, 0}
	any := false
	for _, r := range core.ReturnInstrs(fn) {
		st := in[r.Block().Index]
		for _, ins := range r.Block().Instrs {
			st = st.add(c.emissionOf(ins, ro, workDoneID, memo, depth))
		}
		res = res.join(st)
		any = true
	}
	if !any {
		res = cnt{}
	}
	memo[fn] = &res
	return res
}

func (c *Ctx) countFlow(fn *ssa.Function, ro *atpRoles, workDoneID int64, memo map[*ssa.Function]*cnt, depth int) []cnt {
	n := len(fn.Blocks)
	in := make([]cnt, n)
	out := make([]cnt, n)
	vis := make([]bool, n)
	if n == 0 {
		return in
	}
	vis[0] = true
	for iter, changed := 0, true; changed && iter < 50; iter++ {
		changed = false
		for _, b := range fn.Blocks {
			var st cnt
			first := true
			if b.Index == 0 {
				st = cnt{}
				first = false
			}
			for _, p := range b.Preds {
				if !vis[p.Index] {
					continue
				}
				if first {
					st = out[p.Index]
					first = false
				} else {
					st = st.join(out[p.Index])
				}
			}
			if first {
				continue
			}
			vis[b.Index] = true
			if st != in[b.Index] {
				in[b.Index] = st
				changed = true
			}
			o := st
			for _, ins := range b.Instrs {
				o = o.add(c.emissionOf(ins, ro, workDoneID, memo, depth))
			}
			if o != out[b.Index] {
				out[b.Index] = o
				changed = true
			}
		}
	}
	return in
}

func (c *Ctx) ruleExactlyOne(rule string) {
	ro := c.roles()
	if !ro.ok {
		return
	}
	// the work-done message id constant (exported protocol constant)
	var workDoneID int64 = -1
	if obj, ok := c.M.Types["atp"].Scope().Lookup("MessageTypeWorkDone").(*types.Const); ok {
		if v, exact := constant.Int64Val(obj.Val()); exact {
			workDoneID = v
		}
	}
	if workDoneID < 0 {
		c.R.Unresolved(rule, "constant atp.MessageTypeWorkDone")
		return
	}
	callStep := c.fn(rule, "schema.CallableSchema.CallStep")
	if callStep == nil {
		return
	}
	// the step runner: the recover-scope method of the server from which CallStep is reachable
	var runner *ssa.Function
	for _, fn := range c.M.Funcs {
		if c.isMethodOf(fn, ro.serverT) && isRecoverScope(fn) && c.M.Reachable([]*ssa.Function{fn}, nil)[callStep] {
			runner = fn
		}
	}
	if runner == nil {
		c.R.Unresolved(rule, "step runner (recover-protected server method that reaches CallStep)")
		return
	}
	memo := map[*ssa.Function]*cnt{}
	in := c.countFlow(runner, ro, workDoneID, memo, 0)
	rets := core.ReturnInstrs(runner)
	sort.Slice(rets, func(i, j int) bool { return rets[i].Pos() < rets[j].Pos() })
	// deferred recover closure: emits exactly one when recover() != nil and none otherwise
	var deferred *ssa.Function
	for _, b := range runner.Blocks {
		for _, ins := range b.Instrs {
			if d, ok := ins.(*ssa.Defer); ok {
				if mc, ok := d.Call.Value.(*ssa.MakeClosure); ok {
					if f, ok := mc.Fn.(*ssa.Function); ok && callsRecover(f) {
						deferred = f
					}
				}
				// ... or a named function or method of the package, deferred directly (it calls recover itself)
				if f := core.StaticBody(&d.Call); f != nil && callsRecover(f) {
					deferred = f
				}
			}
		}
	}
	for i, r := range rets {
		st := in[r.Block().Index]
		for _, ins := range r.Block().Instrs {
			st = st.add(c.emissionOf(ins, ro, workDoneID, memo, 0))
		}
		k := key(rule, c.M.Key(runner), sprintf("normal exit#%d (%s)", i+1, c.exitDesc(r)))
		if st.min == 1 && st.max == 1 {
			c.R.Ok(rule, k, c.M.InstrPos(r), "terminal messages on a path of the step runner", "every path to this exit emits exactly one terminal message (work-done, or a step-fatal error report)")
		} else {
			c.R.Bad(rule, k, c.M.InstrPos(r), sprintf("step runner path emits between %d and %d terminal messages", st.min, st.max),
				"the client's Execute for this run ID either never gets an answer (0) or gets a second one that is reported as a protocol error (2)")
		}
	}
	// panic path: nothing emitted before the call into plugin code; the deferred closure emits one iff recover() != nil
	for _, b := range runner.Blocks {
		st := in[b.Index]
		for _, ins := range b.Instrs {
			if call, ok := ins.(*ssa.Call); ok {
				for _, callee := range c.M.Callees(&call.Call) {
					if callee == callStep {
						k := key(rule, c.M.Key(runner), "panic path: before the call into step code")
						if st.max == 0 {
							c.R.Ok(rule, k, c.M.InstrPos(call), "terminal messages before step code runs", "none: a panic in step code is answered by the recover handler alone")
						} else {
							c.R.Bad(rule, k, c.M.InstrPos(call), "a terminal message may be emitted before step code runs", "a panic afterwards yields a second terminal message")
						}
					}
				}
			}
			st = st.add(c.emissionOf(ins, ro, workDoneID, memo, 0))
		}
	}
	if deferred == nil {
		c.R.Unresolved(rule, "deferred recover closure of the step runner")
		return
	}
	din := c.countFlow(deferred, ro, workDoneID, memo, 0)
	isRecoverNonNil := func(conds []core.Cond) (bool, bool) {
		for _, cond := range conds {
			if x, neq, ok := core.NilCmp(cond.V); ok {
				if call, ok := x.(*ssa.Call); ok {
					if bi, ok := call.Call.Value.(*ssa.Builtin); ok && bi.Name() == "recover" {
						return neq == cond.True, true
					}
				}
			}
		}
		return false, false
	}
	type exitPath struct {
		st    cnt
		conds []core.Cond
		pos   string
	}
	var paths []exitPath
	for _, r := range core.ReturnInstrs(deferred) {
		rb := r.Block()
		tail := cnt{}
		for _, ins := range rb.Instrs {
			tail = tail.add(c.emissionOf(ins, ro, workDoneID, memo, 0))
		}
		if len(rb.Preds) <= 1 {
			paths = append(paths, exitPath{din[rb.Index].add(tail), core.CondsAt(rb), c.M.InstrPos(r)})
			continue
		}
		for _, p := range rb.Preds {
			st := din[p.Index]
			for _, ins := range p.Instrs {
				st = st.add(c.emissionOf(ins, ro, workDoneID, memo, 0))
			}
			conds := core.CondsAt(p)
			if ifi, ok := p.Instrs[len(p.Instrs)-1].(*ssa.If); ok && p.Succs[0] != p.Succs[1] {
				conds = append(conds, core.Cond{V: ifi.Cond, True: p.Succs[0] == rb})
			}
			paths = append(paths, exitPath{st.add(tail), conds, c.M.InstrPos(r)})
		}
	}
	seenBranch := map[string]bool{}
	for _, ep := range paths {
		recovered, known := isRecoverNonNil(ep.conds)
		want := 0
		name := "no panic"
		if !known {
			name = "undetermined"
			want = -1
		} else if recovered {
			want = 1
			name = "recovered panic"
		}
		k := key(rule, c.M.Key(deferred), "recover handler: "+name)
		if seenBranch[k] && ep.st.min == want && ep.st.max == want {
			continue
		}
		seenBranch[k] = true
		if ep.st.min == want && ep.st.max == want {
			c.R.Ok(rule, k, ep.pos, "terminal messages emitted by the recover handler", sprintf("exactly %d on the %s branch", want, name))
		} else {
			c.R.Bad(rule, k, ep.pos, sprintf("recover handler emits %d..%d terminal messages on the %s branch", ep.st.min, ep.st.max, name), "a panicking step must be answered by exactly one step-fatal error, a normally returning one by none from here")
		}
	}
	c.R.Floor(rule, 4)
}

// ---------- R-DELIVER ----------

// deliveryFns: client functions that (transitively) store an execution entry's result.
func (c *Ctx) deliveryFns(ro *atpRoles) map[*ssa.Function]bool {
	out := map[*ssa.Function]bool{}
	direct := map[*ssa.Function]bool{}
	for _, fn := range c.M.Funcs {
		if !c.methodOrClosureOf(fn, ro.clientT) {
			continue
		}
		for _, b := range fn.Blocks {
			for _, in := range b.Instrs {
				if st, ok := in.(*ssa.Store); ok {
					if fa, ok := st.Addr.(*ssa.FieldAddr); ok {
						if sn := structOf(fa.X.Type()); sn != nil && sn.Obj().Pkg() == ro.clientT.Obj().Pkg() {
							if est := fieldsOf(sn); est != nil {
								for i := 0; i < est.NumFields(); i++ {
									if isNamed(est.Field(i).Type(), "sync", "Cond") {
										if _, isAlloc := fa.X.(*ssa.Alloc); !isAlloc {
											direct[fn] = true
										}
									}
								}
							}
						}
					}
				}
			}
		}
	}
	for _, fn := range c.M.Funcs {
		if !c.methodOrClosureOf(fn, ro.clientT) {
			continue
		}
		for f := range c.reachSync(fn) {
			if direct[f] {
				out[fn] = true
			}
		}
	}
	return out
}

func (c *Ctx) ruleDeliver(rule string) {
	ro := c.roles()
	if !ro.ok {
		return
	}
	deliver := c.deliveryFns(ro)
	for _, fn := range c.M.Funcs {
		if !c.methodOrClosureOf(fn, ro.clientT) {
			continue
		}
		for _, b := range fn.Blocks {
			for _, in := range b.Instrs {
				call, ok := in.(*ssa.Call)
				if !ok {
					continue
				}
				n := core.StaticCalleeName(&call.Call)
				isDecode := strings.HasSuffix(n, "cbor/v2.Decoder).Decode") || strings.HasSuffix(n, "cbor/v2.Unmarshal")
				if call.Call.IsInvoke() && call.Call.Method.Name() == "Unmarshal" && isCborPkg(call.Call.Method.Pkg()) {
					isDecode = true // DecMode.Unmarshal
				}
				if !isDecode {
					continue
				}
				// decoded target type
				target := call.Call.Args[len(call.Call.Args)-1]
				tdesc := "value"
				if mi, ok := target.(*ssa.MakeInterface); ok {
					tdesc = strings.TrimPrefix(typeStr(mi.X.Type()), "*")
				}
				k := key(rule, c.M.Key(fn), "decode of "+tdesc)
				pos := c.M.InstrPos(call)
				// find the error branch
				var errBlock *ssa.BasicBlock
				if refs := call.Referrers(); refs != nil {
					for _, r := range *refs {
						if bin, ok := r.(*ssa.BinOp); ok {
							if _, neq, isNil := core.NilCmp(bin); isNil {
								for _, r2 := range *bin.Referrers() {
									if ifi, ok := r2.(*ssa.If); ok {
										if neq {
											errBlock = ifi.Block().Succs[0]
										} else {
											errBlock = ifi.Block().Succs[1]
										}
									}
								}
							}
						}
					}
				}
				if errBlock == nil {
					c.R.Bad(rule, k, pos, "decode error is never tested", "the partially decoded value is used as if it had arrived intact")
					continue
				}
				if c.allPathsDeliver(fn, errBlock, deliver) {
					c.R.Ok(rule, k, pos, "decode error handling", "on the error branch every path reaches the affected waiter(s) (result store + wake-up) or returns the error to the caller")
				} else {
					c.R.Bad(rule, k, pos, "decode error that reaches nobody",
						"some path from the error branch to the end of the function neither delivers an error result to a waiting Execute nor returns it: the run's caller stays blocked")
				}
			}
		}
	}
	// every message read by the read loop must be handed to a handler
	fn := ro.readLoop
	for _, b := range fn.Blocks {
		for _, in := range b.Instrs {
			call, ok := in.(*ssa.Call)
			if !ok || !strings.HasSuffix(core.StaticCalleeName(&call.Call), "cbor/v2.Decoder).Decode") {
				continue
			}
			// message variable: the alloc passed to Decode
			var msg ssa.Value
			if mi, ok := call.Call.Args[len(call.Call.Args)-1].(*ssa.MakeInterface); ok {
				msg = mi.X
			}
			if msg == nil {
				continue
			}
			// success successor
			var okBlock *ssa.BasicBlock
			if refs := call.Referrers(); refs != nil {
				for _, r := range *refs {
					if bin, ok := r.(*ssa.BinOp); ok {
						if _, neq, isNil := core.NilCmp(bin); isNil {
							for _, r2 := range *bin.Referrers() {
								if ifi, ok := r2.(*ssa.If); ok {
									if neq {
										okBlock = ifi.Block().Succs[1]
									} else {
										okBlock = ifi.Block().Succs[0]
									}
								}
							}
						}
					}
				}
			}
			if okBlock == nil {
				continue
			}
			k := key(rule, c.M.Key(fn), "every decoded runtime message is handed to a handler")
			missing := c.pathWithoutHandler(fn, okBlock, call.Block(), msg, ro)
			if missing == "" {
				c.R.Ok(rule, k, c.M.InstrPos(call), "dispatch of decoded messages", "every path from a successful decode back to the next read passes a client method that receives the message")
			} else {
				c.R.Bad(rule, k, c.M.InstrPos(call), "a decoded message can be dropped without telling anyone",
					"the path through "+missing+" reaches the next read without any client method receiving the message (only logging): if its ID byte was corrupted, the run it belonged to never completes")
			}
		}
	}
	c.deliverResultClause(rule, ro, deliver)
	c.R.Floor(rule, 8)
}

// deliverResultClause: a work-done message that decoded must reach a waiter. Its run ID travels in the same bytes as
// everything else: where the pending table has no entry for it, the message was some pending run's result (or the
// stream is damaged in other ways), and every waiter must be failed. In the read loop's handler of work-done
// messages, every path from the successful decode to a return passes
//   - a call that fails all waiters (a function all of whose paths reach a loop over the pending table that delivers), or
//   - a delivery made where a comma-ok lookup of the run in the pending table is known to have found an entry.
func (c *Ctx) deliverResultClause(rule string, ro *atpRoles, deliver map[*ssa.Function]bool) {
	ranges := map[*ssa.Function]bool{}
	for fn := range deliver {
		for _, b := range fn.Blocks {
			for _, in := range b.Instrs {
				if rg, ok := in.(*ssa.Range); ok && c.isFieldLoad(rg.X, ro.clientT, ro.pending) {
					ranges[fn] = true
				}
			}
		}
	}
	mustFailAll := map[*ssa.Function]bool{}
	for f := range ranges {
		mustFailAll[f] = true
	}
	passesAll := func(fn *ssa.Function) bool {
		seen := map[*ssa.BasicBlock]bool{}
		var walk func(b *ssa.BasicBlock) bool
		walk = func(b *ssa.BasicBlock) bool {
			for _, in := range b.Instrs {
				switch x := in.(type) {
				case *ssa.Call:
					for _, callee := range c.M.Callees(&x.Call) {
						if mustFailAll[callee] {
							return true
						}
					}
				case *ssa.Return:
					return false
				case *ssa.Panic:
					return true
				}
			}
			for _, s := range b.Succs {
				if seen[s] {
					continue
				}
				seen[s] = true
				if !walk(s) {
					return false
				}
			}
			return len(b.Succs) > 0
		}
		return len(fn.Blocks) > 0 && walk(fn.Blocks[0])
	}
	for round := 0; round < 4; round++ {
		for _, fn := range c.M.SortedFuncs(c.scopePkg("atp")) {
			if !mustFailAll[fn] && c.methodOrClosureOf(fn, ro.clientT) && passesAll(fn) {
				mustFailAll[fn] = true
			}
		}
	}
	failsAll := func(in2 ssa.Instruction) bool {
		y, ok := in2.(*ssa.Call)
		if !ok {
			return false
		}
		for _, callee := range c.M.Callees(&y.Call) {
			if mustFailAll[callee] {
				return true
			}
		}
		return false
	}
	// ... or, in a helper that decides for the handler, return an error that the handler answers by failing
	// all waiters
	errReturn := func(h *ssa.Function, in2 ssa.Instruction) bool {
		r, ok := in2.(*ssa.Return)
		if !ok {
			return false
		}
		ei := core.ErrorResultIndex(h.Signature)
		return ei >= 0 && ei < len(r.Results) && c.M.ProvablyNonNilError(core.RetVal(r, ei), r.Block())
	}
	// the handler answers every error of the helper by failing all waiters
	answered := func(h *ssa.Function) bool {
		sites := core.PlainSites(h)
		ei := core.ErrorResultIndex(h.Signature)
		if len(sites) == 0 || ei < 0 {
			return false
		}
		for _, site := range sites {
			var errBlock *ssa.BasicBlock
			var errV ssa.Value = site
			if h.Signature.Results().Len() > 1 {
				errV = nil
				if site.Referrers() != nil {
					for _, r := range *site.Referrers() {
						if ex, ok := r.(*ssa.Extract); ok && ex.Index == ei {
							errV = ex
						}
					}
				}
			}
			if errV == nil || errV.Referrers() == nil {
				return false
			}
			for _, r := range *errV.Referrers() {
				if bin, ok := r.(*ssa.BinOp); ok {
					if _, neq, isNil := core.NilCmp(bin); isNil && bin.Referrers() != nil {
						for _, r2 := range *bin.Referrers() {
							if ifi, ok := r2.(*ssa.If); ok {
								if neq {
									errBlock = ifi.Block().Succs[0]
								} else {
									errBlock = ifi.Block().Succs[1]
								}
							}
						}
					}
				}
			}
			if errBlock == nil || !everyPathSat(errBlock, func(_ *ssa.BasicBlock, in2 ssa.Instruction) bool { return failsAll(in2) }) {
				return false
			}
		}
		return true
	}
	inTree := c.M.Reachable([]*ssa.Function{ro.readLoop}, nil)
	n := 0
	for _, fn := range c.M.SortedFuncs(c.scopePkg("atp")) {
		if !inTree[fn] || fn == ro.readLoop || !c.methodOrClosureOf(fn, ro.clientT) {
			continue
		}
		for _, b := range fn.Blocks {
			for _, in := range b.Instrs {
				call, ok := in.(*ssa.Call)
				if !ok {
					continue
				}
				isDecode := strings.HasSuffix(core.StaticCalleeName(&call.Call), "cbor/v2.Unmarshal") ||
					(call.Call.IsInvoke() && call.Call.Method.Name() == "Unmarshal" && isCborPkg(call.Call.Method.Pkg()))
				if !isDecode {
					continue
				}
				mi, ok := call.Call.Args[len(call.Call.Args)-1].(*ssa.MakeInterface)
				if !ok || !strings.HasSuffix(typeStr(mi.X.Type()), "WorkDoneMessage") {
					continue
				}
				var okBlock *ssa.BasicBlock
				if refs := call.Referrers(); refs != nil {
					for _, r := range *refs {
						if bin, ok := r.(*ssa.BinOp); ok {
							if _, neq, isNil := core.NilCmp(bin); isNil {
								for _, r2 := range *bin.Referrers() {
									if ifi, ok := r2.(*ssa.If); ok {
										if neq {
											okBlock = ifi.Block().Succs[1]
										} else {
											okBlock = ifi.Block().Succs[0]
										}
									}
								}
							}
						}
					}
				}
				if okBlock == nil {
					continue
				}
				n++
				k := key(rule, c.M.Key(fn), "a decoded result reaches its waiter, or all of them")
				found := func(blk *ssa.BasicBlock) bool {
					for _, cond := range core.CondsAt(blk) {
						if ex, ok := cond.V.(*ssa.Extract); ok && ex.Index == 1 && cond.True {
							if lk, ok := ex.Tuple.(*ssa.Lookup); ok && lk.CommaOk && c.isFieldLoad(lk.X, ro.clientT, ro.pending) {
								return true
							}
						}
					}
					return false
				}
				// a delivery that reports whether it reached a waiting call, tested by the handler: on the "did not"
				// outcome every path must fail all waiters
				testedDelivery := func(x *ssa.Call, in *ssa.Function, upwards bool) bool {
					if x.Referrers() == nil {
						return false
					}
					for _, r := range *x.Referrers() {
						ifi, isIf := r.(*ssa.If)
						if !isIf {
							continue
						}
						notDelivered := ifi.Block().Succs[1]
						return everyPathSat(notDelivered, func(_ *ssa.BasicBlock, in2 ssa.Instruction) bool {
							return failsAll(in2) || (upwards && errReturn(in, in2))
						})
					}
					return false
				}
				var sat func(in *ssa.Function, upwards bool, depth int) func(blk *ssa.BasicBlock, in2 ssa.Instruction) bool
				sat = func(in *ssa.Function, upwards bool, depth int) func(blk *ssa.BasicBlock, in2 ssa.Instruction) bool {
					return func(blk *ssa.BasicBlock, in2 ssa.Instruction) bool {
						if upwards && errReturn(in, in2) {
							return true
						}
						x, ok := in2.(*ssa.Call)
						if !ok {
							return false
						}
						for _, callee := range c.M.Callees(&x.Call) {
							if mustFailAll[callee] || (deliver[callee] && (found(blk) || testedDelivery(x, in, upwards))) {
								return true
							}
						}
						// a helper of the client that decides for the handler: every path of it delivers, fails all waiters or
						// returns an error, and the handler answers its errors by failing all waiters
						if h := core.StaticBody(&x.Call); h != nil && depth < 2 && h != in && c.methodOrClosureOf(h, ro.clientT) && len(h.Blocks) > 0 {
							if answered(h) && everyPathSat(h.Blocks[0], sat(h, true, depth+1)) {
								return true
							}
						}
						return false
					}
				}
				reaches := everyPathSat(okBlock, sat(fn, false, 0))
				if reaches {
					c.R.Ok(rule, k, c.M.InstrPos(call), "a work-done message that decoded", "every path to the handler's return delivers to the run's entry where the pending table is known to hold one (or tests whether the delivery reached a waiting call, failing all waiters where it did not), or fails all waiters")
				} else {
					c.R.Bad(rule, k, c.M.InstrPos(call), "a decoded result can be dropped when no run of that ID is waiting",
						"a path from the successful decode to the handler's return delivers without knowing that the pending table holds the run (the delivery only logs when it does not) and fails nobody: one changed bit in the run ID loses the result of a pending run, whose Execute call never returns")
				}
			}
		}
	}
	if n == 0 {
		c.R.Unresolved(rule, "handler of work-done messages in the client's read loop")
	}
	// the same for every other per-run delivery the read loop makes (a step-fatal error ends a run like a result does):
	// a call of the function that stores a result, made outside the broadcast functions, is made where the pending
	// table is known to hold the run, or its "reached a waiting call" result is tested and the other outcome fails all
	direct := map[*ssa.Function]bool{}
	for f := range deliver {
		for _, b := range f.Blocks {
			for _, in := range b.Instrs {
				if st, ok := in.(*ssa.Store); ok {
					if fa, ok := st.Addr.(*ssa.FieldAddr); ok {
						if sn := structOf(fa.X.Type()); sn != nil && sn.Obj() != ro.clientT.Obj() && sn.Obj().Pkg() == ro.clientT.Obj().Pkg() {
							if est := fieldsOf(sn); est != nil {
								for i := 0; i < est.NumFields(); i++ {
									if isNamed(est.Field(i).Type(), "sync", "Cond") {
										if _, isAlloc := fa.X.(*ssa.Alloc); !isAlloc {
											direct[f] = true
										}
									}
								}
							}
						}
					}
				}
			}
		}
	}
	// a wrapper that hands on what the storing function reports (takes the mutex for it, say) is a delivery like it
	for round := 0; round < 3; round++ {
		for _, fn := range c.M.SortedFuncs(c.scopePkg("atp")) {
			if direct[fn] || ranges[fn] || !c.methodOrClosureOf(fn, ro.clientT) || fn.Signature.Results().Len() != 1 {
				continue
			}
			if callee, _, ok := core.PassesOn(fn, 0); ok && direct[callee] {
				direct[fn] = true
			}
		}
	}
	m := 0
	for _, fn := range c.M.SortedFuncs(c.scopePkg("atp")) {
		if !inTree[fn] || ranges[fn] || direct[fn] || !c.methodOrClosureOf(fn, ro.clientT) {
			continue
		}
		cnt := 0
		for _, b := range fn.Blocks {
			for _, in := range b.Instrs {
				call, ok := in.(*ssa.Call)
				if !ok {
					continue
				}
				isDirect := false
				for _, callee := range c.M.Callees(&call.Call) {
					if direct[callee] {
						isDirect = true
					}
				}
				if !isDirect {
					continue
				}
				m++
				cnt++
				k := key(rule, c.M.Key(fn), sprintf("per-run delivery #%d reaches a waiting call, or everybody is failed", cnt))
				foundHere := false
				for _, cond := range core.CondsAt(b) {
					if ex, ok := cond.V.(*ssa.Extract); ok && ex.Index == 1 && cond.True {
						if lk, ok := ex.Tuple.(*ssa.Lookup); ok && lk.CommaOk && c.isFieldLoad(lk.X, ro.clientT, ro.pending) {
							foundHere = true
						}
					}
				}
				tested := false
				if refs := call.Referrers(); refs != nil {
					for _, r := range *refs {
						if ifi, isIf := r.(*ssa.If); isIf {
							tested = everyPathSat(ifi.Block().Succs[1], func(_ *ssa.BasicBlock, in2 ssa.Instruction) bool {
								y, ok := in2.(*ssa.Call)
								if !ok {
									return false
								}
								for _, callee := range c.M.Callees(&y.Call) {
									if mustFailAll[callee] {
										return true
									}
								}
								return false
							})
						}
					}
				}
				if !tested {
					// ... or hands an error up to a handler that answers it by failing all waiters
					if refs := call.Referrers(); refs != nil && answered(fn) {
						for _, r := range *refs {
							if ifi, isIf := r.(*ssa.If); isIf {
								tested = everyPathSat(ifi.Block().Succs[1], func(_ *ssa.BasicBlock, in2 ssa.Instruction) bool {
									return failsAll(in2) || errReturn(fn, in2)
								})
							}
						}
					}
				}
				if foundHere || tested {
					c.R.Ok(rule, k, c.M.InstrPos(call), "delivery of one run's result or step-fatal error by the read loop", "made where the pending table is known to hold the run, or its outcome is tested and 'reached nobody' fails all waiters")
				} else {
					c.R.Bad(rule, k, c.M.InstrPos(call), "a result or step-fatal error for one run can be dropped",
						"the delivery only logs when no call is waiting under that run ID (or the run has its result already): one changed bit in the run ID of another run's terminal message loses it, and that run's Execute never returns")
				}
			}
		}
	}
	if m < 2 {
		c.R.Unresolved(rule, sprintf("per-run deliveries made by the read loop's handlers (%d found, at least 2 expected)", m))
	}
}

// allPathsDeliver: every path from start to a Return passes a call to a delivery function, or the Return hands a
// non-nil error / an error result back to the caller.
func (c *Ctx) allPathsDeliver(fn *ssa.Function, start *ssa.BasicBlock, deliver map[*ssa.Function]bool) bool {
	seen := map[*ssa.BasicBlock]bool{}
	var walk func(b *ssa.BasicBlock) bool
	walk = func(b *ssa.BasicBlock) bool {
		if seen[b] {
			return true
		}
		seen[b] = true
		for _, in := range b.Instrs {
			switch x := in.(type) {
			case *ssa.Call:
				for _, callee := range c.M.Callees(&x.Call) {
					if deliver[callee] {
						return true
					}
				}
			case *ssa.Return:
				if fn.Signature.Results().Len() == 0 {
					return false
				}
				ei := core.ErrorResultIndex(fn.Signature)
				if ei >= 0 {
					return c.M.ProvablyNonNilError(core.RetVal(x, ei), b)
				}
				// a result struct built by an error constructor
				for i := range x.Results {
					if call, ok := core.RetVal(x, i).(*ssa.Call); ok && strings.Contains(core.StaticCalleeName(&call.Call), "Error") {
						return true
					}
				}
				return false
			case *ssa.Panic:
				return true
			}
		}
		for _, s := range b.Succs {
			if !walk(s) {
				return false
			}
		}
		return len(b.Succs) > 0
	}
	return walk(start)
}

// pathWithoutHandler: returns a description of a path from start back to `latch` (the block that reads the next
// message) or to a return, on which no client method receives the message; "" if none.
func (c *Ctx) pathWithoutHandler(fn *ssa.Function, start, latch *ssa.BasicBlock, msg ssa.Value, ro *atpRoles) string {
	passesMsg := func(call *ssa.Call) bool {
		if len(c.M.Callees(&call.Call)) == 0 {
			return false
		}
		for _, a := range call.Call.Args {
			if ld, ok := a.(*ssa.UnOp); ok && ld.X == msg {
				return true
			}
			if a == msg {
				return true
			}
		}
		return false
	}
	seen := map[*ssa.BasicBlock]bool{}
	var walk func(b *ssa.BasicBlock, via string) string
	walk = func(b *ssa.BasicBlock, via string) string {
		if b == latch {
			return via
		}
		if seen[b] {
			return ""
		}
		seen[b] = true
		for _, in := range b.Instrs {
			if call, ok := in.(*ssa.Call); ok && passesMsg(call) {
				return ""
			}
			if _, ok := in.(*ssa.Return); ok {
				return ""
			}
		}
		for _, s := range b.Succs {
			v := via
			if b.Comment != "" && v == "" && strings.Contains(b.Comment, "switch") {
				v = "the default case of the message-type switch"
			}
			if r := walk(s, v); r != "" {
				return r
			}
		}
		return ""
	}
	r := walk(start, "")
	if r == "" {
		// distinguish "no path" from "path with empty description"
		seen = map[*ssa.BasicBlock]bool{}
		var reach func(b *ssa.BasicBlock) bool
		reach = func(b *ssa.BasicBlock) bool {
			if b == latch {
				return true
			}
			if seen[b] {
				return false
			}
			seen[b] = true
			for _, in := range b.Instrs {
				if call, ok := in.(*ssa.Call); ok && passesMsg(call) {
					return false
				}
				if _, ok := in.(*ssa.Return); ok {
					return false
				}
			}
			for _, s := range b.Succs {
				if reach(s) {
					return true
				}
			}
			return false
		}
		if reach(start) {
			return "a branch of the message dispatch"
		}
	}
	return r
}

// ---------- R-BLOCKLOCK ----------

func (c *Ctx) ruleBlockLock(rule string) {
	ro := c.roles()
	if !ro.ok {
		return
	}
	stateMutex := ro.mutexOf[ro.clientT]
	for _, fn := range c.M.Funcs {
		if !c.methodOrClosureOf(fn, ro.clientT) {
			continue
		}
		for _, b := range fn.Blocks {
			for _, in := range b.Instrs {
				what := ""
				switch x := in.(type) {
				case *ssa.Send:
					what = "channel send"
				case *ssa.Select:
					if x.Blocking {
						what = "blocking select"
					}
				case *ssa.UnOp:
					if x.Op.String() == "<-" {
						what = "channel receive"
					}
				case *ssa.Call:
					n := core.StaticCalleeName(&x.Call)
					switch {
					case strings.HasSuffix(n, "cbor/v2.Encoder).Encode"):
						what = "encode"
					case strings.HasSuffix(n, "cbor/v2.Decoder).Decode"):
						what = "decode (blocking read)"
					case n == "(*sync.WaitGroup).Wait":
						what = "WaitGroup.Wait"
					case n == "time.Sleep":
						what = "sleep"
					}
				}
				if what == "" {
					continue
				}
				held := false
				mutex := stateMutex
				for _, l := range c.lockedAt(fn, in) {
					for _, mname := range allMutexFields(ro.clientT) {
						if strings.HasSuffix(l, "."+mname) {
							held = true
							mutex = mname
							if mname == stateMutex {
								break
							}
						}
					}
				}
				if !held {
					continue
				}
				k := key(rule, c.M.Key(fn), what+" under the client mutex")
				if mutex != stateMutex {
					k = key(rule, c.M.Key(fn), what+" under "+mutex)
				}
				pos := c.M.InstrPos(in)
				switch {
				case (what == "encode" || what == "decode (blocking read)") && mutex != stateMutex && c.mutexGuardsNoState(ro.clientT, mutex):
					c.R.Ok(rule, k, pos, "blocking operation under a client mutex", "no mutable field of the client is accessed under this mutex: it only makes users of the connection take turns, and blocks nobody who needs the client's state")
				case what == "encode":
					// the state mutex (the one that guards the pending table) must not be held across the transport write:
					// the read loop needs it to deliver what the peer must get rid of before it reads again
					if c.mutexGuardsOnly(ro.clientT, mutex, ro.encoderC) {
						c.R.Ok(rule, k, pos, "blocking operation under a client mutex", "this mutex guards nothing but the encoder: the write is what it serialises")
					} else {
						c.R.Bad(rule, k, pos, "the transport write happens while the client's state mutex is held",
							"the write blocks until the peer reads; the peer may be blocked writing to the client, whose read loop needs this same mutex to take the message: writer -> peer -> read loop -> mutex -> writer; with an unbuffered transport a burst of Executes or signal traffic in both directions leaves every Execute blocked")
					}
				case what == "channel send" && c.sendOnTableChannel(in.(*ssa.Send), ro):
					// formerly excepted (E-SIGNALSEND) as "a caller that stops receiving is outside the premise"; a caller
					// that does receive, and answers each emitted signal with a signal to the step, is inside it, and
					// deadlocks: its answer needs sendCBOR, which needs this mutex (demonstrated, known finding)
					c.R.Bad(rule, k, pos, "the read loop hands an emitted signal to the caller's channel while holding the client mutex",
						"the caller's consumer may itself be waiting for the write loop to take a signal for the step, and the write loop needs this mutex in sendCBOR: read loop -> consumer -> write loop -> mutex -> read loop; Execute then never returns although the peer sends its result")
				default:
					c.R.Bad(rule, k, pos, what+" while the client mutex is held", "every other Execute, result delivery and Close needs this mutex: a peer or caller that does not respond blocks them all")
				}
			}
		}
	}
}

func (c *Ctx) sendOnTableChannel(s *ssa.Send, ro *atpRoles) bool {
	var lk *ssa.Lookup
	if e, ok := s.Chan.(*ssa.Extract); ok {
		lk, _ = e.Tuple.(*ssa.Lookup)
	} else if l, ok := s.Chan.(*ssa.Lookup); ok {
		lk = l
	}
	return lk != nil && strings.HasSuffix(c.M.ValPath(lk.X), "."+ro.sigTable)
}

// mutexGuardsOnly: every field of the struct that is accessed while `mutex` is held (outside construction) is `only`.
func (c *Ctx) mutexGuardsOnly(target *types.Named, mutex, only string) bool {
	n := 0
	for _, a := range c.collectAccesses(target, mutex) {
		if a.constr || !a.locked {
			continue
		}
		if isNamed(fieldType(target, a.field), "sync", "Mutex") {
			continue
		}
		n++
		if a.field != only {
			return false
		}
	}
	return n > 0
}

func fieldType(target *types.Named, name string) types.Type {
	if st, ok := target.Underlying().(*types.Struct); ok {
		for i := 0; i < st.NumFields(); i++ {
			if st.Field(i).Name() == name {
				return st.Field(i).Type()
			}
		}
	}
	return types.Typ[types.Invalid]
}

// R-SIGCHAN (C06): the channels of the client's signal table belong to the caller; the client sends emitted signals on
// them and closes them when the run ends. A close that can run concurrently with a send panics ("send on closed
// channel"), and a send that waits for the caller while the state mutex is held blocks everything that needs the
// mutex (R-BLOCKLOCK). Both are excluded when every send and every close of such a channel is confined to the read
// loop's goroutine: they are then sequential, and no lock is needed across the send. Obligations: every send on and
// every close of a channel looked up in the signal table. Discharge: the site's function is reachable from the read
// loop and from nowhere else (no function outside the read loop's call tree calls into the part of the tree that
// contains it); or, failing that for any site, every site holds the state mutex.
func (c *Ctx) ruleSigChan(rule string) {
	ro := c.roles()
	if !ro.ok || ro.readLoop == nil || ro.sigTable == "" {
		c.R.Unresolved(rule, "read loop / signal table of the ATP client")
		return
	}
	inTree := c.M.Reachable([]*ssa.Function{ro.readLoop}, nil)
	var entered []*ssa.Function
	for _, fn := range c.M.Funcs {
		if inTree[fn] {
			continue
		}
		for _, e := range c.M.Edges(fn) {
			if inTree[e.To] && e.To != ro.readLoop {
				entered = append(entered, e.To)
			}
		}
	}
	shared := c.M.Reachable(entered, nil)
	fromTable := func(v ssa.Value) bool {
		seen := map[ssa.Value]bool{}
		var walk func(v ssa.Value) bool
		walk = func(v ssa.Value) bool {
			if seen[v] {
				return false
			}
			seen[v] = true
			switch x := v.(type) {
			case *ssa.Extract:
				return walk(x.Tuple)
			case *ssa.Lookup:
				return strings.HasSuffix(c.M.ValPath(x.X), "."+ro.sigTable)
			case *ssa.Phi:
				for _, e := range x.Edges {
					if walk(e) {
						return true
					}
				}
			case *ssa.ChangeType:
				return walk(x.X)
			}
			return false
		}
		return walk(v)
	}
	type site struct {
		fn   *ssa.Function
		in   ssa.Instruction
		what string
		ch   ssa.Value
	}
	var sites []site
	var unconditional []ssa.Instruction
	for _, fn := range c.M.SortedFuncs(c.scopePkg("atp")) {
		for _, b := range fn.Blocks {
			for _, in := range b.Instrs {
				switch x := in.(type) {
				case *ssa.Send:
					if fromTable(x.Chan) {
						sites = append(sites, site{fn, in, "send", x.Chan})
						unconditional = append(unconditional, in)
					}
				case *ssa.Select:
					for _, st := range x.States {
						if st.Dir == types.SendOnly && fromTable(st.Chan) {
							sites = append(sites, site{fn, in, "send", st.Chan})
							// a way out: a receive from a Done() channel among the other cases
							out := false
							for _, o := range x.States {
								if o.Dir == types.RecvOnly {
									if call, ok := o.Chan.(*ssa.Call); ok && call.Call.IsInvoke() && call.Call.Method.Name() == "Done" {
										out = true
									}
								}
							}
							if !x.Blocking {
								out = true
							}
							if !out {
								unconditional = append(unconditional, in)
							}
						}
					}
				case *ssa.Call:
					if bi, ok := x.Call.Value.(*ssa.Builtin); ok && bi.Name() == "close" && len(x.Call.Args) == 1 && fromTable(x.Call.Args[0]) {
						sites = append(sites, site{fn, in, "close", x.Call.Args[0]})
					}
				}
			}
		}
	}
	// A send and a close of the same table's channels must exclude each other: both on the read loop's goroutine
	// (sequential), both under the state mutex, or - a send of the read loop outside the mutex against a close under
	// it - by the hand-over marker: the read loop publishes the channel it is sending on, the closer leaves exactly
	// that channel to the read loop.
	confined := func(s site) bool { return inTree[s.fn] && !shared[s.fn] }
	locked := func(s site) bool { return c.stateLocked(s.fn, s.in, ro) }
	markers := map[ssa.Instruction]handOver{}
	pairSafe := func(snd, cl site) (bool, string) {
		switch {
		case confined(snd) && confined(cl):
			return true, "both are confined to the read loop's goroutine: they are sequential"
		case locked(snd) && locked(cl):
			return true, "both hold the state mutex"
		case confined(snd) && locked(cl):
			ho, ok := markers[snd.in]
			if !ok {
				ho = c.sendSideMarker(snd.fn, snd.in, snd.ch, ro)
				markers[snd.in] = ho
			}
			if ho.why != "" {
				return false, "the send at " + c.M.InstrPos(snd.in) + " is made outside the mutex and not announced: " + ho.why
			}
			if !c.closeSpares(cl.fn, cl.in, cl.ch, ho.marker, ro) {
				return false, "the close does not sit on the outcome 'not the channel named by " + ho.marker + "' of a comparison made in its critical section"
			}
			if _, why := c.deferredClose(cl.fn, cl.ch, ho.marker, ho, ro); why != "" {
				return false, why
			}
			return true, "the read loop announces the channel it is sending on in " + ho.marker + " (set with the lookup, cleared after the send, both under the mutex); the close under the mutex spares that channel and leaves it to the read loop, which closes it after the send"
		}
		return false, "neither goroutine confinement nor the state mutex nor the hand-over marker separates them"
	}
	cnt := map[string]int{}
	for _, s := range sites {
		cnt[c.M.Key(s.fn)+s.what]++
		k := key(rule, c.M.Key(s.fn), sprintf("%s #%d on a channel of the signal table", s.what, cnt[c.M.Key(s.fn)+s.what]))
		bad, reasons := "", map[string]bool{}
		for _, o := range sites {
			if o.what == s.what {
				continue
			}
			var ok bool
			var why string
			if s.what == "send" {
				ok, why = pairSafe(s, o)
			} else {
				ok, why = pairSafe(o, s)
			}
			if !ok && bad == "" {
				bad = "against the " + o.what + " at " + c.M.InstrPos(o.in) + ": " + why
			}
			if ok {
				reasons[why] = true
			}
		}
		if bad == "" {
			var rs []string
			for r := range reasons {
				rs = append(rs, r)
			}
			sort.Strings(rs)
			c.R.Ok(rule, k, c.M.InstrPos(s.in), "send / close of a caller's signal channel", strings.Join(rs, "; "))
		} else {
			c.R.Bad(rule, k, c.M.InstrPos(s.in), "a "+s.what+" on a caller's signal channel can meet a "+map[string]string{"send": "close", "close": "send"}[s.what]+" from another goroutine",
				bad+": a close that hits a send in flight ('send on closed channel') kills the process")
		}
	}
	// a close goes with the removal of the table entry, so that no later hand-over finds a closed channel
	cnt = map[string]int{}
	for _, s := range sites {
		if s.what != "close" {
			continue
		}
		cnt[c.M.Key(s.fn)]++
		k := key(rule, c.M.Key(s.fn), sprintf("close #%d goes with the removal of the table entry", cnt[c.M.Key(s.fn)]))
		lk := lookupOf(s.ch)
		switch {
		case lk != nil && c.sameCriticalSection(s.fn, lk, s.in, ro):
			if c.tableDeleteNear(s.fn, s.in, ro) {
				c.R.Ok(rule, k, c.M.InstrPos(s.in), "close of a caller's signal channel", "the channel is looked up, removed from the table and closed in one critical section")
			} else {
				c.R.Bad(rule, k, c.M.InstrPos(s.in), "a signal channel is closed but stays in the table",
					"the next emitted signal for that run ID is sent on the closed channel: 'send on closed channel' kills the process")
			}
		default:
			// looked up in an earlier critical section: only the deferred close of the marker protocol may do that
			flagged := false
			for _, cond := range core.CondsAt(s.in.Block()) {
				if ld, ok := cond.V.(*ssa.UnOp); ok && cond.True {
					if fa, ok := ld.X.(*ssa.FieldAddr); ok && structOf(fa.X.Type()) != nil && structOf(fa.X.Type()).Obj() == ro.clientT.Obj() {
						flagged = true
					}
				}
			}
			if flagged && confined(s) && locked(s) {
				c.R.Ok(rule, k, c.M.InstrPos(s.in), "close of a caller's signal channel", "the read loop closes the channel it has just sent on because the closer, which removed it from the table, asked it to")
			} else {
				c.R.Bad(rule, k, c.M.InstrPos(s.in), "a signal channel is closed that was looked up in an earlier critical section",
					"the table may have lost or replaced the entry in between: the close can hit a channel that was closed already, or one that belongs to a new run")
			}
		}
	}
	// a hand-over to the caller must have a way out: the caller may have stopped listening when it calls Close, and
	// Close waits for the goroutine that is sending
	for i, in := range unconditional {
		k := key(rule, c.M.Key(in.Parent()), sprintf("hand-over #%d to the caller's channel can be abandoned on Close", i+1))
		c.R.Bad(rule, k, c.M.InstrPos(in), "an emitted signal is handed to the caller with an unconditional send",
			"a caller that has stopped receiving (it is shutting down and calls Close) keeps the read loop in this send for ever; Close cancels the client's context but waits for the read loop, so Close and every pending Execute hang")
	}
	// the end of a run closes its signal channel: the caller's consumer (for sig := range ch) must not wait for ever.
	// A run ends where its result is stored, or where its pending entry is removed without one.
	nEnds := 0
	for _, fn := range c.M.SortedFuncs(c.scopePkg("atp")) {
		if !c.methodOrClosureOf(fn, ro.clientT) {
			continue
		}
		nStore, nDel := 0, 0
		for _, b := range fn.Blocks {
			for _, in := range b.Instrs {
				switch x := in.(type) {
				case *ssa.Store:
					fa, ok := x.Addr.(*ssa.FieldAddr)
					if !ok {
						continue
					}
					if _, fresh := fa.X.(*ssa.Alloc); fresh {
						continue
					}
					sn := structOf(fa.X.Type())
					if sn == nil || sn.Obj().Pkg() != ro.clientT.Obj().Pkg() || sn.Obj() == ro.clientT.Obj() {
						continue
					}
					est := fieldsOf(sn)
					hasCond := false
					for i := 0; est != nil && i < est.NumFields(); i++ {
						if isNamed(est.Field(i).Type(), "sync", "Cond") {
							hasCond = true
						}
					}
					if !hasCond || isNamed(est.Field(fa.Field).Type(), "sync", "Cond") {
						continue
					}
					nStore++
					nEnds++
					k := key(rule, c.M.Key(fn), sprintf("result store #%d is followed by the close of the run's signal channel", nStore))
					if c.everyPathClosesSig(fn, in, ro) {
						c.R.Ok(rule, k, c.M.InstrPos(in), "end of a run (its result is stored)", "every path from the store to the end of the critical section closes the run's signal channel or finds that it has none")
					} else {
						c.R.Bad(rule, k, c.M.InstrPos(in), "a run gets its result but its signal channel can stay open",
							"a path from the result store to the end of the critical section neither closes the channel registered for the run nor finds that there is none: the caller's goroutine that ranges over the channel never ends")
					}
				case *ssa.Call:
					bi, ok := x.Call.Value.(*ssa.Builtin)
					if !ok || bi.Name() != "delete" || !c.isFieldLoad(x.Call.Args[0], ro.clientT, ro.pending) {
						continue
					}
					// the collector removes the entry of a run that has its result: the channel was closed with the store
					collected := false
					for _, cond := range core.CondsAt(b) {
						v, neq, isNil := core.NilCmp(cond.V)
						if !isNil || neq != cond.True {
							continue
						}
						if ld, ok := core.Unwrap(v).(*ssa.UnOp); ok {
							if fa, ok := ld.X.(*ssa.FieldAddr); ok {
								if sn := structOf(fa.X.Type()); sn != nil && sn.Obj() != ro.clientT.Obj() && sn.Obj().Pkg() == ro.clientT.Obj().Pkg() {
									collected = true
								}
							}
						}
					}
					nDel++
					nEnds++
					k := key(rule, c.M.Key(fn), sprintf("removal #%d of a pending entry leaves no open signal channel behind", nDel))
					switch {
					case collected:
						c.R.Ok(rule, k, c.M.InstrPos(in), "removal of a pending entry", "the entry removed has its result (tested non-nil on the way): its channel was closed where the result was stored")
					case c.everyPathClosesSig(fn, in, ro):
						c.R.Ok(rule, k, c.M.InstrPos(in), "end of a run (its pending entry is removed without a result)", "every path from the removal to the end of the critical section closes the run's signal channel, leaves the close to the read loop that is sending on it, or finds that there is none")
					default:
						c.R.Bad(rule, k, c.M.InstrPos(in), "a run is forgotten but its signal channel can stay registered and open",
							"the pending entry is removed without a result, and a path to the end of the critical section neither closes the run's signal channel nor finds that there is none: nothing closes it later (results close the channels of pending runs only), the caller's goroutine that ranges over it never ends")
					}
				}
			}
		}
	}
	if nEnds < 2 {
		c.R.Unresolved(rule, "places where a run of the ATP client ends (result store, removal of a pending entry)")
	}
	if len(unconditional) == 0 && len(sites) > 0 {
		c.R.Ok(rule, key(rule, "signal hand-over", "every send to a caller's channel has a way out"), "-", "hand-over of emitted signals", "every send on a signal-table channel is a select case next to a receive from a Done() channel (or non-blocking)")
	}
	c.R.Floor(rule, 2)
}

// sigSitesConfined: every send on / close of a channel of the client's signal table sits in a function that is reachable
// from the read loop and from nowhere else (see R-SIGCHAN).
func (c *Ctx) sigSitesConfined() bool {
	ro := c.roles()
	if !ro.ok || ro.readLoop == nil || ro.sigTable == "" {
		return false
	}
	inTree := c.M.Reachable([]*ssa.Function{ro.readLoop}, nil)
	var entered []*ssa.Function
	for _, fn := range c.M.Funcs {
		if inTree[fn] {
			continue
		}
		for _, e := range c.M.Edges(fn) {
			if inTree[e.To] && e.To != ro.readLoop {
				entered = append(entered, e.To)
			}
		}
	}
	shared := c.M.Reachable(entered, nil)
	fromTable := func(v ssa.Value) bool {
		for i := 0; i < 4; i++ {
			switch x := v.(type) {
			case *ssa.Extract:
				v = x.Tuple
			case *ssa.Lookup:
				return strings.HasSuffix(c.M.ValPath(x.X), "."+ro.sigTable)
			default:
				return false
			}
		}
		return false
	}
	n := 0
	for _, fn := range c.M.SortedFuncs(c.scopePkg("atp")) {
		for _, b := range fn.Blocks {
			for _, in := range b.Instrs {
				site := false
				switch x := in.(type) {
				case *ssa.Send:
					site = fromTable(x.Chan)
				case *ssa.Select:
					for _, st := range x.States {
						if st.Dir == types.SendOnly && fromTable(st.Chan) {
							site = true
						}
					}
				case *ssa.Call:
					if bi, ok := x.Call.Value.(*ssa.Builtin); ok && bi.Name() == "close" && len(x.Call.Args) == 1 {
						site = fromTable(x.Call.Args[0])
					}
				}
				if !site {
					continue
				}
				n++
				if !inTree[fn] || shared[fn] {
					return false
				}
			}
		}
	}
	return n > 0
}

// mutexGuardsNoState: while mutex is held, no field of the struct that is ever modified after construction is accessed
// (the CBOR stream endpoints themselves aside).
func (c *Ctx) mutexGuardsNoState(target *types.Named, mutex string) bool {
	accs := c.collectAccesses(target, mutex)
	mutable := map[string]bool{}
	for _, a := range accs {
		if !a.constr && (a.write || a.mutates) {
			mutable[a.field] = true
		}
	}
	// an access that also sits in a critical section of another mutex of the struct is that mutex's business
	otherwise := map[ssa.Instruction]bool{}
	for _, m := range allMutexFields(target) {
		if m == mutex {
			continue
		}
		for _, a := range c.collectAccesses(target, m) {
			if a.locked && !a.constr {
				otherwise[a.in] = true
			}
		}
	}
	n := 0
	for _, a := range accs {
		if a.constr || !a.locked || otherwise[a.in] {
			continue
		}
		ft := fieldType(target, a.field)
		if ft == nil || isNamed(ft, "sync", "Mutex") || isNamed(ft, "cbor/v2", "Encoder") || isNamed(ft, "cbor/v2", "Decoder") {
			continue
		}
		n++
		if mutable[a.field] {
			return false
		}
	}
	return true
}

// ownUnstartedEntry: the block is dominated by (1) the nil-error outcome of a call to the function that inserts into
// the pending table and (2) the non-nil-error outcome of a call that (transitively) writes to the connection's encoder.
func (c *Ctx) ownUnstartedEntry(b *ssa.BasicBlock, ro *atpRoles) bool {
	inserts := func(f *ssa.Function) bool {
		for _, bb := range f.Blocks {
			for _, in := range bb.Instrs {
				if mu, ok := in.(*ssa.MapUpdate); ok && c.isFieldLoad(mu.Map, ro.clientT, ro.pending) {
					return true
				}
			}
		}
		return false
	}
	encodes := func(f *ssa.Function) bool {
		for g := range c.M.Reachable([]*ssa.Function{f}, nil) {
			for _, bb := range g.Blocks {
				for _, in := range bb.Instrs {
					if call, ok := in.(*ssa.Call); ok && strings.HasSuffix(core.StaticCalleeName(&call.Call), "cbor/v2.Encoder).Encode") {
						return true
					}
				}
			}
		}
		return false
	}
	inserted, writeFailed := false, false
	for _, cond := range core.CondsAt(b) {
		x, neq, ok := core.NilCmp(cond.V)
		if !ok {
			continue
		}
		call, ok := core.Unwrap(x).(*ssa.Call)
		if !ok {
			continue
		}
		callee := call.Call.StaticCallee()
		if callee == nil {
			continue
		}
		isNil := neq != cond.True
		if isNil && inserts(callee) {
			inserted = true
		}
		if !isNil && encodes(callee) {
			writeFailed = true
		}
	}
	return inserted && writeFailed
}

// R-PAIR, insertion clause (C06 "Close returns", "no goroutine remains blocked"): an Execute that has put its entry
// into the pending table must, on every path to a return, either wait for the result (the waiting function removes the
// completed entry) or remove the entry itself. An entry that stays behind without a result keeps the read loop - and
// Close, which waits for it - alive for ever.
func (c *Ctx) rulePairInsert(rule string) {
	ro := c.roles()
	if !ro.ok {
		return
	}
	deletes := func(f *ssa.Function) bool {
		for _, bb := range f.Blocks {
			for _, in := range bb.Instrs {
				if ci, ok := in.(ssa.CallInstruction); ok {
					if bi, ok := ci.Common().Value.(*ssa.Builtin); ok && bi.Name() == "delete" && c.isFieldLoad(ci.Common().Args[0], ro.clientT, ro.pending) {
						return true
					}
				}
			}
		}
		return false
	}
	inserts := func(f *ssa.Function) bool {
		for _, bb := range f.Blocks {
			for _, in := range bb.Instrs {
				if mu, ok := in.(*ssa.MapUpdate); ok && c.isFieldLoad(mu.Map, ro.clientT, ro.pending) {
					return true
				}
			}
		}
		return false
	}
	n := 0
	for _, fn := range c.M.SortedFuncs(c.scopePkg("atp")) {
		if !c.isMethodOf(fn, ro.clientT) {
			continue
		}
		for _, b := range fn.Blocks {
			for _, in := range b.Instrs {
				call, ok := in.(*ssa.Call)
				if !ok {
					continue
				}
				callee := call.Call.StaticCallee()
				if callee == nil || !inserts(callee) || len(b.Instrs) == 0 {
					continue
				}
				// the branch on the insert's error
				ifi, ok := b.Instrs[len(b.Instrs)-1].(*ssa.If)
				if !ok {
					continue
				}
				x, neq, ok := core.NilCmp(ifi.Cond)
				if !ok || core.Unwrap(x) != ssa.Value(call) {
					continue
				}
				success := b.Succs[1]
				if !neq {
					success = b.Succs[0]
				}
				n++
				k := key(rule, c.M.Key(fn), "an inserted pending entry is awaited or removed on every path to a return")
				cleans := func(bb *ssa.BasicBlock) bool {
					for _, in2 := range bb.Instrs {
						if ci, ok := in2.(ssa.CallInstruction); ok {
							if bi, ok := ci.Common().Value.(*ssa.Builtin); ok && bi.Name() == "delete" && c.isFieldLoad(ci.Common().Args[0], ro.clientT, ro.pending) {
								return true
							}
							if sc := ci.Common().StaticCallee(); sc != nil && deletes(sc) {
								return true
							}
						}
					}
					return false
				}
				// A return that reports success (nil error) hands the duty over to the caller: there, the path from the
				// nil-error outcome of the call must pass the waiting function or a removal.
				var leak *ssa.BasicBlock
				var check func(start *ssa.BasicBlock, depth int)
				check = func(start *ssa.BasicBlock, depth int) {
					seen := map[*ssa.BasicBlock]bool{}
					var walk func(bb *ssa.BasicBlock)
					walk = func(bb *ssa.BasicBlock) {
						if seen[bb] || leak != nil || cleans(bb) {
							return
						}
						seen[bb] = true
						if len(bb.Instrs) > 0 {
							if ret, isRet := bb.Instrs[len(bb.Instrs)-1].(*ssa.Return); isRet {
								f := bb.Parent()
								ei := core.ErrorResultIndex(f.Signature)
								if ei >= 0 && core.IsNilConst(core.RetVal(ret, ei)) && depth < 3 {
									sites := 0
									for _, g := range c.M.SortedFuncs(c.scopePkg("atp")) {
										for _, gb := range g.Blocks {
											for _, gin := range gb.Instrs {
												gc, ok := gin.(*ssa.Call)
												if !ok || gc.Call.StaticCallee() != f {
													continue
												}
												sites++
												// the nil-error outcome: the call's error is tested in this block or a later one
												var okSucc *ssa.BasicBlock
												if refs := gc.Referrers(); refs != nil {
													for _, r := range *refs {
														bin, isBin := r.(*ssa.BinOp)
														if !isBin {
															continue
														}
														if _, neq, isNil := core.NilCmp(bin); isNil {
															for _, r2 := range *bin.Referrers() {
																if ifi2, isIf := r2.(*ssa.If); isIf {
																	okSucc = ifi2.Block().Succs[1]
																	if !neq {
																		okSucc = ifi2.Block().Succs[0]
																	}
																}
															}
														}
													}
												}
												if okSucc == nil {
													leak = bb
													return
												}
												check(okSucc, depth+1)
											}
										}
									}
									if sites == 0 {
										leak = bb
									}
									return
								}
								leak = bb
								return
							}
						}
						for _, s := range bb.Succs {
							walk(s)
						}
					}
					walk(start)
				}
				check(success, 0)
				if leak == nil {
					c.R.Ok(rule, k, c.M.InstrPos(call), "insertion into the pending table", "every path from the successful insertion to a return passes the waiting function or a removal of the entry")
				} else {
					c.R.Bad(rule, k, c.M.Pos(leak.Instrs[len(leak.Instrs)-1].Pos()), "a return leaves the entry it inserted in the pending table without waiting for its result",
						"the entry has no result and nobody waits for it: the read loop's idle test never succeeds again, so the loop - and Close, which waits for it - never ends (when the work start could not be written, no result will ever come)")
				}
			}
		}
	}
	if n == 0 {
		c.R.Unresolved(rule, "call that inserts into the client's pending table, followed by a branch on its error")
	}
}

// R-CLIENTPANIC (C08 "the client never panics"): explicit panics in everything reachable from the client's methods.
// Accepted: the environment abort in the constructor (a codec mode built from constant options), and the "woken without
// a result" invariant after a condition wait, which R-PAIR's store => signal clause excludes. Everything else is a
// violation: a failing peer or transport must surface as an error.
func (c *Ctx) ruleClientPanic(rule string) {
	ro := c.roles()
	if !ro.ok {
		return
	}
	var roots []*ssa.Function
	for _, fn := range c.M.SortedFuncs(c.scopePkg("atp")) {
		if c.isMethodOf(fn, ro.clientT) {
			roots = append(roots, fn)
		}
	}
	reach := c.M.Reachable(roots, func(f *ssa.Function) bool { return isRecoverScope(f) })
	n := 0
	for _, fn := range c.M.SortedFuncs(reach) {
		if !c.scopePkg("atp")[fn] {
			continue
		}
		cnt := 0
		for _, b := range fn.Blocks {
			for _, in := range b.Instrs {
				p, ok := in.(*ssa.Panic)
				if !ok || !p.Pos().IsValid() {
					continue
				}
				n++
				cnt++
				k := key(rule, c.M.Key(fn), sprintf("panic#%d when %s", cnt, c.panicDesc(c.M, fn, p)))
				afterWait := false
				for _, cond := range core.CondsAt(b) {
					if x, neq, ok := core.NilCmp(cond.V); ok && neq != cond.True && strings.HasSuffix(c.M.ValPath(x), ".result") {
						// result == nil ... and a Wait that can come before it: the wait is what is supposed to end with a result
						for _, d := range fn.Blocks {
							for _, in2 := range d.Instrs {
								if call, ok := in2.(*ssa.Call); ok && core.StaticCalleeName(&call.Call) == "(*sync.Cond).Wait" && (d == b || blockReaches(d, b, nil)) {
									afterWait = true
								}
							}
						}
					}
				}
				switch {
				case c.isEnvAbort(c.M, fn, p):
					c.R.Add(core.Obligation{Rule: rule, Key: k, Pos: c.M.InstrPos(p), What: "explicit panic (environment abort)", Status: core.Info, How: "controlled by an error from constructing a codec mode out of constant options"})
				case afterWait:
					c.R.Ok(rule, k, c.M.InstrPos(p), "explicit panic (internal invariant)", "woken from the condition wait without a result: excluded by R-PAIR (a result is stored before its waiter is signalled) and Go's spurious-wake-up-free sync.Cond")
				default:
					c.R.Bad(rule, k, c.M.InstrPos(p), "the client panics on a condition that a failing peer or transport can bring about", "the engine process dies instead of getting an error from Execute / Close")
				}
			}
		}
	}
	c.R.Note("%s: %d explicit panics reachable from the client's methods", rule, n)
}

// defersDrain: fn has a deferred closure that starts (go) a function receiving from the server's error channel in a loop.
func (c *Ctx) defersDrain(fn *ssa.Function, ro *atpRoles) bool {
	drains := func(f *ssa.Function) bool {
		for _, b := range f.Blocks {
			for _, in := range b.Instrs {
				if u, ok := in.(*ssa.UnOp); ok && u.Op.String() == "<-" && blockInLoop(b) {
					// the channel: the server's error channel (through the captured session)
					if strings.HasSuffix(c.M.ValPath(u.X), "."+ro.errChan) || c.isFieldLoad(u.X, ro.serverT, ro.errChan) {
						return true
					}
				}
			}
		}
		return false
	}
	for _, b := range fn.Blocks {
		for _, in := range b.Instrs {
			d, ok := in.(*ssa.Defer)
			if !ok {
				continue
			}
			for _, df := range c.M.Callees(d.Common()) {
				for _, db := range df.Blocks {
					for _, din := range db.Instrs {
						g, ok := din.(*ssa.Go)
						if !ok {
							continue
						}
						for _, gf := range c.M.Callees(g.Common()) {
							if drains(gf) {
								return true
							}
						}
					}
				}
			}
		}
	}
	return false
}

// exitReportsServerFatal: the code reached through this exit builds a ServerError with ServerFatal set before returning.
func exitReportsServerFatal(from *ssa.BasicBlock) bool {
	seen := map[*ssa.BasicBlock]bool{}
	var walk func(b *ssa.BasicBlock) bool
	walk = func(b *ssa.BasicBlock) bool {
		if seen[b] {
			return false
		}
		seen[b] = true
		for _, in := range b.Instrs {
			if st, ok := in.(*ssa.Store); ok {
				if fa, ok := st.Addr.(*ssa.FieldAddr); ok && fieldName(fa.X.Type(), fa.Field) == "ServerFatal" {
					if cst, ok := st.Val.(*ssa.Const); ok && cst.Value != nil && cst.Value.String() == "true" {
						return true
					}
				}
			}
		}
		for _, s := range b.Succs {
			if walk(s) {
				return true
			}
		}
		return false
	}
	return walk(from)
}

// R-SIGORDER (C06 "signal traffic in both directions"): the goroutine that forwards the caller's signals to the step
// writes to the same connection as Execute itself. The peer refuses a signal for a run it has not been told about
// ("unknown step with run ID"), and the signal is lost - a step that ends on that signal then never ends, and Execute
// never returns. The `go` that starts a signal forwarder (a function that receives from a channel parameter and reaches
// an Encode) must therefore be reached only after the work start has been written: on the nil-error outcome of a call
// that reaches the connection's encoder.
func (c *Ctx) ruleSignalOrder(rule string) {
	ro := c.roles()
	if !ro.ok {
		return
	}
	encodes := func(f *ssa.Function) bool {
		for g := range c.M.Reachable([]*ssa.Function{f}, nil) {
			for _, bb := range g.Blocks {
				for _, in := range bb.Instrs {
					if call, ok := in.(*ssa.Call); ok && strings.HasSuffix(core.StaticCalleeName(&call.Call), "cbor/v2.Encoder).Encode") {
						return true
					}
				}
			}
		}
		return false
	}
	recvFromParam := func(f *ssa.Function) bool {
		isParam := func(v ssa.Value) bool {
			for _, p := range f.Params {
				if v == ssa.Value(p) {
					return true
				}
			}
			return false
		}
		for _, bb := range f.Blocks {
			for _, in := range bb.Instrs {
				switch x := in.(type) {
				case *ssa.Select:
					for _, st := range x.States {
						if st.Dir == types.RecvOnly && isParam(st.Chan) {
							return true
						}
					}
				case *ssa.UnOp:
					if x.Op.String() == "<-" && isParam(x.X) {
						return true
					}
				}
			}
		}
		return false
	}
	isForwarder := func(f *ssa.Function) bool {
		for g := range c.M.Reachable([]*ssa.Function{f}, nil) {
			if recvFromParam(g) && encodes(g) {
				return true
			}
		}
		return false
	}
	n := 0
	for _, fn := range c.M.SortedFuncs(c.scopePkg("atp")) {
		if !c.methodOrClosureOf(fn, ro.clientT) {
			continue
		}
		for _, b := range fn.Blocks {
			for _, in := range b.Instrs {
				g, ok := in.(*ssa.Go)
				if !ok {
					continue
				}
				fwd := false
				for _, tgt := range c.M.Callees(g.Common()) {
					if isForwarder(tgt) {
						fwd = true
					}
				}
				if !fwd {
					continue
				}
				n++
				k := key(rule, c.M.Key(fn), "signal forwarder started only after the work start is written")
				started := false
				for _, cond := range core.CondsAt(b) {
					x, neq, ok := core.NilCmp(cond.V)
					if !ok || neq == cond.True {
						continue
					}
					if call, ok := core.Unwrap(x).(*ssa.Call); ok {
						if callee := call.Call.StaticCallee(); callee != nil && encodes(callee) {
							started = true
						}
					}
				}
				if started {
					c.R.Ok(rule, k, c.M.InstrPos(g), "start of the goroutine that forwards signals to the step", "reached only on the nil-error outcome of a write to the connection (the work start)")
				} else {
					c.R.Bad(rule, k, c.M.InstrPos(g), "the signal forwarder is started before the work start is known to be written",
						"forwarder and Execute race for the encoder: a signal already waiting in the caller's channel can be written first, the peer refuses it as a signal for an unknown run, and a step that ends on that signal keeps Execute waiting for ever")
				}
			}
		}
	}
	if n == 0 {
		c.R.Unresolved(rule, "goroutine that forwards the caller's signals to the step")
	}
}

// R-DONEGATE (C06 "every interleaving of ... Execute calls ... and Close"; "after Close no goroutine started by the
// client remains blocked"): Close sets the done flag, tells the peer that no more work is coming and waits for the
// client's goroutines. A run registered after that starts a read loop that nothing ends, and its WaitGroup.Add can hit
// the Wait in progress (panic). Every insertion into the pending table must happen where the done flag, read in the
// same critical section, is known to be false.
func (c *Ctx) ruleDoneGate(rule string) {
	ro := c.roles()
	if ro.ok && ro.doneFlag == "" {
		// the closing flag: a boolean field of the client, other than the read loop's running flag, that is stored
		// `true` by a method which goes on to wait for the client's goroutines ((*sync.WaitGroup).Wait reachable)
		cands := map[string]bool{}
		for _, fn := range c.M.SortedFuncs(c.scopePkg("atp")) {
			if !c.isMethodOf(fn, ro.clientT) {
				continue
			}
			waits := false
			for g := range c.M.Reachable([]*ssa.Function{fn}, nil) {
				for _, bb := range g.Blocks {
					for _, in := range bb.Instrs {
						if call, ok := in.(*ssa.Call); ok && strings.HasSuffix(core.StaticCalleeName(&call.Call), "sync.WaitGroup).Wait") {
							waits = true
						}
					}
				}
			}
			if !waits {
				continue
			}
			for _, bb := range fn.Blocks {
				for _, in := range bb.Instrs {
					st, ok := in.(*ssa.Store)
					if !ok {
						continue
					}
					fa, ok := st.Addr.(*ssa.FieldAddr)
					if !ok || structOf(fa.X.Type()) != ro.clientT {
						continue
					}
					if cst, ok := st.Val.(*ssa.Const); ok && cst.Value != nil && cst.Value.String() == "true" {
						if name := fieldName(fa.X.Type(), fa.Field); name != ro.runFlag {
							cands[name] = true
						}
					}
				}
			}
		}
		if len(cands) == 1 {
			for name := range cands {
				ro.doneFlag = name
			}
		}
	}
	if !ro.ok || ro.doneFlag == "" {
		c.R.Unresolved(rule, "done flag of the ATP client")
		return
	}
	n := 0
	for _, fn := range c.M.SortedFuncs(c.scopePkg("atp")) {
		if !c.isMethodOf(fn, ro.clientT) {
			continue
		}
		for _, b := range fn.Blocks {
			for _, in := range b.Instrs {
				mu, ok := in.(*ssa.MapUpdate)
				if !ok || !c.isFieldLoad(mu.Map, ro.clientT, ro.pending) {
					continue
				}
				n++
				k := key(rule, c.M.Key(fn), "a run is registered only on a client that is not closed")
				est := func(cond core.Cond) bool {
					ld, ok := cond.V.(*ssa.UnOp)
					if !ok || cond.True {
						return false
					}
					fa, ok := ld.X.(*ssa.FieldAddr)
					return ok && structOf(fa.X.Type()) == ro.clientT && fieldName(fa.X.Type(), fa.Field) == ro.doneFlag
				}
				locked := false
				for _, l := range c.lockedAt(fn, mu) {
					if strings.HasSuffix(l, "."+ro.mutexOf[ro.clientT]) {
						locked = true
					}
				}
				if core.MustHold(fn, est)[b] && locked {
					c.R.Ok(rule, k, c.M.InstrPos(mu), "insertion into the pending table", "on every path the done flag was found false, under the state mutex that Close holds when it sets the flag")
				} else {
					c.R.Bad(rule, k, c.M.InstrPos(mu), "a run can be registered after Close has set the done flag",
						"Close has already told the peer that no more work is coming and waits for the client's goroutines: the read loop started for this run is never ended (Close, or a goroutine, stays blocked), and its WaitGroup.Add can hit the Wait in progress ('WaitGroup is reused before previous Wait has returned')")
				}
			}
		}
	}
	if n == 0 {
		c.R.Unresolved(rule, "insertion into the client's pending table")
	}
	// An insertion never replaces an entry: the caller of the run that holds the ID looks its entry up again when it
	// collects its result (by run ID), would find the newcomer's entry, and wait on it - for a wake-up that is meant for
	// somebody else. Every insertion is reached only on the not-found outcome of a lookup of the table (R-ATOMIC has
	// that lookup and the insertion in one critical section).
	for _, fn := range c.M.SortedFuncs(c.scopePkg("atp")) {
		if !c.isMethodOf(fn, ro.clientT) {
			continue
		}
		for _, b := range fn.Blocks {
			for _, in := range b.Instrs {
				mu, ok := in.(*ssa.MapUpdate)
				if !ok || !c.isFieldLoad(mu.Map, ro.clientT, ro.pending) {
					continue
				}
				k := key(rule, c.M.Key(fn), "a run is registered only under an ID that no entry holds")
				notFound := func(cond core.Cond) bool {
					ex, ok := cond.V.(*ssa.Extract)
					if !ok || ex.Index != 1 || cond.True {
						return false
					}
					lk, ok := ex.Tuple.(*ssa.Lookup)
					return ok && lk.CommaOk && c.isFieldLoad(lk.X, ro.clientT, ro.pending) && c.M.CondPath(fn, cond, lk.Index) == c.M.ValPath(mu.Key)
				}
				if core.MustHold(fn, notFound)[b] {
					c.R.Ok(rule, k, c.M.InstrPos(mu), "insertion into the pending table", "on every path the lookup of the same key found no entry")
				} else {
					c.R.Bad(rule, k, c.M.InstrPos(mu), "a run can be registered under an ID whose entry is still in the table",
						"an entry stays in the table until its caller has collected the result; replacing it (because it 'already has its result') makes that caller find the newcomer's entry, wait on it, and miss the one wake-up: its Execute never returns although its result was delivered")
				}
			}
		}
	}
	// The same gate for every Add on the client's WaitGroup: Close sets the done flag under the state mutex and then
	// waits. An Add made outside that discipline can meet a Wait in progress whose counter has just dropped to zero:
	// "sync: WaitGroup is reused before previous Wait has returned" (a panic), or a goroutine Close no longer waits for.
	m := 0
	for _, fn := range c.M.SortedFuncs(c.scopePkg("atp")) {
		if !c.methodOrClosureOf(fn, ro.clientT) {
			continue
		}
		cnt := 0
		for _, b := range fn.Blocks {
			for _, in := range b.Instrs {
				call, ok := in.(*ssa.Call)
				if !ok {
					continue
				}
				w, ok := c.wgOfCall(&call.Call, "Add")
				if !ok || w.structT == nil || w.structT.Obj() != ro.clientT.Obj() {
					continue
				}
				m++
				cnt++
				k := key(rule, c.M.Key(fn), sprintf("WaitGroup.Add #%d only on a client that is not closed", cnt))
				est := func(cond core.Cond) bool {
					ld, ok := cond.V.(*ssa.UnOp)
					if !ok || cond.True {
						return false
					}
					fa, ok := ld.X.(*ssa.FieldAddr)
					return ok && structOf(fa.X.Type()) == ro.clientT && fieldName(fa.X.Type(), fa.Field) == ro.doneFlag
				}
				if core.MustHold(fn, est)[b] && c.stateLocked(fn, call, ro) {
					c.R.Ok(rule, k, c.M.InstrPos(call), "Add on the WaitGroup Close waits for", "on every path the done flag was found false, under the state mutex that Close holds when it sets the flag: the Add happens before Close begins to wait")
				} else {
					c.R.Bad(rule, k, c.M.InstrPos(call), "an Add on the client's WaitGroup can run while Close is waiting",
						"Close sets the done flag and waits; its counter can reach zero (the read loop went idle) just before this Add: 'sync: WaitGroup is reused before previous Wait has returned' kills the process, or Close returns with the new goroutine still running")
				}
			}
		}
	}
	if m == 0 {
		c.R.Unresolved(rule, "Add calls on the client's WaitGroup")
	}
}

// R-PLUGINPANIC (C07 "the server survives any client", observed at the plugin's exit status): the standard entry point
// of a plugin (package plugin) runs the ATP server and gets back the errors it could not report or had to give up
// on. None of them may be turned into a panic: a refused signal or a failed step is not a failure of the process, and
// even a server-fatal error is an exit status, not a crash. Obligation: no explicit panic in package plugin.
func (c *Ctx) rulePluginPanic(rule string) {
	fns := c.scopePkg("plugin")
	if len(fns) == 0 {
		c.R.Unresolved(rule, "package plugin")
		return
	}
	n := 0
	for _, fn := range c.M.SortedFuncs(fns) {
		cnt := 0
		for _, b := range fn.Blocks {
			for _, in := range b.Instrs {
				p, ok := in.(*ssa.Panic)
				if !ok || !p.Pos().IsValid() {
					continue
				}
				n++
				cnt++
				k := key(rule, c.M.Key(fn), sprintf("panic#%d when %s", cnt, c.panicDesc(c.M, fn, p)))
				c.R.Bad(rule, k, c.M.InstrPos(p), "the plugin entry point panics", "whatever the ATP server returns - a refused signal, a failed step, the end of input without a client-done message - kills the plugin process with a panic after all work has been served")
			}
		}
	}
	if n == 0 {
		c.R.Ok(rule, key(rule, "plugin", "no explicit panic in the plugin entry point"), "-", "plugin entry point", sprintf("%d functions of package plugin examined", len(fns)))
	}
}

// everyCallSite: the number of call sites of fn if there is at least one, all are static calls, and pred holds for the
// block of each; 0 otherwise.
func (c *Ctx) everyCallSite(fn *ssa.Function, pred func(*ssa.BasicBlock) bool) int {
	n := 0
	for _, g := range c.M.Funcs {
		for _, b := range g.Blocks {
			for _, in := range b.Instrs {
				ci, ok := in.(ssa.CallInstruction)
				if !ok {
					continue
				}
				for _, callee := range c.M.Callees(ci.Common()) {
					if callee != fn {
						continue
					}
					if _, isGo := in.(*ssa.Go); isGo {
						return 0
					}
					if _, isDefer := in.(*ssa.Defer); isDefer {
						return 0
					}
					if ci.Common().StaticCallee() != fn || !pred(b) {
						return 0
					}
					n++
				}
			}
		}
	}
	return n
}
