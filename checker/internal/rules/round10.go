package rules

import (
	"go/token"
	"go/types"
	"sort"
	"strings"

	"golang.org/x/tools/go/ssa"

	"verifcheck/internal/core"
)

// ---------- R-WG (d): every count is released in the call tree that added it ----------
//
// A WaitGroup held in a struct field is shared between the entry points of the module (the methods a peer's messages
// run). Nothing in the module orders those entry points: which of them a client makes run, and whether it makes the
// second one run at all, is the client's behaviour, which C06 / C07 quantify over. A count that one entry point adds
// and only another one releases is therefore left behind by the client that makes only the first one run, and every
// Wait on the group blocks for good. The rule: from each Add on a field-held WaitGroup every path to a way out of the
// function passes a release (Done - direct, deferred, through sync.Once.Do, in a callee that always calls it - or a go
// statement whose goroutine always calls it). A function that leaves with the count hands the obligation to its
// callers (an unexported function all of whose uses are plain static calls: each call site then counts as the Add);
// a function whose callers are not all known (exported, address-taken, a goroutine) must not leave with it.

// wgRefOf names the WaitGroup a value points to: a field of a struct (directly, loaded, or a fresh WaitGroup that is
// stored into such a field).
func wgRefOf(v ssa.Value) wgRef {
	switch x := v.(type) {
	case *ssa.FieldAddr:
		return wgRef{structOf(x.X.Type()), fieldName(x.X.Type(), x.Field)}
	case *ssa.UnOp:
		if fa, ok := x.X.(*ssa.FieldAddr); ok && x.Op == token.MUL {
			return wgRef{structOf(fa.X.Type()), fieldName(fa.X.Type(), fa.Field)}
		}
	case *ssa.Alloc:
		if refs := x.Referrers(); refs != nil {
			for _, r := range *refs {
				if st, ok := r.(*ssa.Store); ok && st.Val == ssa.Value(x) {
					if fa, ok := st.Addr.(*ssa.FieldAddr); ok {
						return wgRef{structOf(fa.X.Type()), fieldName(fa.X.Type(), fa.Field)}
					}
				}
			}
		}
	}
	return wgRef{}
}

// onceDone: sync.Once.Do(wg.Done) - the bound method value of a WaitGroup's Done handed to a Once.
func onceDone(cc *ssa.CallCommon) (wgRef, bool) {
	if core.StaticCalleeName(cc) != "(*sync.Once).Do" || len(cc.Args) != 2 {
		return wgRef{}, false
	}
	mc, ok := cc.Args[1].(*ssa.MakeClosure)
	if !ok || len(mc.Bindings) != 1 {
		return wgRef{}, false
	}
	f, ok := mc.Fn.(*ssa.Function)
	if !ok || f.String() != "(*sync.WaitGroup).Done$bound" {
		return wgRef{}, false
	}
	return wgRefOf(mc.Bindings[0]), true
}

type wgPair struct {
	c    *Ctx
	w    wgRef
	memo map[*ssa.Function][]string // the ways out a function leaves with the count (descriptions); nil = none
	busy map[*ssa.Function]bool
	// needs: the function starts a goroutine that releases the count by running a function it was handed as parameter
	// #i: the count is released if that function always calls Done - decided at every call site
	needs map[*ssa.Function]map[int]bool
}

// runsParameter: the go statement starts a function that runs, on every way to its end, a function value that the
// spawning function received as its parameter #idx (`go body()`, or `go func() { body() }()`).
func runsParameter(g *ssa.Go) (int, bool) {
	fn := g.Parent()
	paramIdx := func(v ssa.Value) (int, bool) {
		for i, prm := range fn.Params {
			if v == ssa.Value(prm) {
				if _, isFunc := prm.Type().Underlying().(*types.Signature); isFunc {
					return i, true
				}
			}
		}
		return 0, false
	}
	if idx, ok := paramIdx(g.Call.Value); ok && !g.Call.IsInvoke() {
		return idx, true
	}
	mc, ok := g.Call.Value.(*ssa.MakeClosure)
	if !ok {
		return 0, false
	}
	body, ok := mc.Fn.(*ssa.Function)
	if !ok || len(body.Blocks) == 0 {
		return 0, false
	}
	for i, fv := range body.FreeVars {
		if i >= len(mc.Bindings) {
			break
		}
		bound := mc.Bindings[i]
		if al, isAlloc := bound.(*ssa.Alloc); isAlloc && al.Referrers() != nil {
			// captured by reference: the variable holds the parameter if that is all that is ever stored into it
			var stored ssa.Value
			n := 0
			for _, r := range *al.Referrers() {
				if st, isStore := r.(*ssa.Store); isStore && st.Addr == ssa.Value(al) {
					stored = st.Val
					n++
				}
			}
			if n == 1 {
				bound = stored
			}
		}
		idx, isParam := paramIdx(bound)
		if !isParam {
			continue
		}
		// called in a block that dominates every return of the goroutine function
		for _, b := range body.Blocks {
			for _, in := range b.Instrs {
				call, isCall := in.(*ssa.Call)
				if !isCall || call.Call.IsInvoke() {
					continue
				}
				callee := call.Call.Value
				if ld, isLoad := callee.(*ssa.UnOp); isLoad && ld.Op == token.MUL {
					callee = ld.X
				}
				if callee != ssa.Value(fv) {
					continue
				}
				all := true
				for _, r := range core.ReturnInstrs(body) {
					if !(b == r.Block() || b.Dominates(r.Block())) {
						all = false
					}
				}
				if all {
					return idx, true
				}
			}
		}
	}
	return 0, false
}

// releases: the instruction releases a count of w.
func (p *wgPair) releases(in ssa.Instruction) bool {
	ci, ok := in.(ssa.CallInstruction)
	if !ok {
		return false
	}
	if g, isGo := in.(*ssa.Go); isGo {
		for _, tgt := range p.c.M.Callees(ci.Common()) {
			if p.c.mustDone(tgt, p.w, 0) {
				return true
			}
		}
		if idx, ok := runsParameter(g); ok {
			fn := g.Parent()
			if p.needs[fn] == nil {
				p.needs[fn] = map[int]bool{}
			}
			p.needs[fn][idx] = true
			return true
		}
		return false
	}
	if x, ok := p.c.wgOfCall(ci.Common(), "Done"); ok && sameWG(x, p.w) {
		return true
	}
	callees := p.c.M.Callees(ci.Common())
	return len(callees) == 1 && p.c.mustDone(callees[0], p.w, 0)
}

// adds: the instruction adds a count to w that is still there when the instruction is over: an Add, or a call of a
// function that leaves with the count. For the latter `from` lists the blocks the count is carried into (the
// successors of the test of the call's error result on which it may be nil, if every way out that leaves with the
// count may return a nil error and the others return an error; the rest of the block otherwise).
func (p *wgPair) adds(in ssa.Instruction) (what string, from []*ssa.BasicBlock, ok bool) {
	call, isCall := in.(*ssa.Call)
	if !isCall {
		return "", nil, false
	}
	if x, isAdd := p.c.wgOfCall(&call.Call, "Add"); isAdd {
		if sameWG(x, p.w) {
			return "Add", nil, true
		}
		return "", nil, false
	}
	callee := core.StaticBody(&call.Call)
	if callee == nil || len(callee.Blocks) == 0 || callee.Pkg == nil || !p.c.M.IsRepoPkg(callee.Pkg.Pkg) {
		return "", nil, false
	}
	left := p.leavesWith(callee)
	if len(left) == 0 {
		// the callee counts a goroutine in that runs the function it is handed: that function has to release the count
		var idxs []int
		for idx := range p.needs[callee] {
			idxs = append(idxs, idx)
		}
		sort.Ints(idxs)
		for _, idx := range idxs {
			if idx >= len(call.Call.Args) {
				continue
			}
			var handed *ssa.Function
			switch a := call.Call.Args[idx].(type) {
			case *ssa.MakeClosure:
				handed, _ = a.Fn.(*ssa.Function)
			case *ssa.Function:
				handed = a
			}
			if handed == nil || !p.c.mustDone(handed, p.w, 0) {
				return "the call of " + callee.Name() + ", which counts in a goroutine that runs the function it is handed, with a function that does not always call Done", nil, true
			}
		}
		return "", nil, false
	}
	what = "the call of " + callee.Name() + ", which leaves with the count (" + left[0] + ")"
	ei := core.ErrorResultIndex(callee.Signature)
	if ei < 0 || !p.onlyOnNilError(callee, ei) {
		return what, nil, true
	}
	// the blocks entered on the possibly-nil outcome of the error test
	if refs := call.Referrers(); refs != nil {
		for _, r := range *refs {
			var errV ssa.Value
			if ex, isEx := r.(*ssa.Extract); isEx && ex.Index == ei {
				errV = ex
			}
			if callee.Signature.Results().Len() == 1 {
				errV = call
			}
			if errV == nil || errV.Referrers() == nil {
				continue
			}
			for _, r2 := range *errV.Referrers() {
				bin, isBin := r2.(*ssa.BinOp)
				if !isBin || bin.Referrers() == nil {
					continue
				}
				_, neq, isNil := core.NilCmp(bin)
				if !isNil {
					continue
				}
				for _, r3 := range *bin.Referrers() {
					if ifi, isIf := r3.(*ssa.If); isIf && ifi.Block() == call.Block() {
						if neq {
							from = append(from, ifi.Block().Succs[1])
						} else {
							from = append(from, ifi.Block().Succs[0])
						}
					}
				}
			}
		}
	}
	return what, from, true
}

// onlyOnNilError: every way out of fn that certainly returns an error leaves without the count.
func (p *wgPair) onlyOnNilError(fn *ssa.Function, ei int) bool {
	for _, r := range core.ReturnsOf(fn) {
		if !p.c.M.RetNonNil(r, ei) {
			continue
		}
		// a certain error: no count may be carried here
		for _, d := range p.outstandingAt(fn, r.RetBlock(), r.Block()) {
			_ = d
			return false
		}
	}
	return true
}

// outstandingAt: descriptions of the adds of fn from which the return in block ret (entered from block from, if the
// way out is one edge of a merged return) is reached without a release.
func (p *wgPair) outstandingAt(fn *ssa.Function, ret, from *ssa.BasicBlock) []string {
	var out []string
	for _, l := range p.leaks(fn) {
		if l.ret == ret && (from == ret || l.via[from]) {
			out = append(out, l.what)
		}
	}
	return out
}

type wgLeak struct {
	what string
	pos  token.Pos
	ret  *ssa.BasicBlock
	via  map[*ssa.BasicBlock]bool // the blocks on the unreleased paths
}

var wgLeakMemo = map[*wgPair]map[*ssa.Function][]wgLeak{}

// leaks: for each add of fn, the returns reached from it without a release.
func (p *wgPair) leaks(fn *ssa.Function) []wgLeak {
	if m := wgLeakMemo[p]; m != nil {
		if l, done := m[fn]; done {
			return l
		}
	} else {
		wgLeakMemo[p] = map[*ssa.Function][]wgLeak{}
	}
	if p.busy[fn] {
		return nil
	}
	p.busy[fn] = true
	defer delete(p.busy, fn)
	var out []wgLeak
	// a deferred release that is registered on every path to the add covers it
	deferred := func(at ssa.Instruction) bool {
		for _, b := range fn.Blocks {
			for _, in := range b.Instrs {
				if d, ok := in.(*ssa.Defer); ok && p.releases(d) && instrDominates(d, at) {
					return true
				}
			}
		}
		return false
	}
	for _, b := range fn.Blocks {
		for i, in := range b.Instrs {
			what, from, ok := p.adds(in)
			if !ok || deferred(in) {
				continue
			}
			type state struct {
				b *ssa.BasicBlock
				i int
			}
			var starts []state
			if len(from) > 0 {
				for _, s := range from {
					starts = append(starts, state{s, 0})
				}
			} else {
				starts = append(starts, state{b, i + 1})
			}
			seen := map[*ssa.BasicBlock]bool{}
			parent := map[*ssa.BasicBlock]*ssa.BasicBlock{}
			var work []state
			work = append(work, starts...)
			for len(work) > 0 {
				s := work[len(work)-1]
				work = work[:len(work)-1]
				if s.i == 0 {
					if seen[s.b] {
						continue
					}
					seen[s.b] = true
				}
				ended := false
				for _, in2 := range s.b.Instrs[s.i:] {
					if p.releases(in2) {
						ended = true
						break
					}
					if _, isPanic := in2.(*ssa.Panic); isPanic {
						ended = true
						break
					}
					if _, isRet := in2.(*ssa.Return); isRet {
						via := map[*ssa.BasicBlock]bool{}
						for x := s.b; x != nil && !via[x]; x = parent[x] {
							via[x] = true
						}
						via[b] = true
						out = append(out, wgLeak{what: what, pos: in.Pos(), ret: s.b, via: via})
						ended = true
						break
					}
				}
				if ended {
					continue
				}
				for _, succ := range s.b.Succs {
					if !seen[succ] {
						if _, has := parent[succ]; !has {
							parent[succ] = s.b
						}
						work = append(work, state{succ, 0})
					}
				}
			}
		}
	}
	wgLeakMemo[p][fn] = out
	return out
}

// leavesWith: fn can return with a count it added (or that a callee of it added) still there.
func (p *wgPair) leavesWith(fn *ssa.Function) []string {
	if l, done := p.memo[fn]; done {
		return l
	}
	var out []string
	seen := map[string]bool{}
	for _, l := range p.leaks(fn) {
		d := l.what + " in " + fn.Name() + " at " + p.c.M.Pos(l.pos)
		if !seen[d] {
			seen[d] = true
			out = append(out, d)
		}
	}
	sort.Strings(out)
	if !p.busy[fn] {
		p.memo[fn] = out
	}
	return out
}

func (c *Ctx) ruleWGPair(rule string) {
	// the field-held WaitGroups on which an Add is called anywhere in the module
	groups := map[string]wgRef{}
	addFns := map[string]map[*ssa.Function]bool{}
	for _, fn := range c.M.Funcs {
		for _, b := range fn.Blocks {
			for _, in := range b.Instrs {
				call, ok := in.(*ssa.Call)
				if !ok {
					continue
				}
				if x, isAdd := c.wgOfCall(&call.Call, "Add"); isAdd && x.structT != nil {
					name := x.structT.Obj().Name() + "." + x.field
					groups[name] = x
					if addFns[name] == nil {
						addFns[name] = map[*ssa.Function]bool{}
					}
					addFns[name][fn] = true
				}
			}
		}
	}
	var names []string
	for n := range groups {
		names = append(names, n)
	}
	sort.Strings(names)
	for _, name := range names {
		p := &wgPair{c: c, w: groups[name], memo: map[*ssa.Function][]string{}, busy: map[*ssa.Function]bool{}, needs: map[*ssa.Function]map[int]bool{}}
		// the functions to decide: those that add, and transitively the callers a count is handed to
		todo := c.M.SortedFuncs(addFns[name])
		done := map[*ssa.Function]bool{}
		for len(todo) > 0 {
			fn := todo[0]
			todo = todo[1:]
			if done[fn] {
				continue
			}
			done[fn] = true
			k := key(rule, c.M.Key(fn), "a count added to "+name+" is released in the call tree that added it")
			left := p.leavesWith(fn)
			pos := c.M.Pos(fn.Pos())
			if len(left) == 0 {
				c.R.Ok(rule, k, pos, "every count on "+name+" is released before the function is left",
					"from each Add (or call of a function that leaves with a count) every path to a return passes a Done on the same WaitGroup - direct, deferred, through sync.Once.Do or in a callee that always calls it - or a go statement whose goroutine always calls it")
				continue
			}
			sites := core.PlainSites(fn)
			if len(sites) == 0 {
				c.R.Bad(rule, k, pos, "a count on "+name+" is still there when "+fn.Name()+" returns, and its callers are not in the module's hands",
					left[0]+": no path from there to the return releases the count, and the function is exported, address-taken or run as a goroutine - whether the entry point that calls Done ever runs is the peer's choice, so a Wait on "+name+" can block for good")
				continue
			}
			c.R.Ok(rule, k, pos, "the count on "+name+" is handed to the callers",
				left[0]+"; every use of "+fn.Name()+" is a plain static call, and each calling function is decided in turn")
			callers := map[*ssa.Function]bool{}
			for _, s := range sites {
				callers[s.Parent()] = true
			}
			todo = append(todo, c.M.SortedFuncs(callers)...)
		}
	}
}

var _ = types.Typ

// ---------- R-SUMALL (C16): every count reaches the sum that is returned ----------
//
// The unit parser folds the matched groups into two sums, an integer one and a float one, and a flag that says which
// of them is the result. The step of the fold is the function that parses one count (strconv.ParseInt / ParseFloat)
// and receives and returns the sums and the flag. For every way out of the step that is taken after a count was
// parsed and that does not report an error:
//
//	(i)  if the flag it returns can be false (the integer sum stays the result), the integer sum it returns is computed
//	     from the count and from the integer sum it received;
//	(ii) if the flag it returns can be true (the float sum is the result), the float sum it returns is computed from the
//	     count and from the float sum it received; and if the flag it received can have been false there - the way out
//	     switches from the integer sum to the float sum - then either the float sum is kept up to date in integer
//	     mode as well (on every way out of kind (i) the float sum returned is computed from the count and the float sum
//	     received), or the float sum returned here is computed from the integer sum received, or the fold's caller
//	     combines both sums in the value it returns; and where the flag received can have been true already, the float
//	     sum returned is computed from the float sum received (the integer sum is stale in float mode).
//
// Otherwise the counts parsed before the switch are lost from the result. Dependence is data flow within the step
// (operands, phis); the roles are found by shape (the parameter that an early way out hands back in each position).
func (c *Ctx) ruleSumAll(rule string) {
	// the steps of the fold: the functions of the units file that parse a count and hand the sums back (a step may be
	// split into an entry and a worker: every part is examined, and "kept up to date" is decided over all of them)
	var scalar, record []*ssa.Function
	for _, fn := range c.unitFuncs() {
		if core.ErrorResultIndex(fn.Signature) < 0 {
			continue
		}
		parses := false
		for _, b := range fn.Blocks {
			for _, in := range b.Instrs {
				if call, ok := in.(*ssa.Call); ok {
					switch core.StaticCalleeName(&call.Call) {
					case "strconv.ParseInt", "strconv.ParseFloat":
						parses = true
					}
				}
			}
		}
		if !parses {
			continue
		}
		switch {
		case sumsRecord(fn) != nil:
			record = append(record, fn)
		case fn.Signature.Results().Len() >= 4:
			scalar = append(scalar, fn)
		}
	}
	if len(scalar) == 0 && len(record) == 0 {
		c.R.Unresolved(rule, "the step of the unit parser's fold (a function that parses a count and returns the sums, the flag and an error)")
		return
	}
	for _, fn := range record {
		c.sumAllRecord(rule, fn)
	}
	// "the float sum is kept up to date in integer mode" is a fact about all the parts together
	tracked := true
	var parts []sumAllPart
	for _, fn := range scalar {
		part, ok := c.sumAllWays(rule, fn)
		if !ok {
			return
		}
		parts = append(parts, part)
		for _, w := range part.ways {
			if w.mayInt && !w.floatOK {
				tracked = false
			}
		}
	}
	for _, part := range parts {
		c.sumAllDecide(rule, part, tracked)
	}
}

type sumAllWay struct {
	r                         core.Ret
	mayInt, mayFloat, wasInt  bool
	wasFloat                  bool // the flag received can have been true (the float sum was the result already)
	intOK, floatOK, floatSeed bool
	floatCount, floatPrev     bool
}

type sumAllPart struct {
	step     *ssa.Function
	ways     []sumAllWay
	combines bool
}

// sumsRecord: the struct type in which fn receives and returns the sums (a parameter and a result of one named struct
// type of the module with an integer, a float and a bool field), nil if it has none.
func sumsRecord(fn *ssa.Function) *types.Named {
	for i := 0; i < fn.Signature.Results().Len(); i++ {
		named, ok := fn.Signature.Results().At(i).Type().(*types.Named)
		if !ok {
			continue
		}
		st, ok := named.Underlying().(*types.Struct)
		if !ok {
			continue
		}
		var hasInt, hasFloat, hasBool bool
		for f := 0; f < st.NumFields(); f++ {
			if bt, ok := st.Field(f).Type().Underlying().(*types.Basic); ok {
				hasInt = hasInt || bt.Info()&types.IsInteger != 0
				hasFloat = hasFloat || bt.Info()&types.IsFloat != 0
				hasBool = hasBool || bt.Info()&types.IsBoolean != 0
			}
		}
		if !hasInt || !hasFloat || !hasBool {
			continue
		}
		for _, p := range fn.Params {
			if types.Identical(p.Type(), named) {
				return named
			}
		}
	}
	return nil
}

// sumAllRecord: the sums travel in a struct. Decided per numeric field, without regard to the order of the statements:
// some store into the field, in the step, is computed from a parsed count and from the value the field held (a weaker
// clause than the one for separate results: a count that is left out on one way only is not seen in this form).
func (c *Ctx) sumAllRecord(rule string, step *ssa.Function) {
	named := sumsRecord(step)
	st := named.Underlying().(*types.Struct)
	count := map[ssa.Value]bool{}
	for _, b := range step.Blocks {
		for _, in := range b.Instrs {
			if call, ok := in.(*ssa.Call); ok {
				switch core.StaticCalleeName(&call.Call) {
				case "strconv.ParseInt", "strconv.ParseFloat":
					count[call] = true
				}
			}
		}
	}
	for changed := true; changed; {
		changed = false
		for _, b := range step.Blocks {
			for _, in := range b.Instrs {
				v, ok := in.(ssa.Value)
				if !ok || count[v] {
					continue
				}
				var ops []*ssa.Value
				for _, op := range in.Operands(ops) {
					if op != nil && *op != nil && count[*op] {
						count[v] = true
						changed = true
						break
					}
				}
			}
		}
	}
	for f := 0; f < st.NumFields(); f++ {
		bt, ok := st.Field(f).Type().Underlying().(*types.Basic)
		if !ok || bt.Info()&(types.IsInteger|types.IsFloat) == 0 {
			continue
		}
		k := key(rule, c.M.Key(step), "the sum kept in field "+st.Field(f).Name()+" takes the parsed counts in")
		found := ""
		for _, b := range step.Blocks {
			for _, in := range b.Instrs {
				store, ok := in.(*ssa.Store)
				if !ok {
					continue
				}
				fa, ok := store.Addr.(*ssa.FieldAddr)
				if !ok || fa.Field != f || structOf(fa.X.Type()) == nil || structOf(fa.X.Type()).Obj() != named.Obj() || !count[store.Val] {
					continue
				}
				// ... and from the value the field held
				// (the same field of the record: of the cell that is written, or of the record that was handed in when
				// the new sums are put into a fresh one)
				if derivedFrom(store.Val, func(v ssa.Value) bool {
					if fv, isField := v.(*ssa.Field); isField {
						return fv.Field == f && structOf(fv.X.Type()) != nil && structOf(fv.X.Type()).Obj() == named.Obj()
					}
					ld, ok := v.(*ssa.UnOp)
					if !ok || ld.Op != token.MUL {
						return false
					}
					if sameAddr(ld.X, fa) {
						return true
					}
					from, isFA := ld.X.(*ssa.FieldAddr)
					return isFA && from.Field == f && structOf(from.X.Type()) != nil && structOf(from.X.Type()).Obj() == named.Obj()
				}) {
					found = c.M.InstrPos(store)
				}
			}
		}
		if found != "" {
			c.R.Ok(rule, k, found, "a parsed count is added to the sum", "a store into the field is computed from a parsed count and from the value the field held (sums kept in a struct: decided per field, not per way out)")
		} else {
			c.R.Bad(rule, k, c.M.Pos(step.Pos()), "no parsed count is ever added to this sum",
				"no store into the field is computed from both a parsed count and the value the field held: the sum that is returned leaves the counts out")
		}
	}
}

// sumAllWays: the ways out of one part of the step (separate results for the sums and the flag) that are taken after a
// count was parsed, with what each returns.
func (c *Ctx) sumAllWays(rule string, step *ssa.Function) (sumAllPart, bool) {
	ei := core.ErrorResultIndex(step.Signature)
	rets := core.ReturnsOf(step)
	// roles: result position -> the parameter an early way out hands back there
	role := map[int]*ssa.Parameter{}
	for _, r := range rets {
		for i := 0; i < step.Signature.Results().Len(); i++ {
			if p, ok := r.Val(i).(*ssa.Parameter); ok && types.Identical(p.Type(), step.Signature.Results().At(i).Type()) {
				if role[i] == nil {
					role[i] = p
				}
			}
		}
	}
	intIdx, floatIdx, flagIdx := -1, -1, -1
	for i := 0; i < step.Signature.Results().Len(); i++ {
		bt, ok := step.Signature.Results().At(i).Type().Underlying().(*types.Basic)
		if !ok || role[i] == nil {
			continue
		}
		switch {
		case bt.Info()&types.IsInteger != 0 && intIdx < 0:
			intIdx = i
		case bt.Info()&types.IsFloat != 0 && floatIdx < 0:
			floatIdx = i
		case bt.Info()&types.IsBoolean != 0 && flagIdx < 0:
			flagIdx = i
		}
	}
	if intIdx < 0 || floatIdx < 0 || flagIdx < 0 {
		c.R.Unresolved(rule, "the integer sum, float sum and flag of "+step.Name()+" (results that an early way out hands back from a parameter of the same type)")
		return sumAllPart{}, false
	}
	taint := func(src func(ssa.Value) bool) map[ssa.Value]bool {
		t := map[ssa.Value]bool{}
		for _, p := range step.Params {
			if src(p) {
				t[p] = true
			}
		}
		for _, b := range step.Blocks {
			for _, in := range b.Instrs {
				if v, ok := in.(ssa.Value); ok && src(v) {
					t[v] = true
				}
			}
		}
		for changed := true; changed; {
			changed = false
			for _, b := range step.Blocks {
				for _, in := range b.Instrs {
					v, ok := in.(ssa.Value)
					if !ok || t[v] {
						continue
					}
					var ops []*ssa.Value
					for _, op := range in.Operands(ops) {
						if op != nil && *op != nil && t[*op] {
							t[v] = true
							changed = true
							break
						}
					}
				}
			}
		}
		return t
	}
	var parseCalls []*ssa.Call
	fromCount := taint(func(v ssa.Value) bool {
		if call, ok := v.(*ssa.Call); ok {
			switch core.StaticCalleeName(&call.Call) {
			case "strconv.ParseInt", "strconv.ParseFloat":
				parseCalls = append(parseCalls, call)
				return true
			}
		}
		return false
	})
	fromInt := taint(func(v ssa.Value) bool { return v == ssa.Value(role[intIdx]) })
	fromFloat := taint(func(v ssa.Value) bool { return v == ssa.Value(role[floatIdx]) })
	// the fold's caller combines both sums?
	combines := false
	for _, site := range core.PlainSites(step) {
		caller := site.Parent()
		t := map[ssa.Value]int{}
		for _, b := range caller.Blocks {
			for _, in := range b.Instrs {
				if ex, ok := in.(*ssa.Extract); ok {
					if call, isCall := ex.Tuple.(*ssa.Call); isCall && core.StaticBody(&call.Call) == step {
						if ex.Index == intIdx {
							t[ex] |= 1
						}
						if ex.Index == floatIdx {
							t[ex] |= 2
						}
					}
				}
			}
		}
		for changed := true; changed; {
			changed = false
			for _, b := range caller.Blocks {
				for _, in := range b.Instrs {
					v, ok := in.(ssa.Value)
					if !ok {
						continue
					}
					if call, isCall := v.(*ssa.Call); isCall && core.StaticBody(&call.Call) == step {
						continue
					}
					var ops []*ssa.Value
					for _, op := range in.Operands(ops) {
						if op != nil && *op != nil && t[*op]&^t[v] != 0 {
							t[v] |= t[*op]
							changed = true
						}
					}
				}
			}
		}
		for _, r := range core.ReturnInstrs(caller) {
			for _, v := range r.Results {
				if bin, ok := core.Unwrap(v).(*ssa.BinOp); ok && t[bin] == 3 && !(t[bin.X] == 3 || t[bin.Y] == 3) {
					combines = true
				}
			}
		}
	}
	var ways []sumAllWay
	for _, r := range rets {
		if c.M.RetNonNil(r, ei) {
			continue
		}
		after := false
		for _, pc := range parseCalls {
			if pc.Block() == r.Block() || pc.Block().Dominates(r.Block()) {
				after = true
			}
		}
		if !after {
			continue
		}
		w := sumAllWay{r: r, mayInt: true, mayFloat: true, wasInt: true, wasFloat: true}
		for _, cond := range r.Conds() {
			if cond.V == ssa.Value(role[flagIdx]) && cond.True {
				w.wasInt = false
			}
			if cond.V == ssa.Value(role[flagIdx]) && !cond.True {
				w.wasFloat = false
			}
		}
		flag := r.Val(flagIdx)
		if k, ok := flag.(*ssa.Const); ok && k.Value != nil {
			w.mayFloat = k.Value.String() == "true"
			w.mayInt = !w.mayFloat
		} else if flag == ssa.Value(role[flagIdx]) {
			for _, cond := range r.Conds() {
				if cond.V == flag {
					w.mayFloat, w.mayInt = cond.True, !cond.True
				}
			}
		}
		iv, fv := r.Val(intIdx), r.Val(floatIdx)
		w.intOK = fromCount[iv] && fromInt[iv]
		w.floatOK = fromCount[fv] && fromFloat[fv]
		w.floatSeed = fromCount[fv] && fromInt[fv]
		w.floatCount, w.floatPrev = fromCount[fv], fromFloat[fv]
		ways = append(ways, w)
	}
	return sumAllPart{step: step, ways: ways, combines: combines}, true
}

// sumAllDecide: clauses (i) and (ii) for the ways out of one part.
func (c *Ctx) sumAllDecide(rule string, part sumAllPart, tracked bool) {
	step, ways, combines := part.step, part.ways, part.combines
	n := 0
	for _, w := range ways {
		n++
		k := key(rule, c.M.Key(step), sprintf("way out #%d taken after a count was parsed", n))
		pos := c.M.InstrPos(w.r.Return)
		if w.r.Merged() {
			pos = c.M.InstrPos(w.r.Block().Instrs[len(w.r.Block().Instrs)-1])
		}
		switch {
		case w.mayInt && !w.intOK:
			c.R.Bad(rule, k, pos, "a count is left out of the integer sum",
				"the way out can return with the flag false (the integer sum is the result), but the integer sum it returns is not computed from both the parsed count and the sum received: the parser returns a wrong number")
		case w.mayFloat && !(w.floatCount && (w.floatPrev || w.floatSeed)):
			c.R.Bad(rule, k, pos, "a count is left out of the float sum",
				"the way out can return with the flag true (the float sum is the result), but the float sum it returns is not computed from both the parsed count and a sum received: the parser returns a wrong number")
		case w.mayFloat && w.wasFloat && !w.floatPrev && !combines:
			c.R.Bad(rule, k, pos, "the float sum received is dropped",
				"the way out can be taken when the float sum is the result already (the flag received can be true: an earlier count did not fit in 64 bits), but the float sum it returns is not computed from the float sum received - the integer sum it may be computed from is stale by then: ParseFloat returns only the counts from this one on")
		case w.mayFloat && w.wasInt && !tracked && !w.floatSeed && !combines:
			c.R.Bad(rule, k, pos, "the switch to the float sum drops the counts summed so far",
				"the way out can switch from the integer sum to the float sum; the float sum is not kept up to date in integer mode (another way out returns it without the parsed count), and here it is not computed from the integer sum received, nor does the caller combine the two sums: ParseFloat returns only the counts from this one on")
		default:
			how := "the sum that is the result afterwards is computed from the parsed count and from the sum received"
			if w.mayFloat && w.wasInt {
				switch {
				case tracked:
					how += "; the float sum is kept up to date on every way out in integer mode, so the switch to it loses nothing"
				case w.floatSeed:
					how += "; the float sum is computed from the integer sum received"
				default:
					how += "; the caller combines both sums"
				}
			}
			c.R.Ok(rule, k, pos, "the parsed count reaches the result", how)
		}
	}
}

// ---------- R-DISCROUTE (C03): a struct value of a one-of is routed by its discriminator ----------
//
// Validate and Serialize find the member for a native struct value by its Go type. With an inlined discriminator the
// value holds its discriminator, which selects the member as it does for Unserialize: a member that takes the Go type
// is chosen only under the verdict of the function that reads the discriminator out of the value. The function under
// examination is the one that compares the members' ReflectedType() with the type of the value; the places where a
// member is chosen are found from the ways out that return one: the returned key (and member) are followed back through
// loads, merges and the local variables they were stored into, to the places where a member taken from the table of
// members was put there. Each such place must be reached only (a) with DiscriminatorInlined known false, or (b) under
// a branch on something computed from the value by reading one of its fields (a helper that is handed the value, or
// reflect's field accessors).
func (c *Ctx) ruleDiscRoute(rule string) {
	n := 0
	for _, fn := range c.M.SortedFuncs(c.scopePkg("schema")) {
		if fn.Signature.Recv() == nil || len(fn.Params) < 2 || !strings.Contains(typeStr(fn.Params[0].Type()), "OneOfSchema") {
			continue
		}
		// compares ReflectedType() of a member with a reflect.Type - itself, or in a helper on the same receiver that it
		// hands the member to
		comparesIn := func(g *ssa.Function) bool {
			for _, b := range g.Blocks {
				for _, in := range b.Instrs {
					if bin, ok := in.(*ssa.BinOp); ok && (bin.Op == token.EQL || bin.Op == token.NEQ) {
						for _, side := range []ssa.Value{bin.X, bin.Y} {
							if call, isCall := side.(*ssa.Call); isCall && call.Call.IsInvoke() && call.Call.Method.Name() == "ReflectedType" {
								return true
							}
						}
					}
				}
			}
			return false
		}
		compares := comparesIn(fn)
		if !compares {
			for _, b := range fn.Blocks {
				for _, in := range b.Instrs {
					call, ok := in.(*ssa.Call)
					if !ok {
						continue
					}
					if g := core.StaticBody(&call.Call); g != nil && g != fn && g.Signature.Recv() != nil && len(call.Call.Args) > 0 &&
						types.Identical(call.Call.Args[0].Type(), fn.Params[0].Type()) && comparesIn(g) {
						compares = true
					}
				}
			}
		}
		if !compares {
			continue
		}
		// the value: the parameters of the empty interface type
		isData := func(v ssa.Value) bool {
			if mi, isMI := v.(*ssa.MakeInterface); isMI {
				v = mi.X
			}
			prm, ok := v.(*ssa.Parameter)
			if !ok || prm.Parent() != fn {
				return false
			}
			it, ok := prm.Type().Underlying().(*types.Interface)
			return ok && it.NumMethods() == 0
		}
		isMemberTable := func(v ssa.Value) bool {
			return strings.HasSuffix(c.M.ValPath(v), ".TypesValue")
		}
		// values taken from the table of members: range elements, lookups, and elements of slices built from them
		var fromTable func(v ssa.Value, d int) bool
		fromTable = func(v ssa.Value, d int) bool {
			if v == nil || d > 8 {
				return false
			}
			switch x := v.(type) {
			case *ssa.Extract:
				if nx, ok := x.Tuple.(*ssa.Next); ok {
					if rg, ok := nx.Iter.(*ssa.Range); ok {
						return isMemberTable(rg.X) || fromTable(rg.X, d+1)
					}
				}
				if lk, ok := x.Tuple.(*ssa.Lookup); ok {
					return isMemberTable(lk.X)
				}
			case *ssa.Lookup:
				return isMemberTable(x.X)
			case *ssa.UnOp:
				if x.Op == token.MUL {
					if ia, ok := x.X.(*ssa.IndexAddr); ok {
						// an element of a slice: something taken from the table was stored into (appended to) it
						return c.sliceHoldsFromTable(ia.X, fromTable, d+1)
					}
					if al, ok := x.X.(*ssa.Alloc); ok && al.Referrers() != nil {
						for _, r := range *al.Referrers() {
							if st, ok := r.(*ssa.Store); ok && st.Addr == ssa.Value(al) && fromTable(st.Val, d+1) {
								return true
							}
						}
					}
				}
			case *ssa.Phi:
				for _, e := range x.Edges {
					if fromTable(e, d+1) {
						return true
					}
				}
			case *ssa.ChangeType:
				return fromTable(x.X, d+1)
			case *ssa.MakeInterface:
				return fromTable(x.X, d+1)
			}
			return false
		}
		sites := map[*ssa.BasicBlock]ssa.Instruction{}
		seen := map[ssa.Value]bool{}
		var trace func(v ssa.Value, at *ssa.BasicBlock, atIn ssa.Instruction, d int)
		trace = func(v ssa.Value, at *ssa.BasicBlock, atIn ssa.Instruction, d int) {
			if v == nil || d > 10 {
				return
			}
			if _, isPhi := v.(*ssa.Phi); !isPhi {
				if direct := fromTableDirect(v, isMemberTable); direct {
					sites[at] = atIn
					return
				}
			}
			if seen[v] {
				return
			}
			seen[v] = true
			switch x := v.(type) {
			case *ssa.UnOp:
				if x.Op != token.MUL {
					return
				}
				switch p := x.X.(type) {
				case *ssa.Alloc:
					if p.Referrers() != nil {
						for _, r := range *p.Referrers() {
							if st, ok := r.(*ssa.Store); ok && st.Addr == ssa.Value(p) {
								trace(st.Val, st.Block(), st, d+1)
							}
						}
					}
				case *ssa.Phi:
					for i, e := range p.Edges {
						if al, ok := e.(*ssa.Alloc); ok && al.Referrers() != nil {
							for _, r := range *al.Referrers() {
								if st, ok := r.(*ssa.Store); ok && st.Addr == ssa.Value(al) {
									trace(st.Val, st.Block(), st, d+1)
								}
							}
						} else if _, isConst := e.(*ssa.Const); !isConst {
							trace(e, p.Block().Preds[i], p, d+1)
						}
					}
				case *ssa.IndexAddr:
					if c.sliceHoldsFromTable(p.X, fromTable, 0) {
						sites[at] = atIn
					}
				}
			case *ssa.Phi:
				for i, e := range x.Edges {
					pred := x.Block().Preds[i]
					trace(e, pred, pred.Instrs[len(pred.Instrs)-1], d+1)
				}
			case *ssa.Alloc:
				// a pointer to a local that is handed out: what was stored into the local
				if x.Referrers() != nil {
					for _, r := range *x.Referrers() {
						if st, ok := r.(*ssa.Store); ok && st.Addr == ssa.Value(x) {
							trace(st.Val, st.Block(), st, d+1)
						}
					}
				}
			case *ssa.Lookup:
				if isMemberTable(x.X) {
					trace(x.Index, at, atIn, d+1)
				}
			case *ssa.Extract:
				if lk, ok := x.Tuple.(*ssa.Lookup); ok && isMemberTable(lk.X) {
					trace(lk.Index, at, atIn, d+1)
				}
			case *ssa.ChangeType:
				trace(x.X, at, atIn, d+1)
			case *ssa.MakeInterface:
				trace(x.X, at, atIn, d+1)
			}
		}
		ei := core.ErrorResultIndex(fn.Signature)
		for _, r := range core.ReturnsOf(fn) {
			if ei >= 0 && c.M.RetNonNil(r, ei) {
				continue
			}
			for i := 0; i < fn.Signature.Results().Len(); i++ {
				if i == ei {
					continue
				}
				trace(r.Val(i), r.Block(), r.Return, 0)
			}
		}
		if len(sites) == 0 {
			continue
		}
		readsValue := func(v ssa.Value) bool {
			call, ok := v.(*ssa.Call)
			if !ok {
				return false
			}
			switch core.StaticCalleeName(&call.Call) {
			case "(reflect.Value).FieldByIndexErr", "(reflect.Value).FieldByIndex", "(reflect.Value).FieldByName", "(reflect.Value).Field":
				return true
			}
			if callee := core.StaticBody(&call.Call); callee != nil && callee.Pkg == fn.Pkg {
				for _, a := range call.Call.Args {
					if isData(a) {
						return true
					}
				}
			}
			return false
		}
		est := func(cond core.Cond) bool {
			if ld, ok := cond.V.(*ssa.UnOp); ok && ld.Op == token.MUL && !cond.True {
				if fa, ok := ld.X.(*ssa.FieldAddr); ok && fieldName(fa.X.Type(), fa.Field) == "DiscriminatorInlined" {
					return true
				}
			}
			if f, ok := cond.V.(*ssa.Field); ok && !cond.True && fieldName(f.X.Type(), f.Field) == "DiscriminatorInlined" {
				return true
			}
			if cond.Via != nil || cond.Entry {
				return false
			}
			return derivedFrom(cond.V, readsValue)
		}
		hold := core.MustHold(fn, est)
		var blocks []*ssa.BasicBlock
		for b := range sites {
			blocks = append(blocks, b)
		}
		sort.Slice(blocks, func(i, j int) bool { return blocks[i].Index < blocks[j].Index })
		for i, b := range blocks {
			n++
			k := key(rule, c.M.Key(fn), sprintf("member chosen for a struct value #%d under the verdict of its discriminator", i+1))
			pos := c.M.InstrPos(sites[b])
			if hold[b] {
				c.R.Ok(rule, k, pos, "a member that takes the Go type is chosen by the value's discriminator",
					"reached only with DiscriminatorInlined false or under a branch on what was read out of the value")
			} else {
				c.R.Bad(rule, k, pos, "a member is chosen by the Go type of the value alone",
					"with an inlined discriminator this place can be reached without the value's discriminator having been looked at: a struct whose discriminator names another member (or none) is validated and serialized as this member, and Unserialize refuses the result")
			}
		}
	}
	if n == 0 {
		c.R.Unresolved(rule, "the places where a one-of chooses the member for a struct value (a function that compares the members' ReflectedType() with the type of the value)")
	}
}

func fromTableDirect(v ssa.Value, isMemberTable func(ssa.Value) bool) bool {
	if ex, ok := v.(*ssa.Extract); ok {
		if nx, ok := ex.Tuple.(*ssa.Next); ok {
			if rg, ok := nx.Iter.(*ssa.Range); ok {
				return isMemberTable(rg.X)
			}
		}
	}
	return false
}

// sliceHoldsFromTable: something taken from the table of members is appended to / stored into the slice.
func (c *Ctx) sliceHoldsFromTable(s ssa.Value, fromTable func(ssa.Value, int) bool, d int) bool {
	seen := map[ssa.Value]bool{}
	var rec func(v ssa.Value, d int) bool
	rec = func(v ssa.Value, d int) bool {
		if v == nil || d > 8 || seen[v] {
			return false
		}
		seen[v] = true
		switch x := v.(type) {
		case *ssa.Phi:
			for _, e := range x.Edges {
				if rec(e, d+1) {
					return true
				}
			}
		case *ssa.Call:
			// a helper of the module that hands out such a slice (the sorted keys of the table)
			if callee := core.StaticBody(&x.Call); callee != nil && callee.Pkg != nil && c.M.IsRepoPkg(callee.Pkg.Pkg) && d < 4 {
				for _, r := range core.ReturnInstrs(callee) {
					for _, res := range r.Results {
						if _, isSlice := res.Type().Underlying().(*types.Slice); isSlice && rec(res, d+2) {
							return true
						}
					}
				}
				return false
			}
			if bi, ok := x.Call.Value.(*ssa.Builtin); ok && bi.Name() == "append" {
				if rec(x.Call.Args[0], d+1) {
					return true
				}
				// the variadic part: a slice of a fresh array whose elements were stored
				if sl, ok := x.Call.Args[1].(*ssa.Slice); ok {
					if al, ok := sl.X.(*ssa.Alloc); ok && al.Referrers() != nil {
						for _, r := range *al.Referrers() {
							if ia, ok := r.(*ssa.IndexAddr); ok && ia.Referrers() != nil {
								for _, r2 := range *ia.Referrers() {
									if st, ok := r2.(*ssa.Store); ok && fromTable(st.Val, d+1) {
										return true
									}
								}
							}
						}
					}
				}
			}
		case *ssa.Slice:
			return rec(x.X, d+1)
		case *ssa.MakeSlice:
			// make([]K, n) filled by index
			if x.Referrers() != nil {
				for _, r := range *x.Referrers() {
					if ia, ok := r.(*ssa.IndexAddr); ok && ia.Referrers() != nil {
						for _, r2 := range *ia.Referrers() {
							if st, ok := r2.(*ssa.Store); ok && st.Addr == ssa.Value(ia) && fromTable(st.Val, d+1) {
								return true
							}
						}
					}
				}
			}
		case *ssa.UnOp:
			if al, ok := x.X.(*ssa.Alloc); ok && al.Referrers() != nil {
				for _, r := range *al.Referrers() {
					if st, ok := r.(*ssa.Store); ok && st.Addr == ssa.Value(al) && rec(st.Val, d+1) {
						return true
					}
				}
			}
		}
		return false
	}
	return rec(s, d)
}

// ---------- R-DECODEFIRST (C08): no message of the peer is dropped before its payload was decoded ----------
//
// The read loop hands every message to a handler of the client together with its envelope (type, run ID, raw payload).
// Decoding the payload (with unknown fields refused) is the integrity check of the message: a handler that can return
// without it lets a message through whose type byte was damaged - a work-done message that arrives as a signal is
// "a signal nobody listens to", its run never gets its result and its Execute never returns. In every method of the
// client that is handed the envelope (a struct with a cbor.RawMessage field), every path to a return passes the
// decoding of that field (an Unmarshal call that is handed the field), directly or in a callee that is handed the
// envelope or the field and decodes it on all its paths.
func (c *Ctx) ruleDecodeFirst(rule string) {
	ro := c.roles()
	if !ro.ok {
		return
	}
	isRaw := func(t types.Type) bool { return isNamed(t, "github.com/fxamacker/cbor/v2", "RawMessage") }
	envelopeField := func(t types.Type) int {
		if p, ok := t.Underlying().(*types.Pointer); ok {
			t = p.Elem()
		}
		st, ok := t.Underlying().(*types.Struct)
		if !ok {
			return -1
		}
		for i := 0; i < st.NumFields(); i++ {
			if isRaw(st.Field(i).Type()) {
				return i
			}
		}
		return -1
	}
	var decodesAll func(fn *ssa.Function, prm *ssa.Parameter, depth int) bool
	decodesAll = func(fn *ssa.Function, prm *ssa.Parameter, depth int) bool {
		if depth > 3 || len(fn.Blocks) == 0 {
			return false
		}
		fieldIdx := envelopeField(prm.Type())
		// the raw payload: the parameter itself, or its field
		payload := func(v ssa.Value) bool {
			return derivedFrom(v, func(x ssa.Value) bool {
				if x == ssa.Value(prm) && isRaw(prm.Type()) {
					return true
				}
				switch y := x.(type) {
				case *ssa.Field:
					return y.Field == fieldIdx && derivedFrom(y.X, func(z ssa.Value) bool { return z == ssa.Value(prm) })
				case *ssa.FieldAddr:
					return y.Field == fieldIdx && derivedFrom(y.X, func(z ssa.Value) bool { return z == ssa.Value(prm) })
				}
				return false
			})
		}
		envelope := func(v ssa.Value) bool {
			return derivedFrom(v, func(z ssa.Value) bool { return z == ssa.Value(prm) })
		}
		return everyPathSat(fn.Blocks[0], func(_ *ssa.BasicBlock, in ssa.Instruction) bool {
			call, ok := in.(*ssa.Call)
			if !ok {
				return false
			}
			name := core.StaticCalleeName(&call.Call)
			if call.Call.IsInvoke() {
				name = call.Call.Method.Name()
			}
			if strings.HasSuffix(name, "Unmarshal") {
				for _, a := range call.Call.Args {
					if payload(a) {
						return true
					}
				}
				return false
			}
			if callee := core.StaticBody(&call.Call); callee != nil && callee.Pkg == fn.Pkg {
				for i, a := range call.Call.Args {
					if i < len(callee.Params) && (envelopeField(callee.Params[i].Type()) >= 0 && envelope(a) || isRaw(callee.Params[i].Type()) && payload(a)) {
						if decodesAll(callee, callee.Params[i], depth+1) {
							return true
						}
					}
				}
			}
			return false
		})
	}
	n := 0
	for _, fn := range c.M.SortedFuncs(c.scopePkg("atp")) {
		if fn.Parent() != nil || !c.methodOrClosureOf(fn, ro.clientT) {
			continue
		}
		for _, prm := range fn.Params[1:] {
			if envelopeField(prm.Type()) < 0 {
				continue
			}
			n++
			k := key(rule, c.M.Key(fn), "the payload of the message is decoded on every path")
			if decodesAll(fn, prm, 0) {
				c.R.Ok(rule, k, c.M.Pos(fn.Pos()), "handler of a message of the peer", "every path to a return passes an Unmarshal of the envelope's raw payload (here, or in a callee that is handed the envelope)")
			} else {
				c.R.Bad(rule, k, c.M.Pos(fn.Pos()), "a message can be dropped before its payload was decoded",
					"some path returns without having decoded the payload: a message whose type was damaged on the way (a result that arrives as a signal) passes for a message that needs no attention, the run it belongs to never gets its result, and its Execute never returns")
			}
		}
	}
	if n == 0 {
		c.R.Unresolved(rule, "methods of the ATP client that are handed the envelope of a message (a struct with a cbor.RawMessage field)")
	}
}

// ---------- R-EMPTYROW (C09): no row of the meta-schema drops a value that differs from "not set" ----------
//
// A property marked TreatEmptyAsDefaultValue is left out of the serialized form when its value is the zero value -
// after a pointer was followed. For a struct field that is a pointer, "not set" is the nil pointer, and a pointer to the
// zero value (a default value that is the empty string, a bound of 0) is a value like any other: a row of the
// meta-schema with that mark would drop it from the description, and the schema rebuilt from the description would lack
// it. Every row that the package initialiser files, under a constant name, into the property table of a struct-mapped
// object of the meta-schema and whose struct field (found by its json tag) is a pointer is an obligation: the property
// is not the result of TreatEmptyAsDefaultValue (directly, or where a shared row is built).
func (c *Ctx) ruleEmptyRow(rule string) {
	init := c.M.FuncByKey["schema.init"]
	if init == nil {
		c.R.Unresolved(rule, "the package initialiser of package schema")
		return
	}
	// the property tables: maps handed to NewStructMappedObjectSchema[T]
	tables := map[ssa.Value]types.Type{}
	for _, b := range init.Blocks {
		for _, in := range b.Instrs {
			call, ok := in.(*ssa.Call)
			if !ok {
				continue
			}
			callee := call.Call.StaticCallee()
			if callee == nil || len(callee.TypeArgs()) != 1 || len(call.Call.Args) != 2 {
				continue
			}
			origin := callee
			if o := callee.Origin(); o != nil {
				origin = o
			}
			if origin.Name() != "NewStructMappedObjectSchema" {
				continue
			}
			tables[call.Call.Args[1]] = callee.TypeArgs()[0]
		}
	}
	marked := func(v ssa.Value) bool {
		return derivedFrom(c.resolveInit(v, 0), func(x ssa.Value) bool {
			x = c.resolveInit(x, 0)
			call, ok := x.(*ssa.Call)
			if !ok {
				return false
			}
			callee := core.StaticBody(&call.Call)
			if callee == nil {
				return false
			}
			// the builder, or any method of the property that sets the flag
			if callee.Name() == "TreatEmptyAsDefaultValue" {
				return true
			}
			for _, cb := range callee.Blocks {
				for _, cin := range cb.Instrs {
					if st, ok := cin.(*ssa.Store); ok {
						if fa, ok := st.Addr.(*ssa.FieldAddr); ok && fieldName(fa.X.Type(), fa.Field) == "emptyIsDefault" {
							if k, isConst := st.Val.(*ssa.Const); !isConst || k.Value == nil || k.Value.String() != "false" {
								return len(callee.Params) > 0 && isNamedPtr(callee.Params[0].Type(), "PropertySchema")
							}
						}
					}
				}
			}
			return false
		})
	}
	n := 0
	for _, b := range init.Blocks {
		for _, in := range b.Instrs {
			mu, ok := in.(*ssa.MapUpdate)
			if !ok {
				continue
			}
			t, isTable := tables[mu.Map]
			name, isConst := core.ConstString(mu.Key)
			if !isTable || !isConst {
				continue
			}
			field := jsonTagsOf(t)[name]
			if field == nil {
				continue
			}
			if _, isPtr := field.Type().Underlying().(*types.Pointer); !isPtr {
				continue
			}
			n++
			owner := typeStr(t)
			k := key(rule, "schema.init", "row "+name+" of "+owner+" (a pointer field) is not left out when it points to the zero value")
			if marked(mu.Value) {
				c.R.Bad(rule, k, c.M.InstrPos(mu), "a row of the meta-schema for a pointer field is marked TreatEmptyAsDefaultValue",
					"the field "+field.Name()+" is a pointer: nil is \"not set\", a pointer to the zero value is a value; the mark drops that value from the description, and the schema rebuilt from it behaves differently (a default value that is the empty string disappears)")
			} else {
				c.R.Ok(rule, k, c.M.InstrPos(mu), "row of the meta-schema for a pointer field", "the property filed under this name is not the result of TreatEmptyAsDefaultValue")
			}
		}
	}
	if n == 0 {
		c.R.Unresolved(rule, "rows of the meta-schema whose struct field is a pointer")
	}
}

// ---------- R-KEEPKEY (C09): a table that is copied for the description keeps its keys ----------
//
// The callable forms of a schema (steps with handlers, signals) are described through plain copies: ToStepSchema and
// its likes build a new map from a table of the receiver, entry by entry. The plugin dispatches by the keys of its own
// table (CallSignal looks the handler up under the key), so the copy must file every entry under the key it came
// from: where a function of package schema ranges over a map and stores something computed from the entry's value into
// another map that it made, the key of the store is the key of the entry.
func (c *Ctx) ruleKeepKey(rule string) {
	n := 0
	for _, fn := range c.M.SortedFuncs(c.scopePkg("schema")) {
		idx := 0
		for _, b := range fn.Blocks {
			for _, in := range b.Instrs {
				mu, ok := in.(*ssa.MapUpdate)
				if !ok {
					continue
				}
				if _, made := mu.Map.(*ssa.MakeMap); !made {
					continue
				}
				// the entry the value is computed from
				var next *ssa.Next
				derivedFrom(mu.Value, func(x ssa.Value) bool {
					ex, ok := x.(*ssa.Extract)
					if !ok || ex.Index != 2 {
						return false
					}
					nx, ok := ex.Tuple.(*ssa.Next)
					if !ok || nx.IsString {
						return false
					}
					if rg, ok := nx.Iter.(*ssa.Range); ok {
						if _, isMap := rg.X.Type().Underlying().(*types.Map); isMap && rg.X != mu.Map {
							next = nx
							return true
						}
					}
					return false
				})
				if next == nil {
					continue
				}
				rg := next.Iter.(*ssa.Range)
				// only copies of a table of the receiver (a field), key types identical
				if !types.Identical(rg.X.Type().Underlying().(*types.Map).Key(), mu.Map.Type().Underlying().(*types.Map).Key()) {
					continue
				}
				if !strings.Contains(c.M.ValPath(rg.X), ".") {
					continue
				}
				idx++
				n++
				k := key(rule, c.M.Key(fn), sprintf("copy #%d of the entries of %s keeps their keys", idx, c.M.ValPath(rg.X)))
				sameKey := false
				if ex, ok := mu.Key.(*ssa.Extract); ok && ex.Index == 1 && ex.Tuple == ssa.Value(next) {
					sameKey = true
				}
				if sameKey {
					c.R.Ok(rule, k, c.M.InstrPos(mu), "entry-by-entry copy of a table", "the entry is stored under the key the range handed out for it")
				} else {
					c.R.Bad(rule, k, c.M.InstrPos(mu), "an entry of the table is filed under another key in the copy",
						"the copy (the description of a step, of a schema) names the entry differently from the table the plugin dispatches by: a handler whose key is not its ID is announced under a name that the plugin refuses, two handlers with one ID collapse into one")
				}
			}
		}
	}
	if n == 0 {
		c.R.Unresolved(rule, "entry-by-entry copies of a table of the receiver into a new map (ToStepSchema and its likes)")
	}
}

// ---------- R-ERRIDENT (C18): "the last result is error" is decided by identity ----------
//
// The constructors accept a handler exactly when its result types agree with the declared output and the error flag:
// the last result must be the interface type error itself - Call tests it with IsNil, which panics on a struct or an
// integer, and a declared error result is what the caller is promised. Implements / AssignableTo / ConvertibleTo with
// the error type accept every concrete type that has an Error method. Every use of the package-level reflect.Type of
// error (a variable initialised by reflect.TypeOf((*error)(nil)).Elem()) in package schema is an operand of == or !=.
func (c *Ctx) ruleErrIdent(rule string) {
	init := c.M.FuncByKey["schema.init"]
	if init == nil {
		c.R.Unresolved(rule, "the package initialiser of package schema")
		return
	}
	// the globals that hold the reflect.Type of error: initialised from TypeOf(x).Elem() where x is a nil *error
	var globals []*ssa.Global
	for _, b := range init.Blocks {
		for _, in := range b.Instrs {
			st, ok := in.(*ssa.Store)
			if !ok {
				continue
			}
			g, ok := st.Addr.(*ssa.Global)
			if !ok {
				continue
			}
			elem, ok := st.Val.(*ssa.Call)
			if !ok || !elem.Call.IsInvoke() || elem.Call.Method.Name() != "Elem" {
				continue
			}
			tof, ok := elem.Call.Value.(*ssa.Call)
			if !ok || core.StaticCalleeName(&tof.Call) != "reflect.TypeOf" || len(tof.Call.Args) != 1 {
				continue
			}
			arg := tof.Call.Args[0]
			if mi, ok := arg.(*ssa.MakeInterface); ok {
				arg = mi.X
			}
			if pt, ok := arg.Type().(*types.Pointer); ok && core.IsErrorType(pt.Elem()) {
				globals = append(globals, g)
			}
		}
	}
	if len(globals) == 0 {
		c.R.Unresolved(rule, "a package-level reflect.Type of the interface type error in package schema")
		return
	}
	n := 0
	for _, fn := range c.M.SortedFuncs(c.scopePkg("schema")) {
		idx := 0
		for _, b := range fn.Blocks {
			for _, in := range b.Instrs {
				ld, ok := in.(*ssa.UnOp)
				if !ok || ld.Op != token.MUL {
					continue
				}
				isErrT := false
				for _, g := range globals {
					if ld.X == ssa.Value(g) {
						isErrT = true
					}
				}
				if !isErrT || ld.Referrers() == nil {
					continue
				}
				for _, r := range *ld.Referrers() {
					if _, isDebug := r.(*ssa.DebugRef); isDebug {
						continue
					}
					idx++
					n++
					k := key(rule, c.M.Key(fn), sprintf("use #%d of the reflect.Type of error is an identity comparison", idx))
					if bin, ok := r.(*ssa.BinOp); ok && (bin.Op == token.EQL || bin.Op == token.NEQ) {
						c.R.Ok(rule, k, c.M.InstrPos(r), "test for the error result of a handler", "compared with == / != : only the interface type error itself passes")
						continue
					}
					what := "used other than in a comparison"
					if call, ok := r.(*ssa.Call); ok && call.Call.IsInvoke() {
						what = "handed to " + call.Call.Method.Name()
					}
					c.R.Bad(rule, k, c.M.InstrPos(r), "the reflect.Type of error is "+what,
						"Implements / AssignableTo / ConvertibleTo accept every concrete type with an Error method as \"the error result\": the constructors accept handlers whose last result is a struct or an integer, and Call's IsNil panics on them; a declared error result must be the interface type error itself")
				}
			}
		}
	}
	if n < 2 {
		c.R.Unresolved(rule, sprintf("uses of the reflect.Type of error in package schema (%d found, at least 2 expected: the typed and the dynamic constructor)", n))
	}
}

// ---------- R-NONFATAL (C05, C08): an error report that ends nothing does not end the read loop ----------
//
// An error message of the peer carries two flags, step-fatal and server-fatal; with both off it reports something that
// ended neither a run nor the session (a refused signal, a failed signal handler - the peer sends such reports for runs
// that are over, too, because the caller's signals are forwarded for as long as the caller sends them). The handler of
// error messages (the method of the client that decodes the payload into the struct with the two flags) gives up the
// stream - returns true to the read loop - only where one of the flags was found set or the payload did not decode.
// Otherwise a correct peer's harmless report fails every run that is waiting.
func (c *Ctx) ruleNonFatal(rule string) {
	ro := c.roles()
	if !ro.ok {
		return
	}
	n := 0
	for _, fn := range c.M.SortedFuncs(c.scopePkg("atp")) {
		if fn.Parent() != nil || !c.methodOrClosureOf(fn, ro.clientT) || fn.Signature.Results().Len() != 1 {
			continue
		}
		if bt, ok := fn.Signature.Results().At(0).Type().Underlying().(*types.Basic); !ok || bt.Kind() != types.Bool {
			continue
		}
		// decodes into a struct with the two flags?
		var decode *ssa.Call
		var msg ssa.Value
		for _, b := range fn.Blocks {
			for _, in := range b.Instrs {
				call, ok := in.(*ssa.Call)
				if !ok {
					continue
				}
				name := core.StaticCalleeName(&call.Call)
				if call.Call.IsInvoke() {
					name = call.Call.Method.Name()
				}
				if !strings.HasSuffix(name, "Unmarshal") || len(call.Call.Args) == 0 {
					continue
				}
				target := call.Call.Args[len(call.Call.Args)-1]
				if mi, ok := target.(*ssa.MakeInterface); ok {
					target = mi.X
				}
				tt := target.Type()
				if pt, ok := tt.Underlying().(*types.Pointer); ok {
					tt = pt.Elem()
				}
				if st, ok := tt.Underlying().(*types.Struct); ok {
					has := map[string]bool{}
					for i := 0; i < st.NumFields(); i++ {
						has[st.Field(i).Name()] = true
					}
					if has["StepFatal"] && has["ServerFatal"] {
						decode, msg = call, target
					}
				}
			}
		}
		if decode == nil {
			continue
		}
		est := func(cond core.Cond) bool {
			if cond.Via != nil || cond.Entry {
				return false
			}
			// a flag found set
			if ld, ok := cond.V.(*ssa.UnOp); ok && ld.Op == token.MUL && cond.True {
				if fa, ok := ld.X.(*ssa.FieldAddr); ok && fa.X == msg {
					if name := fieldName(fa.X.Type(), fa.Field); name == "StepFatal" || name == "ServerFatal" {
						return true
					}
				}
			}
			// the payload did not decode
			if x, neq, ok := core.NilCmp(cond.V); ok && neq == cond.True && core.Unwrap(x) == ssa.Value(decode) {
				return true
			}
			return false
		}
		hold := core.MustHold(fn, est)
		idx := 0
		for _, r := range core.ReturnsOf(fn) {
			k0, isConst := r.Val(0).(*ssa.Const)
			if isConst && k0.Value != nil && k0.Value.String() == "false" {
				continue
			}
			idx++
			n++
			k := key(rule, c.M.Key(fn), sprintf("way out #%d that stops the read loop is taken only for a fatal error or an undecodable payload", idx))
			pos := c.M.InstrPos(r.Return)
			if r.Merged() {
				pos = c.M.InstrPos(r.Block().Instrs[len(r.Block().Instrs)-1])
			}
			if hold[r.Key()] {
				c.R.Ok(rule, k, pos, "the read loop is stopped on an error message", "reached only where the step-fatal or the server-fatal flag of the decoded message was found set, or where decoding failed")
			} else {
				c.R.Bad(rule, k, pos, "an error message with neither flag set can stop the read loop",
					"a report that ends nothing (a refused signal of a run that is over already) makes the client give up the stream: every run that is waiting fails although the peer did everything right")
			}
		}
	}
	if n == 0 {
		c.R.Unresolved(rule, "the handler of error messages (a bool method of the client that decodes into a struct with StepFatal and ServerFatal)")
	}
}

// ---------- R-FREEFIRST (C05): a run ID that is checked for being in use is given back before the result goes out ----------
//
// The server keeps a table of the runs it was told of. Where a method of the session both looks an ID up in such a
// table and inserts it (check-then-insert: "is this ID in use?"), the table decides whether a work start is taken, and
// the moment an entry is removed matters: the client hands a result to its caller as soon as it has read it, and the
// caller may start the next run under the same ID at once. An entry that is removed only after the run's terminal
// message was written can still be there when that next work start is read - the run is refused although its
// predecessor is over. Every delete on such a table must therefore not come after a call that can write a terminal
// message (an Encode on the session's encoder, a send on the session's error channel): not later in the same function,
// and not in a deferred function of a function that makes such a call.
func (c *Ctx) ruleFreeFirst(rule string) {
	ro := c.roles()
	if !ro.ok || ro.serverT == nil {
		return
	}
	st := fieldsOf(ro.serverT)
	tableOf := func(v ssa.Value) string {
		ld, ok := v.(*ssa.UnOp)
		if !ok || ld.Op != token.MUL {
			return ""
		}
		fa, ok := ld.X.(*ssa.FieldAddr)
		if !ok || structOf(fa.X.Type()) == nil || structOf(fa.X.Type()).Obj() != ro.serverT.Obj() {
			return ""
		}
		if _, isMap := st.Field(fa.Field).Type().Underlying().(*types.Map); !isMap {
			return ""
		}
		return st.Field(fa.Field).Name()
	}
	// tables with a check-then-insert
	gate := map[string]string{}
	gatePos := map[string]string{}
	removed := map[string]int{}
	for _, fn := range c.M.SortedFuncs(c.scopePkg("atp")) {
		if !c.methodOrClosureOf(fn, ro.serverT) {
			continue
		}
		looked, inserted := map[string]bool{}, map[string]bool{}
		lookPos := map[string]string{}
		for _, b := range fn.Blocks {
			for _, in := range b.Instrs {
				switch x := in.(type) {
				case *ssa.Lookup:
					if x.CommaOk {
						looked[tableOf(x.X)] = true
						if lookPos[tableOf(x.X)] == "" {
							lookPos[tableOf(x.X)] = c.M.InstrPos(x)
						}
					}
				case *ssa.MapUpdate:
					inserted[tableOf(x.Map)] = true
				}
			}
		}
		for t := range looked {
			if t != "" && inserted[t] {
				gate[t] = c.M.Key(fn)
				gatePos[t] = lookPos[t]
			}
		}
	}
	// a call that can write a terminal message
	writes := map[*ssa.Function]bool{}
	for _, fn := range c.M.Funcs {
		for _, b := range fn.Blocks {
			for _, in := range b.Instrs {
				switch x := in.(type) {
				case *ssa.Send:
					if ld, ok := x.Chan.(*ssa.UnOp); ok {
						if fa, ok := ld.X.(*ssa.FieldAddr); ok && structOf(fa.X.Type()) != nil && structOf(fa.X.Type()).Obj() == ro.serverT.Obj() {
							writes[fn] = true
						}
					}
				case *ssa.Call:
					if strings.HasSuffix(core.StaticCalleeName(&x.Call), "cbor/v2.Encoder).Encode") {
						writes[fn] = true
					}
				}
			}
		}
	}
	canWrite := func(ci ssa.CallInstruction) bool {
		for _, callee := range c.M.Callees(ci.Common()) {
			for f := range c.M.Reachable([]*ssa.Function{callee}, nil) {
				if writes[f] {
					return true
				}
			}
		}
		return false
	}
	n := 0
	for _, fn := range c.M.SortedFuncs(c.scopePkg("atp")) {
		if !c.methodOrClosureOf(fn, ro.serverT) {
			continue
		}
		idx := 0
		for _, b := range fn.Blocks {
			for _, in := range b.Instrs {
				ci, ok := in.(ssa.CallInstruction)
				if !ok {
					continue
				}
				bi, isBuiltin := ci.Common().Value.(*ssa.Builtin)
				if !isBuiltin || bi.Name() != "delete" {
					continue
				}
				t := tableOf(ci.Common().Args[0])
				if t == "" || gate[t] == "" {
					continue
				}
				idx++
				n++
				removed[t]++
				k := key(rule, c.M.Key(fn), sprintf("delete #%d on %s does not come after the run's terminal message", idx, t))
				late := ""
				// earlier in the same function
				for _, b2 := range fn.Blocks {
					for _, in2 := range b2.Instrs {
						ci2, ok := in2.(ssa.CallInstruction)
						if !ok || in2 == in {
							continue
						}
						if _, isGo := in2.(*ssa.Go); isGo {
							continue
						}
						if _, isDefer := in2.(*ssa.Defer); isDefer {
							continue
						}
						before := (b2 == b && instrBefore(in2, in)) || (b2 != b && blockReaches(b2, b, nil))
						if before && canWrite(ci2) {
							late = c.M.InstrPos(in2)
						}
					}
				}
				// in a deferred function: after everything its parent does
				if fn.Parent() != nil {
					deferred := false
					for _, pb := range fn.Parent().Blocks {
						for _, pin := range pb.Instrs {
							if d, ok := pin.(*ssa.Defer); ok {
								if mc, ok := d.Call.Value.(*ssa.MakeClosure); ok && mc.Fn == ssa.Value(fn) {
									deferred = true
								}
							}
						}
					}
					if deferred {
						for _, pb := range fn.Parent().Blocks {
							for _, pin := range pb.Instrs {
								if ci2, ok := pin.(*ssa.Call); ok && canWrite(ci2) {
									late = c.M.InstrPos(pin)
								}
							}
						}
					}
				}
				if late == "" {
					c.R.Ok(rule, k, c.M.InstrPos(in), "a run ID is given back", "no call that can write a terminal message of the session precedes the delete")
				} else {
					c.R.Bad(rule, k, c.M.InstrPos(in), "the run ID is given back only after the run's result has gone out",
						"the table "+t+" decides whether a work start is taken ("+gate[t]+" looks the ID up and inserts it), and this delete comes after "+late+", which can write the terminal message: a caller that re-uses the ID as soon as it has its result can be refused although its run is over")
				}
			}
		}
	}
	// no check-then-insert table, or no delete on one: nothing to decide - the rule states what it looked at
	k := key(rule, "atp", "tables of the session that decide whether a work start is taken")
	var names []string
	for t := range gate {
		names = append(names, t)
	}
	sort.Strings(names)
	// round 17 (C05-CA): a table that decides whether a work start is taken and is never pruned refuses an ID for
	// good - the client forgets a run once its result is collected, and a later Execute under the same ID is legal.
	for _, t := range names {
		kk := key(rule, gate[t], "entries of "+t+" are removed when their run is over")
		if removed[t] == 0 {
			c.R.Bad(rule, kk, gatePos[t], "a run ID that was used once is refused for the rest of the session",
				"the table "+t+" decides whether a work start is taken ("+gate[t]+" looks the ID up and inserts it), and no method of the session ever deletes from it: "+
					"an entry outlives its run, so a later work start under the ID of a finished run is refused although in-process the step would run")
		} else {
			c.R.Ok(rule, kk, gatePos[t], "entries of a deciding table are removed", sprintf("%d delete(s) on %s", removed[t], t))
		}
	}
	if len(names) == 0 {
		c.R.Ok(rule, k, "-", "check-then-insert on a table of the session", "no method of the session both looks a key up in a map field and inserts into it: no table decides whether a work start is taken, and the removal of entries has no bearing on it")
	} else {
		c.R.Ok(rule, k, "-", "check-then-insert on a table of the session", sprintf("%s: %d removals examined", strings.Join(names, ", "), n))
	}
}

// ---------- R-SENDCTX (C07): a write to the client is not given up on the session's context ----------
//
// The context the server session was given is cancelled when the plugin is told to stop (SIGTERM): the steps that are
// running are then expected to finish, and each of them still gets its terminal message while the output is open
// (dc688bc). The function that writes a message (it starts a goroutine that calls Encode on the session's encoder and
// waits for it in a select) may give the wait up after a time of its own, but not on the session's context: once that
// is cancelled every wait would end at once, the write would count as failed, and no later report would go out. For
// every receive arm of a select in a method of the session that starts such an encoding goroutine: the channel is not
// the Done() channel of the session's context field or of a context derived from it (WithTimeout, WithCancel,
// WithDeadline, WithValue).
func (c *Ctx) ruleSendCtx(rule string) {
	ro := c.roles()
	if !ro.ok || ro.serverT == nil {
		return
	}
	encodes := func(fn *ssa.Function) bool {
		for f := range c.M.Reachable([]*ssa.Function{fn}, nil) {
			for _, b := range f.Blocks {
				for _, in := range b.Instrs {
					if call, ok := in.(*ssa.Call); ok && strings.HasSuffix(core.StaticCalleeName(&call.Call), "cbor/v2.Encoder).Encode") {
						return true
					}
				}
			}
		}
		return false
	}
	var fromSession func(v ssa.Value, depth int) bool
	fromSession = func(v ssa.Value, depth int) bool {
		if v == nil || depth > 6 {
			return false
		}
		switch x := v.(type) {
		case *ssa.UnOp:
			if fa, ok := x.X.(*ssa.FieldAddr); ok && x.Op == token.MUL {
				if sn := structOf(fa.X.Type()); sn != nil && sn.Obj() == ro.serverT.Obj() && isNamed(x.Type(), "context", "Context") {
					return true
				}
			}
			if al, ok := x.X.(*ssa.Alloc); ok && al.Referrers() != nil {
				for _, r := range *al.Referrers() {
					if st, ok := r.(*ssa.Store); ok && st.Addr == ssa.Value(al) && fromSession(st.Val, depth+1) {
						return true
					}
				}
			}
		case *ssa.Extract:
			return fromSession(x.Tuple, depth+1)
		case *ssa.Call:
			switch core.StaticCalleeName(&x.Call) {
			case "context.WithTimeout", "context.WithCancel", "context.WithDeadline", "context.WithValue", "context.WithCancelCause", "context.WithTimeoutCause", "context.WithDeadlineCause", "context.WithoutCancel":
				return len(x.Call.Args) > 0 && fromSession(x.Call.Args[0], depth+1)
			}
		case *ssa.Phi:
			for _, e := range x.Edges {
				if fromSession(e, depth+1) {
					return true
				}
			}
		case *ssa.MakeInterface:
			return fromSession(x.X, depth+1)
		case *ssa.ChangeInterface:
			return fromSession(x.X, depth+1)
		}
		return false
	}
	sessionDone := func(ch ssa.Value) bool {
		call, ok := ch.(*ssa.Call)
		if !ok || !call.Call.IsInvoke() || call.Call.Method.Name() != "Done" {
			return false
		}
		return fromSession(call.Call.Value, 0)
	}
	n := 0
	for _, fn := range c.M.SortedFuncs(c.scopePkg("atp")) {
		if !c.methodOrClosureOf(fn, ro.serverT) {
			continue
		}
		starts := false
		for _, b := range fn.Blocks {
			for _, in := range b.Instrs {
				if g, ok := in.(*ssa.Go); ok {
					for _, tgt := range c.M.Callees(g.Common()) {
						if encodes(tgt) {
							starts = true
						}
					}
				}
				// the goroutine may be started by a helper that hands its channel back
				if call, ok := in.(*ssa.Call); ok {
					if h := core.StaticBody(&call.Call); h != nil && h != fn && c.methodOrClosureOf(h, ro.serverT) {
						for _, hb := range h.Blocks {
							for _, hin := range hb.Instrs {
								if g, ok := hin.(*ssa.Go); ok {
									for _, tgt := range c.M.Callees(g.Common()) {
										if encodes(tgt) {
											if _, isChan := call.Type().Underlying().(*types.Chan); isChan {
												starts = true
											}
										}
									}
								}
							}
						}
					}
				}
			}
		}
		if !starts {
			continue
		}
		idx := 0
		for _, b := range fn.Blocks {
			for _, in := range b.Instrs {
				sel, ok := in.(*ssa.Select)
				if !ok {
					continue
				}
				for _, st := range sel.States {
					if st.Dir != types.RecvOnly {
						continue
					}
					idx++
					n++
					k := key(rule, c.M.Key(fn), sprintf("wait #%d for the write does not end on the session's context", idx))
					if sessionDone(st.Chan) {
						c.R.Bad(rule, k, c.M.InstrPos(sel), "the wait for a write to the client ends when the session's context is cancelled",
							"after the cancellation (the plugin was told to stop) every write is given up at once and counts as failed: the steps that are still running get no terminal message although the output is open")
					} else {
						c.R.Ok(rule, k, c.M.InstrPos(sel), "arm of the wait for a write to the client", "not the Done() channel of the session's context or of a context derived from it")
					}
				}
			}
		}
	}
	if n == 0 {
		c.R.Unresolved(rule, "the select in which a method of the server session waits for the goroutine that encodes a message")
	}
}

// ---------- R-MEMOGROWS (C15): what one comparison has compared stays compared ----------
//
// The compatibility check carries, through its whole recursion, the set of pairs of objects it has entered; a pair met
// again is not compared again. That is what ends the comparison of recursive schemas - and what keeps the comparison of
// a schema that shares objects between many places from comparing them once per path that leads to them (2^n paths
// for n layers: the comparison of a layered schema with itself would not come back). The second half needs the pairs to
// stay in the set after their comparison has returned: in package schema nothing is ever deleted from a map that is
// handed down the compatibility check as a parameter (a map keyed by a pair of objects), and no such map is replaced by
// a fresh one on the way down.
func (c *Ctx) ruleMemoGrows(rule string) {
	isMemo := func(t types.Type) bool {
		mt, ok := t.Underlying().(*types.Map)
		if !ok {
			return false
		}
		arr, ok := mt.Key().Underlying().(*types.Array)
		if !ok || arr.Len() != 2 {
			return false
		}
		_, isPtr := arr.Elem().Underlying().(*types.Pointer)
		return isPtr
	}
	n := 0
	for _, fn := range c.M.SortedFuncs(c.scopePkg("schema")) {
		var memo *ssa.Parameter
		for _, p := range fn.Params {
			if isMemo(p.Type()) {
				memo = p
			}
		}
		if memo == nil {
			continue
		}
		n++
		k := key(rule, c.M.Key(fn), "the set of compared pairs only grows")
		bad := ""
		var scan func(f *ssa.Function)
		scan = func(f *ssa.Function) {
			for _, b := range f.Blocks {
				for _, in := range b.Instrs {
					ci, ok := in.(ssa.CallInstruction)
					if !ok {
						continue
					}
					if bi, isBuiltin := ci.Common().Value.(*ssa.Builtin); isBuiltin && (bi.Name() == "delete" || bi.Name() == "clear") && len(ci.Common().Args) > 0 && isMemo(ci.Common().Args[0].Type()) {
						bad = c.M.InstrPos(in)
					}
				}
			}
			for _, anon := range f.AnonFuncs {
				scan(anon)
			}
		}
		scan(fn)
		// handed on as it is: every call of the package that takes such a map gets this parameter, not a fresh map
		fresh := ""
		for _, b := range fn.Blocks {
			for _, in := range b.Instrs {
				call, ok := in.(*ssa.Call)
				if !ok {
					continue
				}
				for _, a := range call.Call.Args {
					if isMemo(a.Type()) && a != ssa.Value(memo) {
						if _, isMake := a.(*ssa.MakeMap); isMake {
							fresh = c.M.InstrPos(call)
						}
					}
				}
			}
		}
		switch {
		case bad != "":
			c.R.Bad(rule, k, bad, "a pair is taken out of the set of compared pairs",
				"a pair that is removed when its comparison returns is compared again on every other path that leads to it: objects shared between many places are compared once per path, and the comparison of a layered schema with itself (or with a twin) does not come back")
		case fresh != "":
			c.R.Bad(rule, k, fresh, "the comparison goes on with a fresh set of compared pairs",
				"below this call nothing is known of the pairs entered above: a recursive schema is compared without end, shared objects once per path")
		default:
			c.R.Ok(rule, k, c.M.Pos(fn.Pos()), "part of the compatibility check that carries the set of compared pairs", "nothing is deleted from the set, and every callee that takes one gets this one")
		}
	}
	if n == 0 {
		c.R.Unresolved(rule, "functions of package schema that carry a set of compared pairs (a parameter of a map type keyed by a pair of pointers)")
	}
}

// ---------- R-F32TEXT (C02): a float32 is turned into text as a float32 ----------
//
// The lenient conversion of a number into a string writes the shortest text that reads back as the same number. For
// a float32 that is the shortest text for 32 bits ("0.1"); widened to float64 first, the same value prints as
// "0.10000000149011612", and it is that text that the length bounds, the pattern and the enum are checked against. In
// package schema a float32 that is widened to float64 reaches strconv.FormatFloat only with the bit size 32: directly, or
// through a parameter of a function of the package that the widened value is handed to.
func (c *Ctx) ruleF32Text(rule string) {
	n := 0
	isF := func(t types.Type, kind types.BasicKind) bool {
		bt, ok := t.Underlying().(*types.Basic)
		return ok && bt.Kind() == kind
	}
	// reaches: the value (a widened float32) flows to the first argument of FormatFloat; returns the bit sizes it is
	// formatted with ("" if it never is)
	var reach func(v ssa.Value, seen map[ssa.Value]bool, depth int) []string
	reach = func(v ssa.Value, seen map[ssa.Value]bool, depth int) []string {
		if v == nil || seen[v] || depth > 3 || v.Referrers() == nil {
			return nil
		}
		seen[v] = true
		var out []string
		for _, r := range *v.Referrers() {
			switch x := r.(type) {
			case *ssa.Call:
				if core.StaticCalleeName(&x.Call) == "strconv.FormatFloat" && len(x.Call.Args) == 4 && x.Call.Args[0] == v {
					if bits, ok := core.ConstInt(x.Call.Args[3]); ok {
						out = append(out, sprintf("%d at %s", bits, c.M.InstrPos(x)))
					} else {
						out = append(out, "a computed size at "+c.M.InstrPos(x))
					}
					continue
				}
				if callee := core.StaticBody(&x.Call); callee != nil && callee.Pkg != nil && c.M.IsRepoPkg(callee.Pkg.Pkg) {
					for i, a := range x.Call.Args {
						if a == v && i < len(callee.Params) {
							out = append(out, reach(callee.Params[i], seen, depth+1)...)
						}
					}
				}
			case *ssa.MakeInterface:
				out = append(out, reach(x, seen, depth)...)
			case *ssa.TypeAssert:
				if isF(x.AssertedType, types.Float64) || x.CommaOk {
					out = append(out, reach(x, seen, depth)...)
				}
			case *ssa.Extract:
				out = append(out, reach(x, seen, depth)...)
			case *ssa.Phi:
				out = append(out, reach(x, seen, depth)...)
			case *ssa.ChangeInterface:
				out = append(out, reach(x, seen, depth)...)
			}
		}
		return out
	}
	for _, fn := range c.M.SortedFuncs(c.scopePkg("schema")) {
		idx := 0
		for _, b := range fn.Blocks {
			for _, in := range b.Instrs {
				cv, ok := in.(*ssa.Convert)
				if !ok || !isF(cv.X.Type(), types.Float32) || !isF(cv.Type(), types.Float64) {
					continue
				}
				sizes := reach(cv, map[ssa.Value]bool{}, 0)
				if len(sizes) == 0 {
					continue // widened for arithmetic or comparison: the value is the same
				}
				idx++
				n++
				k := key(rule, c.M.Key(fn), sprintf("float32 widened for formatting #%d is formatted with the bit size 32", idx))
				bad := ""
				for _, sz := range sizes {
					if !strings.HasPrefix(sz, "32 ") {
						bad = sz
					}
				}
				if bad == "" {
					c.R.Ok(rule, k, c.M.InstrPos(cv), "text of a float32", "every FormatFloat the widened value reaches is given the bit size 32")
				} else {
					c.R.Bad(rule, k, c.M.InstrPos(cv), "a float32 is turned into text as a float64",
						"the widened value reaches strconv.FormatFloat with the bit size "+bad+": float32(0.1) becomes \"0.10000000149011612\", and that text is what the length bounds, the pattern and the enum see")
				}
			}
		}
	}
	if n == 0 {
		c.R.Unresolved(rule, "a float32 that is widened to float64 and formatted in package schema")
	}
}
