package rules

import (
	"strings"
	"go/token"
	"go/types"
	"sort"

	"golang.org/x/tools/go/ssa"

	"verifcheck/internal/core"
)

// ---------- R-WG (d): every count is released in the call tree that added it ----------
//
// A WaitGroup held in a struct field is shared between the entry points of the module (the methods a peer's messages
// run). Nothing in the module orders those entry points: which of them a client makes run, and whether it makes the
// second one run at all, is the client's behaviour, which C06 / C07 quantify over. A count that one entry point adds
// and only another one releases is therefore left behind by the client that makes only the first one run, and every
// Wait on the group blocks for good. The rule: from each Add on a field-held WaitGroup every path to a way out of the
// function passes a release (Done - direct, deferred, through sync.Once.Do, in a callee that always calls it - or a go
// statement whose goroutine always calls it). A function that leaves with the count hands the obligation to its
// callers (an unexported function all of whose uses are plain static calls: each call site then counts as the Add);
// a function whose callers are not all known (exported, address-taken, a goroutine) must not leave with it.

// wgRefOf names the WaitGroup a value points to: a field of a struct (directly, loaded, or a fresh WaitGroup that is
// stored into such a field).
func wgRefOf(v ssa.Value) wgRef {
	switch x := v.(type) {
	case *ssa.FieldAddr:
		return wgRef{structOf(x.X.Type()), fieldName(x.X.Type(), x.Field)}
	case *ssa.UnOp:
		if fa, ok := x.X.(*ssa.FieldAddr); ok && x.Op == token.MUL {
			return wgRef{structOf(fa.X.Type()), fieldName(fa.X.Type(), fa.Field)}
		}
	case *ssa.Alloc:
		if refs := x.Referrers(); refs != nil {
			for _, r := range *refs {
				if st, ok := r.(*ssa.Store); ok && st.Val == ssa.Value(x) {
					if fa, ok := st.Addr.(*ssa.FieldAddr); ok {
						return wgRef{structOf(fa.X.Type()), fieldName(fa.X.Type(), fa.Field)}
					}
				}
			}
		}
	}
	return wgRef{}
}

// onceDone: sync.Once.Do(wg.Done) - the bound method value of a WaitGroup's Done handed to a Once.
func onceDone(cc *ssa.CallCommon) (wgRef, bool) {
	if core.StaticCalleeName(cc) != "(*sync.Once).Do" || len(cc.Args) != 2 {
		return wgRef{}, false
	}
	mc, ok := cc.Args[1].(*ssa.MakeClosure)
	if !ok || len(mc.Bindings) != 1 {
		return wgRef{}, false
	}
	f, ok := mc.Fn.(*ssa.Function)
	if !ok || f.String() != "(*sync.WaitGroup).Done$bound" {
		return wgRef{}, false
	}
	return wgRefOf(mc.Bindings[0]), true
}

type wgPair struct {
	c    *Ctx
	w    wgRef
	memo map[*ssa.Function][]string // the ways out a function leaves with the count (descriptions); nil = none
	busy map[*ssa.Function]bool
}

// releases: the instruction releases a count of w.
func (p *wgPair) releases(in ssa.Instruction) bool {
	ci, ok := in.(ssa.CallInstruction)
	if !ok {
		return false
	}
	if _, isGo := in.(*ssa.Go); isGo {
		for _, tgt := range p.c.M.Callees(ci.Common()) {
			if p.c.mustDone(tgt, p.w, 0) {
				return true
			}
		}
		return false
	}
	if x, ok := p.c.wgOfCall(ci.Common(), "Done"); ok && sameWG(x, p.w) {
		return true
	}
	callees := p.c.M.Callees(ci.Common())
	return len(callees) == 1 && p.c.mustDone(callees[0], p.w, 0)
}

// adds: the instruction adds a count to w that is still there when the instruction is over: an Add, or a call of a
// function that leaves with the count. For the latter `from` lists the blocks the count is carried into (the
// successors of the test of the call's error result on which it may be nil, if every way out that leaves with the
// count may return a nil error and the others return an error; the rest of the block otherwise).
func (p *wgPair) adds(in ssa.Instruction) (what string, from []*ssa.BasicBlock, ok bool) {
	call, isCall := in.(*ssa.Call)
	if !isCall {
		return "", nil, false
	}
	if x, isAdd := p.c.wgOfCall(&call.Call, "Add"); isAdd {
		if sameWG(x, p.w) {
			return "Add", nil, true
		}
		return "", nil, false
	}
	callee := core.StaticBody(&call.Call)
	if callee == nil || len(callee.Blocks) == 0 || callee.Pkg == nil || !p.c.M.IsRepoPkg(callee.Pkg.Pkg) {
		return "", nil, false
	}
	left := p.leavesWith(callee)
	if len(left) == 0 {
		return "", nil, false
	}
	what = "the call of " + callee.Name() + ", which leaves with the count (" + left[0] + ")"
	ei := core.ErrorResultIndex(callee.Signature)
	if ei < 0 || !p.onlyOnNilError(callee, ei) {
		return what, nil, true
	}
	// the blocks entered on the possibly-nil outcome of the error test
	if refs := call.Referrers(); refs != nil {
		for _, r := range *refs {
			var errV ssa.Value
			if ex, isEx := r.(*ssa.Extract); isEx && ex.Index == ei {
				errV = ex
			}
			if callee.Signature.Results().Len() == 1 {
				errV = call
			}
			if errV == nil || errV.Referrers() == nil {
				continue
			}
			for _, r2 := range *errV.Referrers() {
				bin, isBin := r2.(*ssa.BinOp)
				if !isBin || bin.Referrers() == nil {
					continue
				}
				_, neq, isNil := core.NilCmp(bin)
				if !isNil {
					continue
				}
				for _, r3 := range *bin.Referrers() {
					if ifi, isIf := r3.(*ssa.If); isIf && ifi.Block() == call.Block() {
						if neq {
							from = append(from, ifi.Block().Succs[1])
						} else {
							from = append(from, ifi.Block().Succs[0])
						}
					}
				}
			}
		}
	}
	return what, from, true
}

// onlyOnNilError: every way out of fn that certainly returns an error leaves without the count.
func (p *wgPair) onlyOnNilError(fn *ssa.Function, ei int) bool {
	for _, r := range core.ReturnsOf(fn) {
		if !p.c.M.RetNonNil(r, ei) {
			continue
		}
		// a certain error: no count may be carried here
		for _, d := range p.outstandingAt(fn, r.RetBlock(), r.Block()) {
			_ = d
			return false
		}
	}
	return true
}

// outstandingAt: descriptions of the adds of fn from which the return in block ret (entered from block from, if the
// way out is one edge of a merged return) is reached without a release.
func (p *wgPair) outstandingAt(fn *ssa.Function, ret, from *ssa.BasicBlock) []string {
	var out []string
	for _, l := range p.leaks(fn) {
		if l.ret == ret && (from == ret || l.via[from]) {
			out = append(out, l.what)
		}
	}
	return out
}

type wgLeak struct {
	what string
	pos  token.Pos
	ret  *ssa.BasicBlock
	via  map[*ssa.BasicBlock]bool // the blocks on the unreleased paths
}

var wgLeakMemo = map[*wgPair]map[*ssa.Function][]wgLeak{}

// leaks: for each add of fn, the returns reached from it without a release.
func (p *wgPair) leaks(fn *ssa.Function) []wgLeak {
	if m := wgLeakMemo[p]; m != nil {
		if l, done := m[fn]; done {
			return l
		}
	} else {
		wgLeakMemo[p] = map[*ssa.Function][]wgLeak{}
	}
	if p.busy[fn] {
		return nil
	}
	p.busy[fn] = true
	defer delete(p.busy, fn)
	var out []wgLeak
	// a deferred release that is registered on every path to the add covers it
	deferred := func(at ssa.Instruction) bool {
		for _, b := range fn.Blocks {
			for _, in := range b.Instrs {
				if d, ok := in.(*ssa.Defer); ok && p.releases(d) && instrDominates(d, at) {
					return true
				}
			}
		}
		return false
	}
	for _, b := range fn.Blocks {
		for i, in := range b.Instrs {
			what, from, ok := p.adds(in)
			if !ok || deferred(in) {
				continue
			}
			type state struct {
				b *ssa.BasicBlock
				i int
			}
			var starts []state
			if len(from) > 0 {
				for _, s := range from {
					starts = append(starts, state{s, 0})
				}
			} else {
				starts = append(starts, state{b, i + 1})
			}
			seen := map[*ssa.BasicBlock]bool{}
			parent := map[*ssa.BasicBlock]*ssa.BasicBlock{}
			var work []state
			work = append(work, starts...)
			for len(work) > 0 {
				s := work[len(work)-1]
				work = work[:len(work)-1]
				if s.i == 0 {
					if seen[s.b] {
						continue
					}
					seen[s.b] = true
				}
				ended := false
				for _, in2 := range s.b.Instrs[s.i:] {
					if p.releases(in2) {
						ended = true
						break
					}
					if _, isPanic := in2.(*ssa.Panic); isPanic {
						ended = true
						break
					}
					if _, isRet := in2.(*ssa.Return); isRet {
						via := map[*ssa.BasicBlock]bool{}
						for x := s.b; x != nil; x = parent[x] {
							via[x] = true
							if parent[x] == x {
								break
							}
						}
						via[b] = true
						out = append(out, wgLeak{what: what, pos: in.Pos(), ret: s.b, via: via})
						ended = true
						break
					}
				}
				if ended {
					continue
				}
				for _, succ := range s.b.Succs {
					if !seen[succ] {
						if _, has := parent[succ]; !has {
							parent[succ] = s.b
						}
						work = append(work, state{succ, 0})
					}
				}
			}
		}
	}
	wgLeakMemo[p][fn] = out
	return out
}

// leavesWith: fn can return with a count it added (or that a callee of it added) still there.
func (p *wgPair) leavesWith(fn *ssa.Function) []string {
	if l, done := p.memo[fn]; done {
		return l
	}
	var out []string
	seen := map[string]bool{}
	for _, l := range p.leaks(fn) {
		d := l.what + " in " + fn.Name() + " at " + p.c.M.Pos(l.pos)
		if !seen[d] {
			seen[d] = true
			out = append(out, d)
		}
	}
	sort.Strings(out)
	if !p.busy[fn] {
		p.memo[fn] = out
	}
	return out
}

func (c *Ctx) ruleWGPair(rule string) {
	// the field-held WaitGroups on which an Add is called anywhere in the module
	groups := map[string]wgRef{}
	addFns := map[string]map[*ssa.Function]bool{}
	for _, fn := range c.M.Funcs {
		for _, b := range fn.Blocks {
			for _, in := range b.Instrs {
				call, ok := in.(*ssa.Call)
				if !ok {
					continue
				}
				if x, isAdd := c.wgOfCall(&call.Call, "Add"); isAdd && x.structT != nil {
					name := x.structT.Obj().Name() + "." + x.field
					groups[name] = x
					if addFns[name] == nil {
						addFns[name] = map[*ssa.Function]bool{}
					}
					addFns[name][fn] = true
				}
			}
		}
	}
	var names []string
	for n := range groups {
		names = append(names, n)
	}
	sort.Strings(names)
	for _, name := range names {
		p := &wgPair{c: c, w: groups[name], memo: map[*ssa.Function][]string{}, busy: map[*ssa.Function]bool{}}
		// the functions to decide: those that add, and transitively the callers a count is handed to
		todo := c.M.SortedFuncs(addFns[name])
		done := map[*ssa.Function]bool{}
		for len(todo) > 0 {
			fn := todo[0]
			todo = todo[1:]
			if done[fn] {
				continue
			}
			done[fn] = true
			k := key(rule, c.M.Key(fn), "a count added to "+name+" is released in the call tree that added it")
			left := p.leavesWith(fn)
			pos := c.M.Pos(fn.Pos())
			if len(left) == 0 {
				c.R.Ok(rule, k, pos, "every count on "+name+" is released before the function is left",
					"from each Add (or call of a function that leaves with a count) every path to a return passes a Done on the same WaitGroup - direct, deferred, through sync.Once.Do or in a callee that always calls it - or a go statement whose goroutine always calls it")
				continue
			}
			sites := core.PlainSites(fn)
			if len(sites) == 0 {
				c.R.Bad(rule, k, pos, "a count on "+name+" is still there when "+fn.Name()+" returns, and its callers are not in the module's hands",
					left[0]+": no path from there to the return releases the count, and the function is exported, address-taken or run as a goroutine - whether the entry point that calls Done ever runs is the peer's choice, so a Wait on "+name+" can block for good")
				continue
			}
			c.R.Ok(rule, k, pos, "the count on "+name+" is handed to the callers",
				left[0]+"; every use of "+fn.Name()+" is a plain static call, and each calling function is decided in turn")
			callers := map[*ssa.Function]bool{}
			for _, s := range sites {
				callers[s.Parent()] = true
			}
			todo = append(todo, c.M.SortedFuncs(callers)...)
		}
	}
}

var _ = types.Typ

// ---------- R-SUMALL (C16): every count reaches the sum that is returned ----------
//
// The unit parser folds the matched groups into two sums, an integer one and a float one, and a flag that says which
// of them is the result. The step of the fold is the function that parses one count (strconv.ParseInt / ParseFloat)
// and receives and returns the sums and the flag. For every way out of the step that is taken after a count was
// parsed and that does not report an error:
//   (i)  if the flag it returns can be false (the integer sum stays the result), the integer sum it returns is computed
//        from the count and from the integer sum it received;
//   (ii) if the flag it returns can be true (the float sum is the result), the float sum it returns is computed from the
//        count and from the float sum it received; and if the flag it received can have been false there - the way out
//        switches from the integer sum to the float sum - then either the float sum is kept up to date in integer
//        mode as well (on every way out of kind (i) the float sum returned is computed from the count and the float sum
//        received), or the float sum returned here is computed from the integer sum received, or the fold's caller
//        combines both sums in the value it returns.
// Otherwise the counts parsed before the switch are lost from the result. Dependence is data flow within the step
// (operands, phis); the roles are found by shape (the parameter that an early way out hands back in each position).
func (c *Ctx) ruleSumAll(rule string) {
	var step *ssa.Function
	for _, fn := range c.unitFuncs() {
		if fn.Signature.Results().Len() < 3 || core.ErrorResultIndex(fn.Signature) < 0 {
			continue
		}
		parses := false
		for _, b := range fn.Blocks {
			for _, in := range b.Instrs {
				if call, ok := in.(*ssa.Call); ok {
					switch core.StaticCalleeName(&call.Call) {
					case "strconv.ParseInt", "strconv.ParseFloat":
						parses = true
					}
				}
			}
		}
		if parses {
			step = fn
		}
	}
	if step == nil {
		c.R.Unresolved(rule, "the step of the unit parser's fold (a function that parses a count and returns the sums, the flag and an error)")
		return
	}
	ei := core.ErrorResultIndex(step.Signature)
	rets := core.ReturnsOf(step)
	// roles: result position -> the parameter an early way out hands back there
	role := map[int]*ssa.Parameter{}
	for _, r := range rets {
		for i := 0; i < step.Signature.Results().Len(); i++ {
			if p, ok := r.Val(i).(*ssa.Parameter); ok && types.Identical(p.Type(), step.Signature.Results().At(i).Type()) {
				if role[i] == nil {
					role[i] = p
				}
			}
		}
	}
	intIdx, floatIdx, flagIdx := -1, -1, -1
	for i := 0; i < step.Signature.Results().Len(); i++ {
		bt, ok := step.Signature.Results().At(i).Type().Underlying().(*types.Basic)
		if !ok || role[i] == nil {
			continue
		}
		switch {
		case bt.Info()&types.IsInteger != 0 && intIdx < 0:
			intIdx = i
		case bt.Info()&types.IsFloat != 0 && floatIdx < 0:
			floatIdx = i
		case bt.Info()&types.IsBoolean != 0 && flagIdx < 0:
			flagIdx = i
		}
	}
	if intIdx < 0 || floatIdx < 0 || flagIdx < 0 {
		c.R.Unresolved(rule, "the integer sum, float sum and flag of "+step.Name()+" (results that an early way out hands back from a parameter of the same type)")
		return
	}
	taint := func(src func(ssa.Value) bool) map[ssa.Value]bool {
		t := map[ssa.Value]bool{}
		for _, p := range step.Params {
			if src(p) {
				t[p] = true
			}
		}
		for _, b := range step.Blocks {
			for _, in := range b.Instrs {
				if v, ok := in.(ssa.Value); ok && src(v) {
					t[v] = true
				}
			}
		}
		for changed := true; changed; {
			changed = false
			for _, b := range step.Blocks {
				for _, in := range b.Instrs {
					v, ok := in.(ssa.Value)
					if !ok || t[v] {
						continue
					}
					var ops []*ssa.Value
					for _, op := range in.Operands(ops) {
						if op != nil && *op != nil && t[*op] {
							t[v] = true
							changed = true
							break
						}
					}
				}
			}
		}
		return t
	}
	var parseCalls []*ssa.Call
	fromCount := taint(func(v ssa.Value) bool {
		if call, ok := v.(*ssa.Call); ok {
			switch core.StaticCalleeName(&call.Call) {
			case "strconv.ParseInt", "strconv.ParseFloat":
				parseCalls = append(parseCalls, call)
				return true
			}
		}
		return false
	})
	fromInt := taint(func(v ssa.Value) bool { return v == ssa.Value(role[intIdx]) })
	fromFloat := taint(func(v ssa.Value) bool { return v == ssa.Value(role[floatIdx]) })
	// the fold's caller combines both sums?
	combines := false
	for _, site := range core.PlainSites(step) {
		caller := site.Parent()
		t := map[ssa.Value]int{}
		for _, b := range caller.Blocks {
			for _, in := range b.Instrs {
				if ex, ok := in.(*ssa.Extract); ok {
					if call, isCall := ex.Tuple.(*ssa.Call); isCall && core.StaticBody(&call.Call) == step {
						if ex.Index == intIdx {
							t[ex] |= 1
						}
						if ex.Index == floatIdx {
							t[ex] |= 2
						}
					}
				}
			}
		}
		for changed := true; changed; {
			changed = false
			for _, b := range caller.Blocks {
				for _, in := range b.Instrs {
					v, ok := in.(ssa.Value)
					if !ok {
						continue
					}
					if call, isCall := v.(*ssa.Call); isCall && core.StaticBody(&call.Call) == step {
						continue
					}
					var ops []*ssa.Value
					for _, op := range in.Operands(ops) {
						if op != nil && *op != nil && t[*op]&^t[v] != 0 {
							t[v] |= t[*op]
							changed = true
						}
					}
				}
			}
		}
		for _, r := range core.ReturnInstrs(caller) {
			for _, v := range r.Results {
				if bin, ok := core.Unwrap(v).(*ssa.BinOp); ok && t[bin] == 3 && !(t[bin.X] == 3 || t[bin.Y] == 3) {
					combines = true
				}
			}
		}
	}
	type way struct {
		r                         core.Ret
		mayInt, mayFloat, wasInt  bool
		intOK, floatOK, floatSeed bool
	}
	var ways []way
	for _, r := range rets {
		if c.M.RetNonNil(r, ei) {
			continue
		}
		after := false
		for _, pc := range parseCalls {
			if pc.Block() == r.Block() || pc.Block().Dominates(r.Block()) {
				after = true
			}
		}
		if !after {
			continue
		}
		w := way{r: r, mayInt: true, mayFloat: true, wasInt: true}
		for _, cond := range r.Conds() {
			if cond.V == ssa.Value(role[flagIdx]) && cond.True {
				w.wasInt = false
			}
		}
		flag := r.Val(flagIdx)
		if k, ok := flag.(*ssa.Const); ok && k.Value != nil {
			w.mayFloat = k.Value.String() == "true"
			w.mayInt = !w.mayFloat
		} else if flag == ssa.Value(role[flagIdx]) {
			for _, cond := range r.Conds() {
				if cond.V == flag {
					w.mayFloat, w.mayInt = cond.True, !cond.True
				}
			}
		}
		iv, fv := r.Val(intIdx), r.Val(floatIdx)
		w.intOK = fromCount[iv] && fromInt[iv]
		w.floatOK = fromCount[fv] && fromFloat[fv]
		w.floatSeed = fromCount[fv] && fromInt[fv]
		ways = append(ways, w)
	}
	if len(ways) == 0 {
		c.R.Unresolved(rule, "ways out of "+step.Name()+" that are taken after a count was parsed")
		return
	}
	tracked := true // the float sum is kept up to date in integer mode
	for _, w := range ways {
		if w.mayInt && !w.floatOK {
			tracked = false
		}
	}
	n := 0
	for _, w := range ways {
		n++
		k := key(rule, c.M.Key(step), sprintf("way out #%d taken after a count was parsed", n))
		pos := c.M.InstrPos(w.r.Return)
		if w.r.Merged() {
			pos = c.M.InstrPos(w.r.Block().Instrs[len(w.r.Block().Instrs)-1])
		}
		switch {
		case w.mayInt && !w.intOK:
			c.R.Bad(rule, k, pos, "a count is left out of the integer sum",
				"the way out can return with the flag false (the integer sum is the result), but the integer sum it returns is not computed from both the parsed count and the sum received: the parser returns a wrong number")
		case w.mayFloat && !(fromCount[w.r.Val(floatIdx)] && (fromFloat[w.r.Val(floatIdx)] || w.floatSeed)):
			c.R.Bad(rule, k, pos, "a count is left out of the float sum",
				"the way out can return with the flag true (the float sum is the result), but the float sum it returns is not computed from both the parsed count and a sum received: the parser returns a wrong number")
		case w.mayFloat && w.wasInt && !tracked && !w.floatSeed && !combines:
			c.R.Bad(rule, k, pos, "the switch to the float sum drops the counts summed so far",
				"the way out can switch from the integer sum to the float sum; the float sum is not kept up to date in integer mode (another way out returns it without the parsed count), and here it is not computed from the integer sum received, nor does the caller combine the two sums: ParseFloat returns only the counts from this one on")
		default:
			how := "the sum that is the result afterwards is computed from the parsed count and from the sum received"
			if w.mayFloat && w.wasInt {
				switch {
				case tracked:
					how += "; the float sum is kept up to date on every way out in integer mode, so the switch to it loses nothing"
				case w.floatSeed:
					how += "; the float sum is computed from the integer sum received"
				default:
					how += "; the caller combines both sums"
				}
			}
			c.R.Ok(rule, k, pos, "the parsed count reaches the result", how)
		}
	}
}

// ---------- R-DISCROUTE (C03): a struct value of a one-of is routed by its discriminator ----------
//
// Validate and Serialize find the member for a native struct value by its Go type. With an inlined discriminator the
// value holds its discriminator, which selects the member as it does for Unserialize: a member that takes the Go type
// is chosen only under the verdict of the function that reads the discriminator out of the value. The function under
// examination is the one that compares the members' ReflectedType() with the type of the value; the places where a
// member is chosen are found from the ways out that return one: the returned key (and member) are followed back through
// loads, merges and the local variables they were stored into, to the places where a member taken from the table of
// members was put there. Each such place must be reached only (a) with DiscriminatorInlined known false, or (b) under
// a branch on something computed from the value by reading one of its fields (a helper that is handed the value, or
// reflect's field accessors).
func (c *Ctx) ruleDiscRoute(rule string) {
	n := 0
	for _, fn := range c.M.SortedFuncs(c.scopePkg("schema")) {
		if fn.Signature.Recv() == nil || len(fn.Params) < 2 || !strings.Contains(typeStr(fn.Params[0].Type()), "OneOfSchema") {
			continue
		}
		// compares ReflectedType() of a member with a reflect.Type
		compares := false
		for _, b := range fn.Blocks {
			for _, in := range b.Instrs {
				if bin, ok := in.(*ssa.BinOp); ok && (bin.Op == token.EQL || bin.Op == token.NEQ) {
					for _, side := range []ssa.Value{bin.X, bin.Y} {
						if call, isCall := side.(*ssa.Call); isCall && call.Call.IsInvoke() && call.Call.Method.Name() == "ReflectedType" {
							compares = true
						}
					}
				}
			}
		}
		if !compares {
			continue
		}
		// the value: the parameters of the empty interface type
		isData := func(v ssa.Value) bool {
			if mi, isMI := v.(*ssa.MakeInterface); isMI {
				v = mi.X
			}
			prm, ok := v.(*ssa.Parameter)
			if !ok || prm.Parent() != fn {
				return false
			}
			it, ok := prm.Type().Underlying().(*types.Interface)
			return ok && it.NumMethods() == 0
		}
		isMemberTable := func(v ssa.Value) bool {
			return strings.HasSuffix(c.M.ValPath(v), ".TypesValue")
		}
		// values taken from the table of members: range elements, lookups, and elements of slices built from them
		var fromTable func(v ssa.Value, d int) bool
		fromTable = func(v ssa.Value, d int) bool {
			if v == nil || d > 8 {
				return false
			}
			switch x := v.(type) {
			case *ssa.Extract:
				if nx, ok := x.Tuple.(*ssa.Next); ok {
					if rg, ok := nx.Iter.(*ssa.Range); ok {
						return isMemberTable(rg.X) || fromTable(rg.X, d+1)
					}
				}
				if lk, ok := x.Tuple.(*ssa.Lookup); ok {
					return isMemberTable(lk.X)
				}
			case *ssa.Lookup:
				return isMemberTable(x.X)
			case *ssa.UnOp:
				if x.Op == token.MUL {
					if ia, ok := x.X.(*ssa.IndexAddr); ok {
						// an element of a slice: something taken from the table was stored into (appended to) it
						return c.sliceHoldsFromTable(ia.X, fromTable, d+1)
					}
					if al, ok := x.X.(*ssa.Alloc); ok && al.Referrers() != nil {
						for _, r := range *al.Referrers() {
							if st, ok := r.(*ssa.Store); ok && st.Addr == ssa.Value(al) && fromTable(st.Val, d+1) {
								return true
							}
						}
					}
				}
			case *ssa.Phi:
				for _, e := range x.Edges {
					if fromTable(e, d+1) {
						return true
					}
				}
			case *ssa.ChangeType:
				return fromTable(x.X, d+1)
			case *ssa.MakeInterface:
				return fromTable(x.X, d+1)
			}
			return false
		}
		sites := map[*ssa.BasicBlock]ssa.Instruction{}
		seen := map[ssa.Value]bool{}
		var trace func(v ssa.Value, at *ssa.BasicBlock, atIn ssa.Instruction, d int)
		trace = func(v ssa.Value, at *ssa.BasicBlock, atIn ssa.Instruction, d int) {
			if v == nil || d > 10 {
				return
			}
			if _, isPhi := v.(*ssa.Phi); !isPhi {
				if direct := fromTableDirect(v, isMemberTable); direct {
					sites[at] = atIn
					return
				}
			}
			if seen[v] {
				return
			}
			seen[v] = true
			switch x := v.(type) {
			case *ssa.UnOp:
				if x.Op != token.MUL {
					return
				}
				switch p := x.X.(type) {
				case *ssa.Alloc:
					if p.Referrers() != nil {
						for _, r := range *p.Referrers() {
							if st, ok := r.(*ssa.Store); ok && st.Addr == ssa.Value(p) {
								trace(st.Val, st.Block(), st, d+1)
							}
						}
					}
				case *ssa.Phi:
					for i, e := range p.Edges {
						if al, ok := e.(*ssa.Alloc); ok && al.Referrers() != nil {
							for _, r := range *al.Referrers() {
								if st, ok := r.(*ssa.Store); ok && st.Addr == ssa.Value(al) {
									trace(st.Val, st.Block(), st, d+1)
								}
							}
						} else if _, isConst := e.(*ssa.Const); !isConst {
							trace(e, p.Block().Preds[i], p, d+1)
						}
					}
				case *ssa.IndexAddr:
					if c.sliceHoldsFromTable(p.X, fromTable, 0) {
						sites[at] = atIn
					}
				}
			case *ssa.Phi:
				for i, e := range x.Edges {
					pred := x.Block().Preds[i]
					trace(e, pred, pred.Instrs[len(pred.Instrs)-1], d+1)
				}
			case *ssa.Alloc:
				// a pointer to a local that is handed out: what was stored into the local
				if x.Referrers() != nil {
					for _, r := range *x.Referrers() {
						if st, ok := r.(*ssa.Store); ok && st.Addr == ssa.Value(x) {
							trace(st.Val, st.Block(), st, d+1)
						}
					}
				}
			case *ssa.Lookup:
				if isMemberTable(x.X) {
					trace(x.Index, at, atIn, d+1)
				}
			case *ssa.Extract:
				if lk, ok := x.Tuple.(*ssa.Lookup); ok && isMemberTable(lk.X) {
					trace(lk.Index, at, atIn, d+1)
				}
			case *ssa.ChangeType:
				trace(x.X, at, atIn, d+1)
			case *ssa.MakeInterface:
				trace(x.X, at, atIn, d+1)
			}
		}
		ei := core.ErrorResultIndex(fn.Signature)
		for _, r := range core.ReturnsOf(fn) {
			if ei >= 0 && c.M.RetNonNil(r, ei) {
				continue
			}
			for i := 0; i < fn.Signature.Results().Len(); i++ {
				if i == ei {
					continue
				}
				trace(r.Val(i), r.Block(), r.Return, 0)
			}
		}
		if len(sites) == 0 {
			continue
		}
		readsValue := func(v ssa.Value) bool {
			call, ok := v.(*ssa.Call)
			if !ok {
				return false
			}
			switch core.StaticCalleeName(&call.Call) {
			case "(reflect.Value).FieldByIndexErr", "(reflect.Value).FieldByIndex", "(reflect.Value).FieldByName", "(reflect.Value).Field":
				return true
			}
			if callee := core.StaticBody(&call.Call); callee != nil && callee.Pkg == fn.Pkg {
				for _, a := range call.Call.Args {
					if isData(a) {
						return true
					}
				}
			}
			return false
		}
		est := func(cond core.Cond) bool {
			if ld, ok := cond.V.(*ssa.UnOp); ok && ld.Op == token.MUL && !cond.True {
				if fa, ok := ld.X.(*ssa.FieldAddr); ok && fieldName(fa.X.Type(), fa.Field) == "DiscriminatorInlined" {
					return true
				}
			}
			if f, ok := cond.V.(*ssa.Field); ok && !cond.True && fieldName(f.X.Type(), f.Field) == "DiscriminatorInlined" {
				return true
			}
			if cond.Via != nil || cond.Entry {
				return false
			}
			return derivedFrom(cond.V, readsValue)
		}
		hold := core.MustHold(fn, est)
		var blocks []*ssa.BasicBlock
		for b := range sites {
			blocks = append(blocks, b)
		}
		sort.Slice(blocks, func(i, j int) bool { return blocks[i].Index < blocks[j].Index })
		for i, b := range blocks {
			n++
			k := key(rule, c.M.Key(fn), sprintf("member chosen for a struct value #%d under the verdict of its discriminator", i+1))
			pos := c.M.InstrPos(sites[b])
			if hold[b] {
				c.R.Ok(rule, k, pos, "a member that takes the Go type is chosen by the value's discriminator",
					"reached only with DiscriminatorInlined false or under a branch on what was read out of the value")
			} else {
				c.R.Bad(rule, k, pos, "a member is chosen by the Go type of the value alone",
					"with an inlined discriminator this place can be reached without the value's discriminator having been looked at: a struct whose discriminator names another member (or none) is validated and serialized as this member, and Unserialize refuses the result")
			}
		}
	}
	if n == 0 {
		c.R.Unresolved(rule, "the places where a one-of chooses the member for a struct value (a function that compares the members' ReflectedType() with the type of the value)")
	}
}

func fromTableDirect(v ssa.Value, isMemberTable func(ssa.Value) bool) bool {
	if ex, ok := v.(*ssa.Extract); ok {
		if nx, ok := ex.Tuple.(*ssa.Next); ok {
			if rg, ok := nx.Iter.(*ssa.Range); ok {
				return isMemberTable(rg.X)
			}
		}
	}
	return false
}

// sliceHoldsFromTable: something taken from the table of members is appended to / stored into the slice.
func (c *Ctx) sliceHoldsFromTable(s ssa.Value, fromTable func(ssa.Value, int) bool, d int) bool {
	seen := map[ssa.Value]bool{}
	var rec func(v ssa.Value, d int) bool
	rec = func(v ssa.Value, d int) bool {
		if v == nil || d > 8 || seen[v] {
			return false
		}
		seen[v] = true
		switch x := v.(type) {
		case *ssa.Phi:
			for _, e := range x.Edges {
				if rec(e, d+1) {
					return true
				}
			}
		case *ssa.Call:
			if bi, ok := x.Call.Value.(*ssa.Builtin); ok && bi.Name() == "append" {
				if rec(x.Call.Args[0], d+1) {
					return true
				}
				// the variadic part: a slice of a fresh array whose elements were stored
				if sl, ok := x.Call.Args[1].(*ssa.Slice); ok {
					if al, ok := sl.X.(*ssa.Alloc); ok && al.Referrers() != nil {
						for _, r := range *al.Referrers() {
							if ia, ok := r.(*ssa.IndexAddr); ok && ia.Referrers() != nil {
								for _, r2 := range *ia.Referrers() {
									if st, ok := r2.(*ssa.Store); ok && fromTable(st.Val, d+1) {
										return true
									}
								}
							}
						}
					}
				}
			}
		case *ssa.Slice:
			return rec(x.X, d+1)
		case *ssa.UnOp:
			if al, ok := x.X.(*ssa.Alloc); ok && al.Referrers() != nil {
				for _, r := range *al.Referrers() {
					if st, ok := r.(*ssa.Store); ok && st.Addr == ssa.Value(al) && rec(st.Val, d+1) {
						return true
					}
				}
			}
		}
		return false
	}
	return rec(s, d)
}
