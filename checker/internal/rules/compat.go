package rules

import (
	"go/constant"
	"go/token"
	"go/types"
	"sort"
	"strings"

	"golang.org/x/tools/go/ssa"

	"verifcheck/internal/core"
)

// Rules for schema-mode ValidateCompatibility (C15).

// compatFuncs: the ValidateCompatibility implementations of all Serializable types plus their static helper callees
// (same receiver type) - the code that decides schema-vs-schema compatibility.
func (c *Ctx) compatFuncs() []*ssa.Function {
	seen := map[*ssa.Function]bool{}
	var out []*ssa.Function
	var add func(fn *ssa.Function, depth int)
	add = func(fn *ssa.Function, depth int) {
		if fn == nil || seen[fn] || depth > 2 {
			return
		}
		seen[fn] = true
		out = append(out, fn)
		if t := c.trampolineTarget(fn); t != fn {
			// the public face of the operation: its body is one level, whatever it is called
			add(t, depth)
			return
		}
		for _, b := range fn.Blocks {
			for _, in := range b.Instrs {
				call, ok := in.(*ssa.Call)
				if !ok || call.Call.IsInvoke() {
					continue
				}
				for _, callee := range c.M.Callees(&call.Call) {
					k := strings.ToLower(c.M.Key(callee))
					if strings.Contains(k, "compatib") || strings.Contains(k, "validateschema") {
						add(callee, depth+1)
					} else if len(core.PlainSites(callee)) > 0 && c.comparesBounds(callee) {
						// a helper that is handed the bounds of both sides and compares them
						add(callee, depth+1)
					}
				}
			}
		}
	}
	for _, f := range c.entryData("ValidateCompatibility") {
		add(f, 0)
	}
	sort.Slice(out, func(i, j int) bool { return c.M.Key(out[i]) < c.M.Key(out[j]) })
	return out
}

// comparesBounds: the function dereferences and orders two of its pointer parameters (a helper that tells whether two
// ranges can overlap).
func (c *Ctx) comparesBounds(fn *ssa.Function) bool {
	isParamDeref := func(v ssa.Value) bool {
		u, ok := v.(*ssa.UnOp)
		if !ok || u.Op != token.MUL {
			return false
		}
		_, isParam := u.X.(*ssa.Parameter)
		return isParam
	}
	for _, b := range fn.Blocks {
		for _, in := range b.Instrs {
			if bin, ok := in.(*ssa.BinOp); ok {
				switch bin.Op {
				case token.GTR, token.LSS, token.GEQ, token.LEQ:
					if isParamDeref(bin.X) && isParamDeref(bin.Y) {
						return true
					}
				}
			}
		}
	}
	return false
}

type pathFact struct {
	kind  string // "nil", "nonnil", "cmp"
	a, b  string
	op    token.Token
	truth bool
}

// boundRole classifies a pointer value as (self|other, min|max): fields tagged json min/max on the receiver or on a
// value asserted to the receiver's struct type; or the reflective Min()/Max() probe results of the map schema.
func (c *Ctx) boundRole(fn *ssa.Function, v ssa.Value) (who, which string) {
	switch x := v.(type) {
	case *ssa.UnOp:
		if fa, ok := x.X.(*ssa.FieldAddr); ok && x.Op == token.MUL {
			tag := ""
			if p, ok := fa.X.Type().Underlying().(*types.Pointer); ok {
				if st, ok := p.Elem().Underlying().(*types.Struct); ok {
					tag = jsonTag(st, fa.Field)
				}
			}
			if tag != "min" && tag != "max" {
				// a field of a struct of bounds that the callers built (see the Field case)
				if srcs, ok := core.FieldSourcesOf(fa.X, fa.Field); ok {
					return c.rolesOf(srcs)
				}
				return "", ""
			}
			base := c.M.ValPath(fa.X)
			if len(fn.Params) > 0 && base == fn.Params[0].Name() {
				return "self", tag
			}
			return "other", tag
		}
	case *ssa.TypeAssert:
		// minField.Call(...)[0].Interface().(*int64) with minField = MethodByName("Min"), or
		// FieldByName("MinValue").Interface().(*int64)
		switch name := reflectMethodProbe(x.X, 0); name {
		case "Min", "MinValue":
			return "other", "min"
		case "Max", "MaxValue":
			return "other", "max"
		}
	case *ssa.Extract:
		if ta, ok := x.Tuple.(*ssa.TypeAssert); ok && x.Index == 0 {
			return c.boundRole(fn, ta)
		}
	case *ssa.Parameter:
		// a bound handed to a helper: what every call site passes
		srcs := core.ParamSources(x)
		if len(srcs) == 1 && srcs[0] == ssa.Value(x) {
			return "", ""
		}
		return c.rolesOf(srcs)
	case *ssa.Field:
		// a bound that travels in a struct of bounds (built by the caller, compared by a helper): what was put into the field
		srcs, ok := core.FieldSources(x)
		if !ok {
			return "", ""
		}
		return c.rolesOf(srcs)
	}
	return "", ""
}

// rolesOf: the one role all the values have.
func (c *Ctx) rolesOf(srcs []ssa.Value) (who, which string) {
	for i, src := range srcs {
		in, isInstr := src.(ssa.Instruction)
		if !isInstr {
			return "", ""
		}
		w1, w2 := c.boundRole(in.Parent(), src)
		if w1 == "" || (i > 0 && (w1 != who || w2 != which)) {
			return "", ""
		}
		who, which = w1, w2
	}
	return who, which
}

// reflectMethodProbe: v derives from reflect.Value.MethodByName(<const>).Call(...)[0].Interface(): returns the constant.
func reflectMethodProbe(v ssa.Value, depth int) string {
	if depth > 8 || v == nil {
		return ""
	}
	switch x := v.(type) {
	case *ssa.Call:
		n := core.StaticCalleeName(&x.Call)
		if (n == "(reflect.Value).MethodByName" || n == "(reflect.Value).FieldByName") && len(x.Call.Args) == 2 {
			s, _ := core.ConstString(x.Call.Args[1])
			return s
		}
		if len(x.Call.Args) > 0 && strings.HasPrefix(n, "(reflect.Value).") {
			return reflectMethodProbe(x.Call.Args[0], depth+1)
		}
	case *ssa.UnOp:
		return reflectMethodProbe(x.X, depth+1)
	case *ssa.IndexAddr:
		return reflectMethodProbe(x.X, depth+1)
	}
	return ""
}

// R-OVERLAP: in schema mode, a consumer whose numeric / size range cannot overlap the producer's must be rejected, for
// every combination of present / absent bounds. Every acyclic path to an accepting return that passes the point where
// both schemas' bounds are available must, for each of the two pairs (other.min, self.max) and (other.max, self.min),
// have found one of the two bounds nil (unbounded) or have evaluated the separating comparison with the accepting
// outcome. Also the comparisons must be in normal form (reject iff other.min > self.max, iff other.max < self.min).
func (c *Ctx) ruleOverlap(rule string) {
	n := 0
	for _, fn := range c.compatFuncs() {
		// does this function compare bounds of two schemas?
		type cmpSite struct {
			bin      *ssa.BinOp
			who1, w1 string
			who2, w2 string
		}
		var cmps []cmpSite
		for _, b := range fn.Blocks {
			for _, in := range b.Instrs {
				bin, ok := in.(*ssa.BinOp)
				if !ok {
					continue
				}
				switch bin.Op {
				case token.GTR, token.LSS, token.GEQ, token.LEQ:
				default:
					continue
				}
				dx, okx := bin.X.(*ssa.UnOp)
				dy, oky := bin.Y.(*ssa.UnOp)
				if !okx || !oky || dx.Op != token.MUL || dy.Op != token.MUL {
					continue
				}
				a1, b1 := c.boundRole(fn, dx.X)
				a2, b2 := c.boundRole(fn, dy.X)
				if a1 == "" || a2 == "" || a1 == a2 {
					continue
				}
				cmps = append(cmps, cmpSite{bin, a1, b1, a2, b2})
			}
		}
		if len(cmps) == 0 {
			continue
		}
		// normal form of each comparison
		for i, cs := range cmps {
			n++
			k := key(rule, c.M.Key(fn), sprintf("overlap comparison #%d normal form", i+1))
			// normalise to "other.W op self.V"
			op, ow, sw := cs.bin.Op, cs.w1, cs.w2
			if cs.who1 == "self" {
				ow, sw = cs.w2, cs.w1
				op = flipOp(op)
			}
			// the rejecting edge: find the If on this comparison (possibly through short-circuit blocks) - we only check the operator/operand pairing
			okForm := (ow == "min" && sw == "max" && (op == token.GTR)) || (ow == "max" && sw == "min" && (op == token.LSS))
			if okForm {
				c.R.Ok(rule, k, c.M.InstrPos(cs.bin), "range-overlap comparison", "other."+ow+" "+op.String()+" self."+sw+": the separating test in normal form")
			} else {
				c.R.Bad(rule, k, c.M.InstrPos(cs.bin), "range-overlap comparison not in normal form: other."+ow+" "+op.String()+" self."+sw,
					"ranges are disjoint iff other.min > self.max or other.max < self.min (inclusive bounds); another operator or pairing rejects overlapping ranges or accepts disjoint ones")
			}
		}
		// path enumeration
		anchor := c.overlapAnchor(fn, cmps[0].bin)
		if anchor == nil && c.comparesBounds(fn) && len(fn.Blocks) > 0 {
			anchor = fn.Blocks[0] // a helper: the bounds are its parameters
		}
		if anchor == nil {
			c.R.Bad(rule, key(rule, c.M.Key(fn), "anchor"), c.M.Pos(fn.Pos()), "cannot locate where both schemas' bounds become available", "undecided = fail")
			continue
		}
		viol := c.overlapPaths(fn, anchor)
		n++
		k := key(rule, c.M.Key(fn), "every accepting path decides both bound pairs")
		if viol == "" {
			c.R.Ok(rule, k, c.M.Pos(fn.Pos()), "accepting schema-mode paths", "on every acyclic accepting path each pair (other.min,self.max), (other.max,self.min) is vacuous by a nil bound or was compared with the accepting outcome")
		} else {
			c.R.Bad(rule, k, c.M.Pos(fn.Pos()), "an accepting path skips a range-overlap decision", viol)
		}
	}
	// where the comparisons sit in a helper that answers "the ranges exclude each other", the callers must refuse on that
	// answer: from the call, with the answer true, no accepting return may be reachable
	for _, fn := range c.compatFuncs() {
		ei := core.ErrorResultIndex(fn.Signature)
		if ei < 0 {
			continue
		}
		cnt := 0
		for _, b := range fn.Blocks {
			for _, in := range b.Instrs {
				call, ok := in.(*ssa.Call)
				if !ok {
					continue
				}
				helper := core.StaticBody(&call.Call)
				if helper == nil || helper.Signature.Results().Len() != 1 || core.ErrorResultIndex(helper.Signature) >= 0 || !c.comparesBounds(helper) {
					continue
				}
				n++
				cnt++
				k := key(rule, c.M.Key(fn), sprintf("answer #%d of the range helper %s is followed: exclusive ranges are refused", cnt, helper.Name()))
				val := func(v ssa.Value) (bool, bool) {
					if v == ssa.Value(call) {
						return true, true
					}
					return false, false
				}
				accepts := core.PathExists(nil, b, val, nil, func(tb, _ *ssa.BasicBlock, _ func(ssa.Value) (bool, bool)) bool {
					if len(tb.Instrs) == 0 {
						return false
					}
					r, isRet := tb.Instrs[len(tb.Instrs)-1].(*ssa.Return)
					return isRet && core.IsNilConst(core.RetVal(r, ei))
				})
				if !accepts {
					c.R.Ok(rule, k, c.M.InstrPos(call), "use of a range-overlap helper", "with the answer true no accepting return can be reached from the call")
				} else {
					c.R.Bad(rule, k, c.M.InstrPos(call), "the answer of the range helper is not followed",
						"a path from the call reaches the accepting return although the helper answered that the ranges exclude each other: a producer whose range cannot overlap the consumer's is accepted")
				}
			}
		}
	}
	if n == 0 {
		c.R.Unresolved(rule, "range-overlap comparisons in ValidateCompatibility")
	}
	c.R.Floor(rule, 8)
}

func flipOp(op token.Token) token.Token {
	switch op {
	case token.GTR:
		return token.LSS
	case token.LSS:
		return token.GTR
	case token.GEQ:
		return token.LEQ
	case token.LEQ:
		return token.GEQ
	}
	return op
}

// overlapAnchor: the block from which both schemas' bounds are available: the ok-successor of the typed assertion of
// the argument (or, for reflective probing, the block of the last probe call) that dominates the comparisons.
func (c *Ctx) overlapAnchor(fn *ssa.Function, cmp *ssa.BinOp) *ssa.BasicBlock {
	var best *ssa.BasicBlock
	for _, b := range fn.Blocks {
		if !b.Dominates(cmp.Block()) {
			continue
		}
		if len(b.Preds) == 1 {
			p := b.Preds[0]
			if ifi, ok := p.Instrs[len(p.Instrs)-1].(*ssa.If); ok && p.Succs[0] == b {
				if t, ok := core.CommaOk(ifi.Cond); ok {
					if ta, ok := t.(*ssa.TypeAssert); ok && !types.IsInterface(ta.AssertedType) {
						if best == nil || best.Dominates(b) {
							best = b
						}
					}
				}
			}
		}
		for _, in := range b.Instrs {
			if ta, ok := in.(*ssa.TypeAssert); ok {
				if name := reflectMethodProbe(ta.X, 0); name == "Min" || name == "Max" || name == "MinValue" || name == "MaxValue" {
					if best == nil || best.Dominates(b) {
						best = b
					}
				}
			}
		}
	}
	return best
}

// overlapPaths enumerates acyclic paths from anchor to accepting returns and checks the two pair obligations.
func (c *Ctx) overlapPaths(fn *ssa.Function, anchor *ssa.BasicBlock) string {
	ei := core.ErrorResultIndex(fn.Signature)
	type st struct {
		nilOf   map[string]bool        // "other.min" ...
		decided map[string]bool        // "p1" (other.min vs self.max), "p2"
		phis    map[*ssa.Phi]ssa.Value // what the merges passed on this path stand for
	}
	clone := func(s st) st {
		n := st{map[string]bool{}, map[string]bool{}, map[*ssa.Phi]ssa.Value{}}
		for k := range s.nilOf {
			n.nilOf[k] = true
		}
		for k := range s.decided {
			n.decided[k] = true
		}
		for k, v := range s.phis {
			n.phis[k] = v
		}
		return n
	}
	count := 0
	result := ""
	boolHelper := ei < 0 && fn.Signature.Results().Len() == 1 && c.comparesBounds(fn)
	// apply records what a condition that holds on the path says about the bounds
	apply := func(ns *st, cd core.Cond) {
		if v, neq, ok := core.NilCmp(cd.V); ok {
			who, which := c.boundRole(fn, v)
			if who != "" && neq != cd.True {
				ns.nilOf[who+"."+which] = true
			}
		}
		if bin, ok := cd.V.(*ssa.BinOp); ok {
			dx, okx := bin.X.(*ssa.UnOp)
			dy, oky := bin.Y.(*ssa.UnOp)
			if okx && oky {
				a1, b1 := c.boundRole(fn, dx.X)
				a2, b2 := c.boundRole(fn, dy.X)
				if a1 != "" && a2 != "" && a1 != a2 {
					ow, sw := b1, b2
					if a1 == "self" {
						ow, sw = b2, b1
					}
					if !cd.True { // the separating comparison came out false: accepting outcome
						if ow == "min" && sw == "max" {
							ns.decided["p1"] = true
						}
						if ow == "max" && sw == "min" {
							ns.decided["p2"] = true
						}
					}
				}
			}
		}
	}
	onPath := map[*ssa.BasicBlock]bool{}
	var walkFrom func(prev, b *ssa.BasicBlock, s st)
	walk := func(b *ssa.BasicBlock, s st) { walkFrom(nil, b, s) }
	walkFrom = func(prev, b *ssa.BasicBlock, s st) {
		if result != "" || count > 20000 || onPath[b] {
			return
		}
		count++
		onPath[b] = true
		defer delete(onPath, b)
		if prev != nil {
			// the merges of this block take the value of the edge the path came over
			idx := -1
			for i, p := range b.Preds {
				if p == prev {
					idx = i
				}
			}
			for _, in := range b.Instrs {
				phi, isPhi := in.(*ssa.Phi)
				if !isPhi {
					break
				}
				if idx >= 0 {
					v := phi.Edges[idx]
					if inner, isInner := v.(*ssa.Phi); isInner {
						if known, ok := s.phis[inner]; ok {
							v = known
						}
					}
					s.phis[phi] = v
				}
			}
		}
		last := b.Instrs[len(b.Instrs)-1]
		switch x := last.(type) {
		case *ssa.Return:
			accepting := ei >= 0 && core.IsNilConst(core.RetVal(x, ei))
			if ei < 0 && boolHelper && len(x.Results) == 1 {
				// a helper that answers "the ranges exclude each other": false is the accepting answer. The answer on this
				// path: the constant the path brings, or the last comparison itself (false: it came out accepting)
				v := core.RetVal(x, 0)
				if phi, isPhi := v.(*ssa.Phi); isPhi {
					if known, ok := s.phis[phi]; ok {
						v = known
					}
				}
				if k, isConst := v.(*ssa.Const); isConst && k.Value != nil && k.Value.Kind() == constant.Bool {
					accepting = !constant.BoolVal(k.Value)
				} else {
					accepting = true
					s = clone(s)
					apply(&s, core.Cond{V: v, True: false})
				}
			}
			if accepting {
				for _, p := range []struct{ id, a, b string }{{"p1", "other.min", "self.max"}, {"p2", "other.max", "self.min"}} {
					if s.decided[p.id] || s.nilOf[p.a] || s.nilOf[p.b] {
						continue
					}
					result = "a path reaches the accepting return at " + c.M.InstrPos(x) + " without having compared " + p.a + " with " + p.b +
						" and without having found either of them nil: a producer whose " + strings.TrimPrefix(p.a, "other.") + " lies beyond the consumer's " + strings.TrimPrefix(p.b, "self.") + " is accepted although the ranges cannot overlap"
					return
				}
			}
			return
		case *ssa.If:
			for i, succ := range b.Succs {
				truth := i == 0
				ns := clone(s)
				for _, cd := range expandForPath(x.Cond, truth) {
					// a condition kept in a variable (`exclusive := a != nil && b != nil && *a > *b; if exclusive || ..`):
					// on this path the merge stands for the value of the edge the path came over
					for i := 0; i < 4; i++ {
						phi, isPhi := cd.V.(*ssa.Phi)
						if !isPhi {
							break
						}
						known, ok := ns.phis[phi]
						if !ok {
							break
						}
						cd.V = known
					}
					if k, isConst := cd.V.(*ssa.Const); isConst && k.Value != nil && k.Value.Kind() == constant.Bool && constant.BoolVal(k.Value) != cd.True {
						// the path contradicts the value it brought along: not a path
						ns.nilOf["%infeasible"] = true
					}
					apply(&ns, cd)
				}
				if ns.nilOf["%infeasible"] {
					continue
				}
				walkFrom(b, succ, ns)
			}
			return
		}
		for _, succ := range b.Succs {
			walkFrom(b, succ, clone(s))
		}
	}
	walk(anchor, st{map[string]bool{}, map[string]bool{}, map[*ssa.Phi]ssa.Value{}})
	return result
}

func expandForPath(v ssa.Value, truth bool) []core.Cond {
	for {
		if u, ok := v.(*ssa.UnOp); ok && u.Op == token.NOT {
			v = u.X
			truth = !truth
			continue
		}
		break
	}
	return []core.Cond{{V: v, True: truth}}
}

// R-KINDGATE: in schema mode every `return nil` of a ValidateCompatibility implementation (or of a helper all of whose
// call sites are gated) is dominated by a gate that separates the receiver's kind from every other kind: a TypeID
// comparison, a successful assertion to a concrete schema type, a Kind() test (data mode / the any type's whitelist),
// the ok result of a conversion helper, or a reflective field probe - the latter only if every repo type with a field
// of that name reports one and the same TypeID.
func (c *Ctx) ruleKindGate(rule string) {
	n := 0
	for _, fn := range c.compatFuncs() {
		ei := core.ErrorResultIndex(fn.Signature)
		if ei < 0 {
			continue
		}
		idx := 0
		for _, r := range core.ReturnsOf(fn) {
			if !core.IsNilConst(core.RetVal(r, ei)) {
				continue
			}
			idx++
			n++
			k := key(rule, c.M.Key(fn), sprintf("accepting return #%d is behind a kind gate", idx))
			gate, bad := c.gateAt(fn, r.Block(), 0)
			switch {
			case bad != "":
				c.R.Bad(rule, k, c.M.InstrPos(r), "schema accepted behind a gate that does not separate kinds", bad)
			case gate != "":
				c.R.Ok(rule, k, c.M.InstrPos(r), "accepting return of a compatibility check", gate)
			default:
				c.R.Bad(rule, k, c.M.InstrPos(r), "schema accepted without any kind gate", "no TypeID comparison, type assertion, Kind test or probe dominates this `return nil`: a producer of a different base kind is accepted")
			}
		}
	}
	c.R.Floor(rule, 10)
	_ = n
}

func (c *Ctx) gateAt(fn *ssa.Function, b *ssa.BasicBlock, depth int) (gate string, bad string) {
	if depth > 5 {
		return "", ""
	}
	probe := ""
	for _, cond := range core.CondsAt(b) {
		switch x := cond.V.(type) {
		case *ssa.BinOp:
			if x.Op == token.EQL || x.Op == token.NEQ {
				for _, side := range []ssa.Value{x.X, x.Y} {
					if call, ok := side.(*ssa.Call); ok {
						switch c.calledMethodName(call) {
						case "TypeID":
							if (x.Op == token.EQL) == cond.True {
								return "TypeID() comparison", ""
							}
						case "Kind":
							if core.StaticCalleeName(&call.Call) != "(reflect.Value).Kind" {
								return "Kind() whitelist on the other schema's reflected type", ""
							}
						}
						if core.StaticCalleeName(&call.Call) == "(reflect.Value).Kind" {
							// a test that establishes Kind == Struct selects schema mode; it separates nothing
							other := x.Y
							if side == x.Y {
								other = x.X
							}
							kind, _ := core.ConstInt(other)
							establishesStruct := kind == 25 && ((x.Op == token.EQL) == cond.True)
							if !establishesStruct && !(kind == 25 && (x.Op == token.NEQ) == !cond.True) {
								return "Kind() test establishing a non-struct data kind (data mode)", ""
							}
						}
					}
				}
			}
		case *ssa.Extract:
			if t, ok := core.CommaOk(x); ok && !cond.True {
				// data mode: the argument failed the assertion to the schema interface and is validated as data below
				if ta, ok := t.(*ssa.TypeAssert); ok && c.isSchemaType(ta.AssertedType) && types.IsInterface(ta.AssertedType) {
					return "argument is not a schema (data mode)", ""
				}
			}
			if t, ok := core.CommaOk(x); ok && cond.True {
				if ta, ok := t.(*ssa.TypeAssert); ok {
					if !types.IsInterface(ta.AssertedType) {
						return "successful assertion to " + typeStr(ta.AssertedType), ""
					}
				}
			}
			if call, ok := x.Tuple.(*ssa.Call); ok && x.Index == 1 && cond.True && len(c.M.Callees(&call.Call)) == 1 {
				return "ok result of " + c.M.Key(c.M.Callees(&call.Call)[0]), ""
			}
		case *ssa.Call:
			if core.StaticCalleeName(&x.Call) == "(reflect.Value).IsValid" && cond.True {
				if inner, ok := x.Call.Args[0].(*ssa.Call); ok && core.StaticCalleeName(&inner.Call) == "(reflect.Value).FieldByName" {
					if name, ok := core.ConstString(inner.Call.Args[1]); ok && probe == "" {
						probe = name
					}
				}
			}
		}
	}
	for _, cond := range core.CondsAt(b) {
		if v, neq, ok := core.NilCmp(cond.V); ok && neq != cond.True {
			var call *ssa.Call
			switch y := v.(type) {
			case *ssa.Call:
				call = y
			case *ssa.Extract:
				call, _ = y.Tuple.(*ssa.Call)
			}
			if call != nil {
				switch c.calledMethodName(call) {
				case "Unserialize", "Validate":
					return "argument accepted by the receiver's own " + c.calledMethodName(call) + " (data mode)", ""
				}
			}
		}
	}
	// type-switch cases lower to comma-ok assertions as well (handled above); the any type's whitelist switch on Kind too
	if probe != "" {
		ids := c.typeIDsEmbedding(probe)
		if len(ids) == 1 {
			return "reflective probe of field " + probe + ", embedded only by types reporting TypeID " + ids[0], ""
		}
		// outermost probe only; an inner probe (e.g. ValidValuesMap) does not refine the kind
		return "", "the only gate is the reflective probe FieldByName(\"" + probe + "\"), but types with such a field report different TypeIDs {" + strings.Join(ids, ", ") +
			"}: a producer of another kind passes it (e.g. an integer enum offered to a string enum: integers convert to strings)"
	}
	// helper: all call sites gated
	callers := 0
	firstGate := ""
	for _, g := range c.M.Funcs {
		for _, gb := range g.Blocks {
			for _, gi := range gb.Instrs {
				call, ok := gi.(*ssa.Call)
				if !ok || call.Call.IsInvoke() {
					continue
				}
				for _, callee := range c.M.Callees(&call.Call) {
					if callee != fn {
						continue
					}
					if c.trampolineTarget(g) == fn {
						continue // the public face of fn: called from outside like fn used to be
					}
					callers++
					gt, bd := c.gateAt(g, gb, depth+1)
					if bd != "" {
						return "", bd
					}
					if gt == "" {
						return "", ""
					}
					firstGate = gt
				}
			}
		}
	}
	if callers > 0 {
		return "every call site is gated (" + firstGate + ")", ""
	}
	return "", ""
}

// typeIDsEmbedding: the TypeID constants reported by repo struct types that have a field named `name`.
func (c *Ctx) typeIDsEmbedding(name string) []string {
	set := map[string]bool{}
	for _, named := range c.serializableTypes() {
		st, ok := named.Underlying().(*types.Struct)
		if !ok {
			continue
		}
		has := false
		for i := 0; i < st.NumFields(); i++ {
			if st.Field(i).Name() == name {
				has = true
			}
		}
		if !has {
			continue
		}
		ids, _ := c.typeIDsAll(named)
		for _, id := range ids {
			set[id] = true
		}
	}
	var out []string
	for id := range set {
		out = append(out, id)
	}
	sort.Strings(out)
	return out
}

// R-MUSTUSE (schema-mode features): every kind that declares size / value bounds (json min, max) consults them in
// its schema-mode compatibility code.
func (c *Ctx) ruleBoundsConsulted(rule string) {
	for _, named := range c.serializableTypes() {
		tags := jsonTagsOf(named)
		if tags["min"] == nil || tags["max"] == nil {
			continue
		}
		fn := c.methodBody(named, "ValidateCompatibility")
		if fn == nil {
			continue
		}
		// only for the declaring type
		owner := c.M.Key(fn)
		k := key(rule, owner, "min/max consulted when comparing with another schema")
		read := map[string]bool{}
		// schema-mode blocks: those not dominated by a data-kind gate... approximate: bounds read anywhere in the
		// function where the other schema's bounds are read too, or compared against another schema's bound
		seenFn := map[*ssa.Function]bool{}
		var scan func(f *ssa.Function, d int)
		scan = func(f *ssa.Function, d int) {
			if seenFn[f] || d > 2 {
				return
			}
			seenFn[f] = true
			for _, b := range f.Blocks {
				for _, in := range b.Instrs {
					if bin, ok := in.(*ssa.BinOp); ok {
						dx, okx := bin.X.(*ssa.UnOp)
						dy, oky := bin.Y.(*ssa.UnOp)
						if okx && oky {
							a1, b1 := c.boundRole(f, dx.X)
							a2, b2 := c.boundRole(f, dy.X)
							if a1 != "" && a2 != "" && a1 != a2 {
								if a1 == "self" {
									read[b1] = true
								} else {
									read[b2] = true
								}
							}
						}
					}
					if call, ok := in.(*ssa.Call); ok && !call.Call.IsInvoke() {
						for _, callee := range c.M.Callees(&call.Call) {
							if strings.Contains(strings.ToLower(c.M.Key(callee)), "compatib") || len(core.PlainSites(callee)) > 0 {
								// (the comparison may sit in an unexported helper that is handed the bounds)
								scan(callee, d+1)
							}
						}
					}
				}
			}
		}
		scan(fn, 0)
		tname := named.Obj().Name()
		if !strings.HasPrefix(owner, "schema."+tname+".") {
			continue
		}
		if read["min"] && read["max"] {
			c.R.Ok(rule, k, c.M.Pos(fn.Pos()), "bounds of "+tname+" in schema mode", "both own bounds are compared with the other schema's bounds")
		} else {
			c.R.Bad(rule, k, c.M.Pos(fn.Pos()), tname+".ValidateCompatibility never compares its min/max with the other schema's",
				"size ranges that cannot overlap (producer max below consumer min) are accepted")
		}
	}
	c.R.Floor(rule, 4)
}

// R-CONVERTALL (C15 "every schema is compatible with itself"): ConvertToObjectSchema is how every object-like consumer
// recognises an object-like producer. Every type of the package that implements the Object interface must be covered
// by it: by a case of its type switch (the type itself, or an interface it implements), or by the reflective
// fallback, which finds a struct field named ObjectSchema. A type that is not covered falls through to the raw-data
// path and is rejected by every object, reference and scope - including itself.
func (c *Ctx) ruleConvertAll(rule string) {
	fn := c.fn(rule, "schema.ConvertToObjectSchema")
	pkg := c.M.Types["schema"]
	if fn == nil || pkg == nil {
		return
	}
	objT, _ := pkg.Scope().Lookup("Object").(*types.TypeName)
	if objT == nil {
		c.R.Unresolved(rule, "interface schema.Object")
		return
	}
	objIface, _ := objT.Type().Underlying().(*types.Interface)
	if objIface == nil {
		c.R.Unresolved(rule, "interface schema.Object")
		return
	}
	// cases of the type switch: asserted types of the TypeAsserts on the parameter
	var cases []types.Type
	fallbackField := ""
	for _, b := range fn.Blocks {
		for _, in := range b.Instrs {
			switch x := in.(type) {
			case *ssa.TypeAssert:
				if x.X == ssa.Value(fn.Params[0]) {
					cases = append(cases, x.AssertedType)
				}
			case *ssa.Call:
				if core.StaticCalleeName(&x.Call) == "(reflect.Value).FieldByName" && len(x.Call.Args) == 2 {
					if s, ok := core.ConstString(x.Call.Args[1]); ok {
						fallbackField = s
					}
				}
			}
		}
	}
	n := 0
	for _, name := range pkg.Scope().Names() {
		tn, ok := pkg.Scope().Lookup(name).(*types.TypeName)
		if !ok || tn.IsAlias() {
			continue
		}
		named, ok := tn.Type().(*types.Named)
		if !ok {
			continue
		}
		st, isStruct := named.Underlying().(*types.Struct)
		if !isStruct {
			continue
		}
		// generic types: instantiate checks on the origin with its own type parameters
		ptr := types.NewPointer(named)
		if !implementsLoosely(ptr, objIface) && !implementsLoosely(named, objIface) {
			continue
		}
		n++
		k := key(rule, "schema.ConvertToObjectSchema", "covers "+name)
		covered := ""
		for _, ct := range cases {
			if ci, isIface := ct.Underlying().(*types.Interface); isIface {
				if implementsLoosely(ptr, ci) || implementsLoosely(named, ci) {
					covered = "case " + typeStr(ct)
				}
				continue
			}
			if cn := structOf(ct); cn != nil && cn == named.Origin() {
				covered = "case " + typeStr(ct)
			}
		}
		if covered == "" && fallbackField != "" {
			for i := 0; i < st.NumFields(); i++ {
				if st.Field(i).Name() == fallbackField {
					covered = "reflective fallback: field " + fallbackField
				}
			}
		}
		if covered != "" {
			c.R.Ok(rule, k, c.M.Pos(fn.Pos()), "object-like type recognised by ConvertToObjectSchema", covered)
		} else {
			c.R.Bad(rule, k, c.M.Pos(fn.Pos()), name+" implements Object but ConvertToObjectSchema does not recognise it",
				"as a producer it falls through to the raw-data path and is rejected by every object, reference and scope consumer - a "+name+" is not even compatible with itself")
		}
	}
	if n == 0 {
		c.R.Unresolved(rule, "implementers of schema.Object")
	}
}

// implementsLoosely: t has every method of iface by name (generic receivers make exact signature checks against an
// uninstantiated type unreliable; names are enough to tell the object-like types apart).
func implementsLoosely(t types.Type, iface *types.Interface) bool {
	ms := types.NewMethodSet(t)
	for i := 0; i < iface.NumMethods(); i++ {
		found := false
		for j := 0; j < ms.Len(); j++ {
			if ms.At(j).Obj().Name() == iface.Method(i).Name() {
				found = true
				break
			}
		}
		if !found {
			return false
		}
	}
	return iface.NumMethods() > 0
}

// R-MUSTUSE, cross-kind clause (C15 "an enum offering values outside the consumer's set ... numeric/size ranges that
// cannot overlap"): a kind that declares bounds may accept a producer of ANOTHER kind (an integer schema accepts an
// integer enum) only after it has looked at its own bounds - directly, or by running one of its own data operations
// (Validate, Serialize, ...) that does. Obligation: in the ValidateCompatibility method of every kind with json min /
// max, every accepting return that lies under `other.TypeID() == C` for a type ID C that is not the kind's own has, on
// every path, passed a read of both... of a bound of the receiver or a call of a receiver method that reads them.
func (c *Ctx) ruleCrossKindBounds(rule string) {
	n := 0
	for _, named := range c.serializableTypes() {
		tags := jsonTagsOf(named)
		if tags["min"] == nil || tags["max"] == nil {
			continue
		}
		fn := c.methodBody(named, "ValidateCompatibility")
		if fn == nil || !strings.HasPrefix(c.M.Key(fn), "schema."+named.Obj().Name()+".") {
			continue
		}
		own := ""
		if tf := c.methodFn(named, "TypeID"); tf != nil {
			for _, r := range core.ReturnsOf(tf) {
				if s, ok := core.ConstString(core.RetVal(r, 0)); ok {
					own = s
				}
			}
		}
		isRecvType := func(t types.Type) bool {
			if p, ok := t.Underlying().(*types.Pointer); ok {
				t = p.Elem()
			}
			nt, ok := t.(*types.Named)
			return ok && nt.Obj() == named.Obj()
		}
		readsBound := func(in ssa.Instruction) bool {
			switch x := in.(type) {
			case *ssa.FieldAddr:
				if isRecvType(x.X.Type()) {
					if st := fieldsOfType(x.X.Type()); st != nil {
						t := jsonTag(st, x.Field)
						return t == "min" || t == "max"
					}
				}
			case *ssa.Field:
				if isRecvType(x.X.Type()) {
					if st := fieldsOfType(x.X.Type()); st != nil {
						t := jsonTag(st, x.Field)
						return t == "min" || t == "max"
					}
				}
			}
			return false
		}
		memo := map[*ssa.Function]bool{}
		var consults func(g *ssa.Function, d int) bool
		consults = func(g *ssa.Function, d int) bool {
			if v, ok := memo[g]; ok {
				return v
			}
			memo[g] = false
			if d > 3 {
				return false
			}
			for _, b := range g.Blocks {
				for _, in := range b.Instrs {
					if readsBound(in) {
						memo[g] = true
						return true
					}
					if call, ok := in.(*ssa.Call); ok {
						if callee := call.Call.StaticCallee(); callee != nil && callee.Signature.Recv() != nil && isRecvType(callee.Signature.Recv().Type()) && consults(callee, d+1) {
							memo[g] = true
							return true
						}
					}
				}
			}
			return false
		}
		gen := func(b *ssa.BasicBlock) bool {
			for _, in := range b.Instrs {
				if readsBound(in) {
					return true
				}
				if call, ok := in.(*ssa.Call); ok {
					if callee := call.Call.StaticCallee(); callee != nil && callee != fn && callee.Signature.Recv() != nil && isRecvType(callee.Signature.Recv().Type()) && consults(callee, 0) {
						return true
					}
				}
			}
			return false
		}
		hold := mustHoldGen(fn, func(core.Cond) bool { return false }, gen)
		ei := core.ErrorResultIndex(fn.Signature)
		cnt := 0
		for _, ret := range core.ReturnsOf(fn) {
			if ei < 0 || !core.IsNilConst(core.RetVal(ret, ei)) {
				continue
			}
			other := ""
			for _, cond := range ret.Conds() {
				bin, ok := cond.V.(*ssa.BinOp)
				if !ok || bin.Op != token.EQL || !cond.True {
					continue
				}
				for _, pr := range [][2]ssa.Value{{bin.X, bin.Y}, {bin.Y, bin.X}} {
					call, isCall := pr[0].(*ssa.Call)
					if !isCall || !call.Call.IsInvoke() || call.Call.Method.Name() != "TypeID" {
						continue
					}
					if s, ok := core.ConstString(pr[1]); ok && s != own {
						other = s
					}
				}
			}
			if other == "" {
				continue
			}
			n++
			cnt++
			k := key(rule, c.M.Key(fn), sprintf("accepting return #%d for a producer of kind %q has looked at the own bounds", cnt, other))
			// a producer that offers nothing at all (len(values) == 0 of the list that the consulting loop walks) cannot
			// offer anything outside the bounds
			offersNothing := false
			for _, cond := range ret.Conds() {
				bin, ok := cond.V.(*ssa.BinOp)
				if !ok || bin.Op != token.EQL || !cond.True {
					continue
				}
				for _, pr := range [][2]ssa.Value{{bin.X, bin.Y}, {bin.Y, bin.X}} {
					lc, isCall := pr[0].(*ssa.Call)
					if !isCall {
						continue
					}
					if bi, isBI := lc.Call.Value.(*ssa.Builtin); !isBI || bi.Name() != "len" {
						continue
					}
					if z, isConst := core.ConstInt(pr[1]); isConst && z == 0 {
						// the measured slice is the one a loop of this function hands, element by element, to a consulting method
						for _, ob := range fn.Blocks {
							for _, oin := range ob.Instrs {
								if ia, isIA := oin.(*ssa.IndexAddr); isIA && ia.X == lc.Call.Args[0] {
									offersNothing = true
								}
							}
						}
					}
				}
			}
			if offersNothing {
				c.R.Ok(rule, k, c.M.InstrPos(ret), "acceptance of a producer of another kind", "taken only where the producer offers no value at all (the list of offered values, which the consulting loop walks, is empty)")
			} else if hold[ret.Key()] || gen(ret.Block()) {
				c.R.Ok(rule, k, c.M.InstrPos(ret), "acceptance of a producer of another kind", "on every path a bound of the receiver was read, or a method of the receiver that reads them was called")
			} else {
				c.R.Bad(rule, k, c.M.InstrPos(ret), "a producer of another kind is accepted without a look at the own bounds",
					"a "+named.Obj().Name()+" with min / max accepts every schema of kind "+other+": an enum none of whose values lies within the bounds can never be consumed, yet is reported compatible (the same producer written as a range is refused)")
			}
		}
	}
	if n < 2 {
		c.R.Unresolved(rule, sprintf("accepting returns for producers of another kind in bounded kinds (%d found, at least 2 expected)", n))
	}
}
