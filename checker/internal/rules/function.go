package rules

import (
	"go/constant"
	"go/token"
	"strings"

	"golang.org/x/tools/go/ssa"

	"verifcheck/internal/core"
)

// Rules for callable functions (C18).

func (c *Ctx) functionFuncs() []*ssa.Function {
	var out []*ssa.Function
	for _, k := range []string{"schema.NewCallableFunction", "schema.NewDynamicCallableFunction", "schema.validateTypedReturnFunc", "schema.validateInputTypeCompatibility"} {
		if f := c.fn("R-TYPEID", k); f != nil {
			out = append(out, f)
		}
	}
	return out
}

func isReflectTypeMethod(call *ssa.Call, names ...string) bool {
	if !call.Call.IsInvoke() || !strings.HasSuffix(typeStr(call.Call.Value.Type()), "reflect.Type") {
		return false
	}
	for _, n := range names {
		if call.Call.Method.Name() == n {
			return true
		}
	}
	return false
}

// R-TYPEID: handler parameter / result types (values produced by reflect.Type.In / Out) decide acceptance only through
// identity comparison with another reflect.Type or through Kind(); never through their name, String(), or the looser
// Implements / AssignableTo / ConvertibleTo relations.
func (c *Ctx) ruleTypeID(rule string) {
	n := 0
	for _, fn := range c.functionFuncs() {
		idx := 0
		for _, b := range fn.Blocks {
			for _, in := range b.Instrs {
				call, ok := in.(*ssa.Call)
				if !ok || !isReflectTypeMethod(call, "In", "Out") {
					continue
				}
				idx++
				n++
				which := call.Call.Method.Name()
				k := key(rule, c.M.Key(fn), sprintf("handler %s type #%d decided by identity", which, idx))
				bad := c.looseTypeUse(call, 0)
				if bad == "" {
					c.R.Ok(rule, k, c.M.InstrPos(call), "handler signature type", "only compared by reflect.Type identity / Kind(), or printed")
				} else {
					c.R.Bad(rule, k, c.M.InstrPos(call), "handler signature type decided by "+bad,
						"acceptance must be type identity with the declared schema's reflected type (or the error interface): "+bad+" accepts handlers whose types merely resemble the declaration, and calls then panic or mis-attribute errors")
				}
			}
		}
	}
	if n == 0 {
		c.R.Unresolved(rule, "reflect.Type.In/Out uses in the function constructors")
	}
	c.R.Floor(rule, 4)
}

// looseTypeUse: a use of reflect.Type value v that can influence control flow other than ==, != or Kind().
func (c *Ctx) looseTypeUse(v ssa.Value, depth int) string {
	if depth > 5 {
		return ""
	}
	refs := v.Referrers()
	if refs == nil {
		return ""
	}
	for _, r := range *refs {
		switch x := r.(type) {
		case *ssa.Call:
			if x.Call.IsInvoke() && x.Call.Value == v {
				switch x.Call.Method.Name() {
				case "Implements", "AssignableTo", "ConvertibleTo":
					return x.Call.Method.Name() + "()"
				case "Name", "String", "PkgPath":
					if usedInComparison(x) {
						return "its " + x.Call.Method.Name() + "() text"
					}
				}
			}
			for _, a := range x.Call.Args {
				if a == v && x.Call.IsInvoke() {
					switch x.Call.Method.Name() {
					case "Implements", "AssignableTo", "ConvertibleTo":
						return x.Call.Method.Name() + "()"
					}
				}
			}
		case *ssa.Phi, *ssa.MakeInterface, *ssa.ChangeInterface:
			if s := c.looseTypeUse(x.(ssa.Value), depth+1); s != "" {
				return s
			}
		case *ssa.Store:
			if al, ok := x.Addr.(*ssa.Alloc); ok {
				for _, r2 := range *al.Referrers() {
					if ld, ok := r2.(*ssa.UnOp); ok {
						if s := c.looseTypeUse(ld, depth+1); s != "" {
							return s
						}
					}
				}
			}
		}
	}
	return ""
}

func usedInComparison(v ssa.Value) bool {
	refs := v.Referrers()
	if refs == nil {
		return false
	}
	for _, r := range *refs {
		if bin, ok := r.(*ssa.BinOp); ok && (bin.Op == token.EQL || bin.Op == token.NEQ) {
			return true
		}
	}
	return false
}

// ruleFunctionCall (R-DOM + R-ERRPROV for C18): the reflective handler call is dominated by the arity check; every
// error Call returns is a fresh FunctionCallError whose flag is true exactly when the wrapped error is the handler's.
func (c *Ctx) ruleFunctionCall(rule string) {
	fn := c.fn(rule, "schema.CallableFunctionSchema.Call")
	if fn == nil {
		return
	}
	var hcall *ssa.Call
	var reflCallFn *ssa.Function
	for _, b := range fn.Blocks {
		for _, in := range b.Instrs {
			if call, ok := in.(*ssa.Call); ok && core.StaticCalleeName(&call.Call) == "(reflect.Value).Call" {
				hcall = call
				reflCallFn = fn
			}
			// or through a helper of the package that passes (handler, args) on to reflect.Value.Call
			if call, ok := in.(*ssa.Call); ok && hcall == nil {
				if callee := call.Call.StaticCallee(); callee != nil && len(callee.Blocks) > 0 && len(callee.Params) >= 2 && len(call.Call.Args) == len(callee.Params) {
					isParam := func(v ssa.Value) bool {
						p, ok := v.(*ssa.Parameter)
						return ok && p.Parent() == callee
					}
					for _, cb := range callee.Blocks {
						for _, cin := range cb.Instrs {
							if cc, ok := cin.(*ssa.Call); ok && core.StaticCalleeName(&cc.Call) == "(reflect.Value).Call" &&
								isParam(cc.Call.Args[0]) && isParam(cc.Call.Args[1]) {
								hcall = call
								reflCallFn = callee
							}
						}
					}
				}
			}
		}
	}
	// the handler is user code: its panic is the function's failure, not the caller's (IsFunctionReportedError is
	// documented as "the error originated from the function itself from its return value or a panic")
	if reflCallFn != nil {
		kr := key(rule, c.M.Key(fn), "a panic of the handler is caught")
		if isRecoverScope(reflCallFn) {
			c.R.Ok(rule, kr, c.M.Pos(reflCallFn.Pos()), "reflective handler call", "made in a function with a deferred recover: the panic is reported, not propagated")
		} else {
			c.R.Bad(rule, kr, c.M.Pos(reflCallFn.Pos()), "a panic of the handler escapes Call", "a handler that divides by zero or indexes out of range takes its caller down instead of yielding a function-reported FunctionCallError")
		}
	}
	k := key(rule, c.M.Key(fn), "handler call dominated by the argument-count check")
	if hcall == nil {
		c.R.Unresolved(rule, "reflective handler call in CallableFunctionSchema.Call")
		return
	}
	okArity := false
	for _, cond := range core.CondsAt(hcall.Block()) {
		bin, ok := cond.V.(*ssa.BinOp)
		if !ok {
			continue
		}
		eq := (bin.Op == token.EQL && cond.True) || (bin.Op == token.NEQ && !cond.True)
		if !eq {
			continue
		}
		isLen := func(v ssa.Value) bool {
			call, ok := v.(*ssa.Call)
			if !ok {
				return false
			}
			bi, ok := call.Call.Value.(*ssa.Builtin)
			// (the check may sit in a helper that was given the arguments: its parameter is named through the call)
			return ok && bi.Name() == "len" && c.M.CondPath(fn, cond, call.Call.Args[0]) == c.M.ValPath(fn.Params[len(fn.Params)-1])
		}
		isNumIn := func(v ssa.Value) bool {
			call, ok := v.(*ssa.Call)
			return ok && isReflectTypeMethod(call, "NumIn")
		}
		if (isLen(bin.X) && isNumIn(bin.Y)) || (isLen(bin.Y) && isNumIn(bin.X)) {
			okArity = true
		}
	}
	if okArity && !blockInLoop(hcall.Block()) {
		c.R.Ok(rule, k, c.M.InstrPos(hcall), "reflective handler call", "dominated by len(arguments) == Handler.Type().NumIn(); a wrong argument count returns an error instead of panicking in reflect")
	} else {
		c.R.Bad(rule, k, c.M.InstrPos(hcall), "handler can be called with a wrong number of arguments", "reflect.Value.Call panics when the argument count differs from the handler's arity")
	}
	c.functionCallArgs(rule, fn, hcall)
	// error provenance
	idx := 0
	lastFn := fn
	for _, es := range c.errorSites(fn, 0) {
		r, e := es.site.Ret, es.site.Val
		if es.fn != lastFn {
			idx, lastFn = 0, es.fn
		}
		idx++
		k := key(rule, c.M.Key(es.fn), sprintf("error return #%d is a fresh FunctionCallError with a faithful flag", idx))
		pos := c.M.InstrPos(r)
		mi, ok := e.(*ssa.MakeInterface)
		var ctor *ssa.Call
		if ok {
			ctor, _ = mi.X.(*ssa.Call)
		} else if direct, isCall := e.(*ssa.Call); isCall {
			ctor = direct // a constructor of the package that returns the error interface itself
		}
		flagValue, wrapped, isCtor := c.callErrorCtor(ctor, 0)
		if !isCtor {
			c.R.Bad(rule, k, pos, "Call returns an error that it did not construct as a FunctionCallError",
				"an error that merely passes through (e.g. one found inside the handler's error chain) carries somebody else's function-reported flag: a handler error is reported as a call-shape problem or vice versa")
			continue
		}
		flag, isConst := flagValue.(*ssa.Const)
		if !isConst || flag.Value == nil || flag.Value.Kind() != constant.Bool {
			c.R.Bad(rule, k, pos, "function-reported flag is not a constant", "undecided = fail")
			continue
		}
		fromHandler := false
		for _, w := range wrapped {
			if es.fn == fn && derivesFromValue(w, hcall, 0) {
				fromHandler = true
			}
			// in a helper that Call hands the handler's results to: the parameter stands for them
			if es.fn != fn {
				for _, site := range core.PlainSites(es.fn) {
					if site.Parent() != fn {
						continue
					}
					for i, a := range site.Call.Args {
						if i < len(es.fn.Params) && derivesFromValue(a, hcall, 0) && derivesFromValue(w, es.fn.Params[i], 0) {
							fromHandler = true
						}
					}
				}
			}
		}
		// the branch in which the recover helper reported a panic of the handler: whatever is built there describes
		// the handler's own failure
		if reflCallFn != nil && reflCallFn != fn && es.fn == fn {
			for _, cond := range es.site.Conds() {
				if x, neq, ok := core.NilCmp(cond.V); ok && neq == cond.True {
					if ex, ok := x.(*ssa.Extract); ok && ex.Tuple == ssa.Value(hcall) && ex.Index > 0 {
						fromHandler = true
					}
				}
			}
		}
		want := fromHandler
		if constant.BoolVal(flag.Value) == want {
			c.R.Ok(rule, k, pos, "error attribution", sprintf("wrapped error derives from the handler's results: %v; flag: %v", fromHandler, want))
		} else {
			c.R.Bad(rule, k, pos, sprintf("function-reported flag is %v although the wrapped error %s from the handler", constant.BoolVal(flag.Value), map[bool]string{true: "comes", false: "does not come"}[fromHandler]), "")
		}
	}
	c.R.Floor(rule, 4)
}

// callErrorCtor: the call constructs a FunctionCallError - NewFunctionCallError(err, flag) itself, or a constructor of
// the package every way out of which does (newInvalidCallError(format, args...) = NewFunctionCallError(fmt.Errorf(...),
// false)). Returns the flag (a constant, possibly the constructor's own) and the values the wrapped error is made of, as
// seen at the call.
func (c *Ctx) callErrorCtor(call *ssa.Call, depth int) (flag ssa.Value, wrapped []ssa.Value, ok bool) {
	if call == nil || depth > 2 {
		return nil, nil, false
	}
	if strings.HasSuffix(core.StaticCalleeName(&call.Call), ".NewFunctionCallError") && len(call.Call.Args) == 2 {
		return call.Call.Args[1], []ssa.Value{call.Call.Args[0]}, true
	}
	helper := core.StaticBody(&call.Call)
	if helper == nil || helper.Signature.Results().Len() != 1 {
		return nil, nil, false
	}
	for _, r := range core.ReturnsOf(helper) {
		v := core.RetVal(r, 0)
		if mi, isMI := v.(*ssa.MakeInterface); isMI {
			v = mi.X
		}
		inner, isCall := v.(*ssa.Call)
		if !isCall {
			return nil, nil, false
		}
		f, w, isCtor := c.callErrorCtor(inner, depth+1)
		if !isCtor {
			return nil, nil, false
		}
		// the flag: a constant of the constructor, or one of its parameters (then the argument at this call)
		if p, isParam := f.(*ssa.Parameter); isParam {
			f = nil
			for i, q := range helper.Params {
				if q == p && i < len(call.Call.Args) {
					f = call.Call.Args[i]
				}
			}
		}
		if f == nil || (flag != nil && !sameConst(flag, f)) {
			return nil, nil, false
		}
		flag = f
		// what the wrapped error is made of: the constructor's arguments stand for its parameters
		_ = w
		wrapped = append(wrapped, call.Call.Args...)
	}
	return flag, wrapped, flag != nil
}

func sameConst(a, b ssa.Value) bool {
	ka, okA := a.(*ssa.Const)
	kb, okB := b.(*ssa.Const)
	if !okA || !okB || ka.Value == nil || kb.Value == nil {
		return a == b
	}
	return ka.Value.ExactString() == kb.Value.ExactString()
}

// errorSite is a way out of a function with an error that is not the nil constant.
type errorSite struct {
	fn   *ssa.Function
	site core.RetSite
}

// errorSites lists the ways out of fn that return an error; where fn passes on the error of a helper of its own package
// (checks moved into a function of their own), the helper's ways out stand in for it.
func (c *Ctx) errorSites(fn *ssa.Function, depth int) []errorSite {
	ei := core.ErrorResultIndex(fn.Signature)
	if ei < 0 {
		return nil
	}
	var out []errorSite
	for _, s := range core.RetSites(fn, ei) {
		if core.IsNilConst(s.Val) {
			continue
		}
		if call, i, ok := core.CallResult(core.Unwrap(s.Val)); ok && depth < 3 {
			_, _, isCtor := c.callErrorCtor(call, 0)
			if helper := core.StaticBody(&call.Call); !isCtor && helper != nil && helper != fn && helper.Pkg == fn.Pkg &&
				!token.IsExported(helper.Name()) && i == core.ErrorResultIndex(helper.Signature) {
				out = append(out, c.errorSites(helper, depth+1)...)
				continue
			}
		}
		out = append(out, errorSite{fn, s})
	}
	return out
}

// derivesFromValue: v is computed from src (through element access, Interface(), type assertions, conversions).
func derivesFromValue(v, src ssa.Value, depth int) bool {
	if v == src {
		return true
	}
	if depth > 10 || v == nil {
		return false
	}
	switch x := v.(type) {
	case *ssa.Extract:
		return derivesFromValue(x.Tuple, src, depth+1)
	case *ssa.TypeAssert:
		return derivesFromValue(x.X, src, depth+1)
	case *ssa.Call:
		for _, a := range x.Call.Args {
			if derivesFromValue(a, src, depth+1) {
				// error constructors that merely format the handler's value still do not make it "the handler's error"
				if n := core.StaticCalleeName(&x.Call); n == "fmt.Errorf" || n == "errors.New" {
					return false
				}
				return true
			}
		}
		return x.Call.IsInvoke() && derivesFromValue(x.Call.Value, src, depth+1)
	case *ssa.UnOp:
		return derivesFromValue(x.X, src, depth+1)
	case *ssa.IndexAddr:
		return derivesFromValue(x.X, src, depth+1)
	case *ssa.MakeInterface:
		return derivesFromValue(x.X, src, depth+1)
	case *ssa.ChangeInterface:
		return derivesFromValue(x.X, src, depth+1)
	case *ssa.Phi:
		for _, e := range x.Edges {
			if derivesFromValue(e, src, depth+1) {
				return true
			}
		}
	}
	return false
}

// ruleHandlerKind (R-REFLECT for C18): reflect.Value.Type() on the handler is only reached after Kind() == Func was
// established, in the same function or by a callee whose nil-error return implies it.
func (c *Ctx) ruleHandlerKind(rule string) {
	// summary: functions with a reflect.Value parameter whose accepting returns are dominated by Kind()==Func on it
	ensures := map[*ssa.Function]int{}
	for _, fn := range c.functionFuncs() {
		for pi, p := range fn.Params {
			if typeStr(p.Type()) != "reflect.Value" {
				continue
			}
			ei := core.ErrorResultIndex(fn.Signature)
			if ei < 0 {
				continue
			}
			all, n := true, 0
			for _, r := range core.ReturnsOf(fn) {
				if c.M.RetNonNil(r, ei) {
					continue
				}
				n++
				if !kindFuncAt(r.Block(), p) {
					all = false
				}
			}
			if all && n > 0 {
				ensures[fn] = pi
			}
		}
	}
	// ... and functions that hand out (reflect.Value, error): on every accepting return the value handed out is one for
	// which the fact holds there (tested, or checked by an ensuring callee whose nil error is known)
	ensuredAt := func(b *ssa.BasicBlock, hv ssa.Value) bool {
		if kindFuncAt(b, hv) {
			return true
		}
		for _, cond := range core.CondsAt(b) {
			x, neq, isNil := core.NilCmp(cond.V)
			if !isNil || neq == cond.True {
				continue
			}
			if vc, ok := x.(*ssa.Call); ok {
				for _, callee := range c.M.Callees(&vc.Call) {
					if pi, has := ensures[callee]; has && pi < len(vc.Call.Args) && vc.Call.Args[pi] == hv {
						return true
					}
				}
			}
		}
		return false
	}
	yields := map[*ssa.Function]bool{}
	for _, fn := range c.M.SortedFuncs(c.scopePkg("schema")) {
		res := fn.Signature.Results()
		if res.Len() != 2 || typeStr(res.At(0).Type()) != "reflect.Value" || !core.IsErrorType(res.At(1).Type()) {
			continue
		}
		all, cnt := true, 0
		for _, r := range core.ReturnsOf(fn) {
			if c.M.RetNonNil(r, 1) {
				continue
			}
			cnt++
			if !ensuredAt(r.Block(), core.RetVal(r.Return, 0)) {
				all = false
			}
		}
		if all && cnt > 0 {
			yields[fn] = true
		}
	}
	yieldedAt := func(b *ssa.BasicBlock, hv ssa.Value) (bool, string) {
		ex, ok := hv.(*ssa.Extract)
		if !ok || ex.Index != 0 {
			return false, ""
		}
		vc, ok := ex.Tuple.(*ssa.Call)
		if !ok {
			return false, ""
		}
		callee := core.StaticBody(&vc.Call)
		if callee == nil || !yields[callee] {
			return false, ""
		}
		for _, cond := range core.CondsAt(b) {
			x, neq, isNil := core.NilCmp(cond.V)
			if !isNil || neq == cond.True {
				continue
			}
			if e2, isEx := x.(*ssa.Extract); isEx && e2.Tuple == ssa.Value(vc) && e2.Index == 1 {
				return true, "the handler comes out of " + c.M.Key(callee) + ", whose accepting returns hand out a value checked to be a function, and its error is known to be nil here"
			}
		}
		return false, ""
	}
	n := 0
	for _, fn := range c.functionFuncs() {
		idx := 0
		for _, b := range fn.Blocks {
			for _, in := range b.Instrs {
				call, ok := in.(*ssa.Call)
				if !ok || core.StaticCalleeName(&call.Call) != "(reflect.Value).Type" {
					continue
				}
				hv := call.Call.Args[0]
				idx++
				n++
				k := key(rule, c.M.Key(fn), sprintf("handler.Type() #%d after a function-kind check", idx))
				ok2 := kindFuncAt(b, hv)
				why := "dominated by handler.Kind() == reflect.Func"
				if !ok2 {
					// callee that ensures it returned nil
					for _, cond := range core.CondsAt(b) {
						x, neq, isNil := core.NilCmp(cond.V)
						if !isNil || neq == cond.True {
							continue
						}
						if vc, ok := x.(*ssa.Call); ok {
							for _, callee := range c.M.Callees(&vc.Call) {
								if pi, has := ensures[callee]; has && pi < len(vc.Call.Args) && vc.Call.Args[pi] == hv {
									ok2 = true
									why = "dominated by " + c.M.Key(callee) + "(handler) == nil, whose accepting returns imply Kind() == reflect.Func"
								}
							}
						}
					}
				}
				if !ok2 {
					if y, w := yieldedAt(b, hv); y {
						ok2, why = true, w
					}
				}
				if !ok2 {
					// parameter fact: every call site of fn passes a handler for which the fact holds
					if p, isParam := hv.(*ssa.Parameter); isParam {
						ok2, why = c.allCallersEnsureFunc(fn, p, ensures)
						if !ok2 {
							ok2, why = c.allCallersYield(fn, p, yieldedAt)
						}
					}
				}
				if ok2 {
					c.R.Ok(rule, k, c.M.InstrPos(call), "reflection on the handler's type", why)
				} else {
					c.R.Bad(rule, k, c.M.InstrPos(call), "handler.Type().NumIn/NumOut reachable for a non-function handler", "reflect panics (NumIn of non-func type / Type of zero Value) instead of the constructor returning an error")
				}
			}
		}
	}
	if n == 0 {
		c.R.Unresolved(rule, "reflect.Value.Type() uses on the handler")
	}
}

func kindFuncAt(b *ssa.BasicBlock, hv ssa.Value) bool {
	for _, cond := range core.CondsAt(b) {
		bin, ok := cond.V.(*ssa.BinOp)
		if !ok {
			continue
		}
		call, ok := bin.X.(*ssa.Call)
		if !ok || core.StaticCalleeName(&call.Call) != "(reflect.Value).Kind" || call.Call.Args[0] != hv {
			continue
		}
		k, ok := core.ConstInt(bin.Y)
		if !ok || k != 19 { // reflect.Func
			continue
		}
		if (bin.Op == token.EQL && cond.True) || (bin.Op == token.NEQ && !cond.True) {
			return true
		}
	}
	return false
}

// allCallersYield: every call site of fn passes, in the position of p, a handler that a yielding function handed out.
func (c *Ctx) allCallersYield(fn *ssa.Function, p *ssa.Parameter, yieldedAt func(*ssa.BasicBlock, ssa.Value) (bool, string)) (bool, string) {
	pi := -1
	for i, q := range fn.Params {
		if q == p {
			pi = i
		}
	}
	sites := core.PlainSites(fn)
	if pi < 0 || len(sites) == 0 {
		return false, ""
	}
	why := ""
	for _, site := range sites {
		if pi >= len(site.Call.Args) {
			return false, ""
		}
		ok, w := yieldedAt(site.Block(), site.Call.Args[pi])
		if !ok {
			return false, ""
		}
		why = w
	}
	return true, "every call site passes such a handler: " + why
}

func (c *Ctx) allCallersEnsureFunc(fn *ssa.Function, p *ssa.Parameter, ensures map[*ssa.Function]int) (bool, string) {
	pi := -1
	for i, q := range fn.Params {
		if q == p {
			pi = i
		}
	}
	n := 0
	for _, g := range c.M.Funcs {
		for _, b := range g.Blocks {
			for _, in := range b.Instrs {
				call, ok := in.(*ssa.Call)
				if !ok {
					continue
				}
				for _, callee := range c.M.Callees(&call.Call) {
					if callee != fn || pi >= len(call.Call.Args) {
						continue
					}
					n++
					hv := call.Call.Args[pi]
					ok2 := kindFuncAt(b, hv)
					for _, cond := range core.CondsAt(b) {
						x, neq, isNil := core.NilCmp(cond.V)
						if !isNil || neq == cond.True {
							continue
						}
						if vc, ok := x.(*ssa.Call); ok {
							for _, c2 := range c.M.Callees(&vc.Call) {
								if qi, has := ensures[c2]; has && qi < len(vc.Call.Args) && vc.Call.Args[qi] == hv {
									ok2 = true
								}
							}
						}
					}
					if !ok2 {
						return false, ""
					}
				}
			}
		}
	}
	return n > 0, "every call site passes a handler already checked to be a function"
}

// functionCallArgs: what is stored into the argument slice of the reflective call.
//
//	(i)  every element is reflect.Zero(...) or reflect.ValueOf(x) with x known to be non-nil there - reflect.ValueOf(nil)
//	     is the zero Value and Call panics on it ("Call using zero Value argument");
//	(ii) every way from a ValueOf store back to the filling loop's header, or on to the call, passes an AssignableTo
//	     test of the element's type - Call panics on an argument that is not assignable to the parameter type.
func (c *Ctx) functionCallArgs(rule string, fn *ssa.Function, hcall *ssa.Call) {
	if len(hcall.Call.Args) < 2 {
		return
	}
	slice := hcall.Call.Args[1]
	for _, a := range hcall.Call.Args {
		if typeStr(a.Type()) == "[]reflect.Value" {
			slice = a // the recover helper may take more than (handler, arguments)
		}
	}
	ends := []*ssa.BasicBlock{hcall.Block()}
	// the slice may be built by a helper of the package (the conversion of the arguments, moved into a function of its
	// own): the stores are examined there, and "before the call" is "before the helper returns the slice"
	if call, i, ok := core.CallResult(slice); ok {
		if helper := core.StaticBody(&call.Call); helper != nil && helper.Pkg == fn.Pkg {
			var made ssa.Value
			var retBlocks []*ssa.BasicBlock
			same := true
			for _, s := range core.RetSites(helper, i) {
				if core.IsNilConst(s.Val) {
					continue
				}
				if made != nil && made != s.Val {
					same = false
				}
				made = s.Val
				retBlocks = append(retBlocks, s.Block())
			}
			if made != nil && same {
				fn, slice, ends = helper, made, retBlocks
			}
		}
	}
	reachesEnd := func(b *ssa.BasicBlock, stop func(*ssa.BasicBlock) bool) bool {
		for _, e := range ends {
			if blockReaches(b, e, stop) {
				return true
			}
		}
		return false
	}
	dt := core.NewDynTypes(c.M)
	n := 0
	assignChecked := func(b *ssa.BasicBlock) bool {
		for _, in := range b.Instrs {
			if call, ok := in.(*ssa.Call); ok && call.Call.IsInvoke() && call.Call.Method.Name() == "AssignableTo" {
				return true
			}
		}
		return false
	}
	for _, b := range fn.Blocks {
		for _, in := range b.Instrs {
			st, ok := in.(*ssa.Store)
			if !ok {
				continue
			}
			ia, ok := st.Addr.(*ssa.IndexAddr)
			if !ok || ia.X != slice {
				continue
			}
			n++
			k1 := key(rule, c.M.Key(fn), sprintf("argument store #%d is a valid reflect.Value", n))
			k2 := key(rule, c.M.Key(fn), sprintf("argument store #%d is checked for assignability before the call", n))
			pos := c.M.InstrPos(st)
			vcall, _ := st.Val.(*ssa.Call)
			name := ""
			if vcall != nil {
				name = core.StaticCalleeName(&vcall.Call)
			}
			// the element is worked out by a helper of the package that hands back (value, error): the store is made where
			// the error was found nil, and the helper's ways out without an error are examined like the stores
			if hc, idx, isCall := core.CallResult(st.Val); isCall && name == "" || (isCall && !strings.HasPrefix(name, "reflect.")) {
				if helper := core.StaticBody(&hc.Call); helper != nil && helper.Pkg == fn.Pkg && core.ErrorResultIndex(helper.Signature) >= 0 {
					hei := core.ErrorResultIndex(helper.Signature)
					underNil := false
					for _, cond := range core.CondsAt(b) {
						if x, neq, isNil := core.NilCmp(cond.V); isNil && neq != cond.True {
							if ec, ei2, ok := core.CallResult(core.Unwrap(x)); ok && ec == hc && ei2 == hei {
								underNil = true
							}
						}
					}
					valid, assignable, why := underNil, underNil, "the store is not made under a nil error of "+helper.Name()
					sites := 0
					if underNil {
						for _, r := range core.ReturnsOf(helper) {
							if c.M.RetNonNil(r, hei) {
								continue
							}
							sites++
							rc, _ := r.Val(idx).(*ssa.Call)
							rname := ""
							if rc != nil {
								rname = core.StaticCalleeName(&rc.Call)
							}
							switch rname {
							case "reflect.Zero", "reflect.New":
							case "reflect.ValueOf":
								if may, _ := c.maybeNilIface(dt, rc.Call.Args[0], r.Block()); may {
									valid, why = false, "a way out of "+helper.Name()+" returns reflect.ValueOf of a value that may be nil"
								}
								checked := false
								for _, hb := range helper.Blocks {
									if assignChecked(hb) && (hb == r.Block() || hb.Dominates(r.Block())) {
										checked = true
									}
								}
								if !checked {
									assignable = false
								}
							default:
								valid, assignable, why = false, false, "a way out of "+helper.Name()+" without an error returns a value of unknown construction"
							}
						}
					}
					if sites == 0 {
						valid, assignable = false, false
					}
					if valid {
						c.R.Ok(rule, k1, pos, "argument of the reflective call", "the result of "+helper.Name()+", stored where its error was found nil: every way out of it without an error returns reflect.Zero / reflect.New of the parameter type or reflect.ValueOf of a value that is not nil")
					} else {
						c.R.Bad(rule, k1, pos, "argument of the reflective call of unknown construction", why)
					}
					if assignable {
						c.R.Ok(rule, k2, pos, "argument of the reflective call", "every way out of "+helper.Name()+" that returns reflect.ValueOf(..) without an error lies behind an AssignableTo test")
					} else {
						c.R.Bad(rule, k2, pos, "an argument reaches the reflective call without an assignability test",
							"reflect's Call panics (Call using X as type Y) when an argument is not assignable to the handler's parameter type; a wrongly typed argument must come back as a call-shape error")
					}
					continue
				}
			}
			switch {
			case name == "reflect.Zero" || name == "reflect.New":
				c.R.Ok(rule, k1, pos, "argument of the reflective call", name+" yields a valid Value of the given type")
				c.R.Ok(rule, k2, pos, "argument of the reflective call", "made from the parameter type itself")
				continue
			case name == "reflect.ValueOf":
				if may, why := c.maybeNilIface(dt, vcall.Call.Args[0], b); !may {
					c.R.Ok(rule, k1, pos, "argument of the reflective call", why)
				} else {
					c.R.Bad(rule, k1, pos, "the reflective call can receive reflect.ValueOf(nil)",
						"a nil argument (a null for an any or pointer parameter) becomes the zero Value and reflect's Call panics (Call using zero Value argument) instead of the handler being called with nil")
				}
			default:
				c.R.Bad(rule, k1, pos, "argument of the reflective call of unknown construction", "undecided = fail")
			}
			// (ii)
			if assignChecked(b) {
				c.R.Ok(rule, k2, pos, "argument of the reflective call", "AssignableTo is tested in the same block")
				continue
			}
			header := b
			for _, cand := range fn.Blocks {
				if cand.Dominates(b) && blockReaches(b, cand, nil) && blockReaches(cand, b, nil) {
					header = cand
					break
				}
			}
			unchecked := reachesEnd(b, func(x *ssa.BasicBlock) bool { return assignChecked(x) || (x == header && x != b) })
			if header != b && blockReaches(b, header, assignChecked) {
				unchecked = true
			}
			if unchecked {
				c.R.Bad(rule, k2, pos, "an argument reaches the reflective call without an assignability test",
					"reflect's Call panics (Call using X as type Y) when an argument is not assignable to the handler's parameter type; a wrongly typed argument must come back as a call-shape error")
			} else {
				c.R.Ok(rule, k2, pos, "argument of the reflective call", "every path onwards passes an AssignableTo test")
			}
		}
	}
	if n == 0 {
		c.R.Unresolved(rule, "stores into the argument slice of the reflective call")
	}
}

// R-ACCEPT (C18): what the constructors must have looked at before accepting a handler.
//   - validateInputTypeCompatibility consults IsVariadic() on every accepting path (Call cannot spread a variadic tail);
//   - NewDynamicCallableFunction stores a type handler that is known to be non-nil (Call tells a dynamic function from
//     an output-less one by it).
func (c *Ctx) ruleAccept(rule string) {
	if fn := c.fn(rule, "schema.validateInputTypeCompatibility"); fn != nil {
		k := key(rule, c.M.Key(fn), "every accepting return has consulted IsVariadic()")
		consult := func(b *ssa.BasicBlock) bool {
			for _, in := range b.Instrs {
				if call, ok := in.(*ssa.Call); ok && isReflectTypeMethod(call, "IsVariadic") {
					return true
				}
			}
			return false
		}
		bad := ""
		for _, r := range core.ReturnsOf(fn) {
			if !core.IsNilConst(core.RetVal(r, 0)) {
				continue
			}
			entry := fn.Blocks[0]
			if consult(entry) {
				continue
			}
			if r.Block() == entry || blockReaches(entry, r.Block(), consult) {
				bad = c.M.InstrPos(r)
			}
		}
		if bad == "" {
			c.R.Ok(rule, k, c.M.Pos(fn.Pos()), "handler acceptance", "IsVariadic() is on every path to an accepting return")
		} else {
			c.R.Bad(rule, k, bad, "a handler can be accepted without IsVariadic() having been consulted",
				"for func(xs ...T) the reflected parameter type is []T, so a list input passes the type check, but Call does not spread: the call panics or wraps the list into one element")
		}
	}
	if fn := c.fn(rule, "schema.validateInputTypeCompatibility"); fn != nil {
		// a nil func value has Kind Func and the right type; calling it panics
		k := key(rule, c.M.Key(fn), "every accepting return has consulted IsNil() of the handler")
		consult := func(b *ssa.BasicBlock) bool {
			for _, in := range b.Instrs {
				if call, ok := in.(*ssa.Call); ok && reflectValueMethod(call) == "IsNil" {
					return true
				}
			}
			return false
		}
		bad := ""
		entry := fn.Blocks[0]
		for _, r := range core.ReturnsOf(fn) {
			if !core.IsNilConst(core.RetVal(r, 0)) || consult(entry) {
				continue
			}
			if r.Block() == entry || blockReaches(entry, r.Block(), consult) {
				bad = c.M.InstrPos(r)
			}
		}
		if bad == "" {
			c.R.Ok(rule, k, c.M.Pos(fn.Pos()), "handler acceptance", "IsNil() is on every path to an accepting return")
		} else {
			c.R.Bad(rule, k, bad, "a handler can be accepted without IsNil() having been consulted",
				"a nil func value (an unset field of function type) has Kind Func and the expected signature: the constructor accepts it and the first well-shaped Call panics with 'call of nil function'")
		}
	}
	if fn := c.fn(rule, "schema.NewDynamicCallableFunction"); fn != nil {
		k := key(rule, c.M.Key(fn), "the stored type handler is non-nil")
		found := false
		for _, b := range fn.Blocks {
			for _, in := range b.Instrs {
				st, ok := in.(*ssa.Store)
				if !ok {
					continue
				}
				fa, ok := st.Addr.(*ssa.FieldAddr)
				if !ok || fieldName(fa.X.Type(), fa.Field) != "DynamicTypeHandler" {
					continue
				}
				found = true
				if c.M.NonNilAt(b, c.M.ValPath(st.Val)) {
					c.R.Ok(rule, k, c.M.InstrPos(st), "dynamic function construction", "dominated by a non-nil test of the type handler")
				} else {
					c.R.Bad(rule, k, c.M.InstrPos(st), "a dynamic function can be built with a nil type handler",
						"Call treats a function without type handler and without static output as returning nothing: the handler runs, its result and error are discarded and replaced by an unexpected-return-count error")
				}
			}
		}
		if !found {
			c.R.Unresolved(rule, "store to DynamicTypeHandler")
		}
	}
}
